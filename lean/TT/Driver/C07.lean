import TT.Model.UdpFlows
import TT.Model.UdpSocks
namespace TT.Driver
open TT.UdpFlows

def parseKind : Char → Option Kind
  | 'L' => some .live | 'N' => some .dns | 'X' => some .dead | 'U' => some .unconn | _ => none

def c07Meta (nd f : Nat) : Meta := { src := f / nd, dst := f % nd }
def c07Flow (nd : Nat) (m : Meta) : Nat := m.src * nd + m.dst

def parseC07Op (nd : Nat) (s : String) : Option Op :=
  match s.splitOn "." with
  | ["d", f, l] => do some (.dg (c07Meta nd (← f.toNat?)) (max (← l.toNat?) 3))
  | ["r", f, l] => do some (.reply (c07Meta nd (← f.toNat?)) (← l.toNat?))
  | ["a", ms] => do some (.adv (← ms.toNat?))
  | ["c"] => some .close
  | _ => none

def kv (pfx : String) (s : String) : Option String :=
  if s.startsWith pfx then some (s.drop pfx.length).toString else none

/-- the per-operation line of the suite, computed from the model -/
def c07Run (c : Cfg) (nd : Nat) (ops : List Op) : String := Id.run do
  let mut s := init c
  let mut outs : Array String := #[]
  let mut i := 0
  for op in ops do
    let seq := i % 250
    let (s', o) := step c s op
    match op with
    | .close =>
      outs := outs.push s!"closed:err:UnexpectedEof g{s'.gauge} o{s'.gauge}"
      s := s'
      break
    | _ =>
      let srv := o.srv.map fun (d, m, l) => s!"{d}/{c07Flow nd m}.{seq}.{l}"
      let cli := o.cli.map fun (lm, m, l) => s!"{c07Flow nd lm}/{c07Flow nd m}.{seq}.{l}"
      let fds := match op with
        | .adv ms => if c.timeout / 4 ≤ ms then s!"{s'.gauge}" else "-"
        | _ => "-"
      outs := outs.push s!"S[{",".intercalate srv}] C[{",".intercalate cli}] g{s'.gauge} t{s'.flows} o{fds} u{s'.up} v{s'.down} f{if s'.finished then 1 else 0}"
      s := s'
    i := i + 1
  return " | ".intercalate outs.toList

/-- the same line for the SOCKS5 forwarder's multiplexer (descriptors are not compared there: the
proxy of the suite lives in the same process) -/
def c07SocksRun (c : Cfg) (nd : Nat) (ops : List Op) : String := Id.run do
  let mut s := TT.UdpSocks.init c
  let mut outs : Array String := #[]
  let mut i := 0
  for op in ops do
    let seq := i % 250
    let (s', o) := TT.UdpSocks.step c s op
    match op with
    | .close =>
      outs := outs.push s!"closed:err:UnexpectedEof g{s'.gauge} o-"
      s := s'
      break
    | _ =>
      let srv := o.srv.map fun (d, m, l) => s!"{d}/{c07Flow nd m}.{seq}.{l}"
      let cli := o.cli.map fun (lm, m, l) => s!"{c07Flow nd lm}/{c07Flow nd m}.{seq}.{l}"
      outs := outs.push s!"S[{",".intercalate srv}] C[{",".intercalate cli}] g{s'.gauge} t{s'.flows} o- u{s'.up} v{s'.down} f{if s'.finished then 1 else 0}"
      s := s'
    i := i + 1
  return " | ".intercalate outs.toList

def c07 (toks : List String) : String :=
  match toks with
  | ["socks", t, k, _s, ops] =>
    match kv "T=" t, kv "K=" k, kv "ops=" ops with
    | some t, some k, some ops =>
      match t.toNat?, k.toList.mapM parseKind with
      | some t, some kinds =>
        let nd := kinds.length
        match (ops.splitOn ";").mapM (parseC07Op nd) with
        | some ops => c07SocksRun { timeout := t, kinds := kinds } nd ops
        | none => "bad-op"
      | _, _ => "bad-op"
    | _, _, _ => "bad-op"
  | ["run", t, k, _s, ops] =>
    match kv "T=" t, kv "K=" k, kv "ops=" ops with
    | some t, some k, some ops =>
      match t.toNat?, k.toList.mapM parseKind with
      | some t, some kinds =>
        let nd := kinds.length
        match (ops.splitOn ";").mapM (parseC07Op nd) with
        | some ops => c07Run { timeout := t, kinds := kinds } nd ops
        | none => "bad-op"
      | _, _ => "bad-op"
    | _, _, _ => "bad-op"
  | _ => "bad-op"

end TT.Driver
