import TT.Model.Util
import TT.Model.H1
namespace TT.Driver
open TT TT.H1

/-- concrete head parser used for the correspondence runs on *valid* generated heads: the head
ends at the first CRLF CRLF (httparse agrees on these heads; invalid heads are judged by the
harness oracle only) -/
def findCrlfCrlf : Bytes → Nat → Option Nat
  | 13 :: 10 :: 13 :: 10 :: _, i => some (i + 4)
  | _ :: rest, i => findCrlfCrlf rest (i + 1)
  | [], _ => none

def crlfParser : Parser := ⟨fun b => match findCrlfCrlf b 0 with
  | some idx => .complete idx
  | none => .incomplete⟩

def c08 (toks : List String) : String :=
  match toks with
  | "listen" :: chunks =>
    match chunks.mapM parseHex with
    | none => "bad-op"
    | some cs =>
      -- the client closes its side after the last chunk: EOF is an empty read
      match listenWaiting crlfParser [] (cs ++ [[]]) with
      | .request head tail rest => s!"request {head.length} {toHex (uploadChunks tail rest).flatten}"
      | .closed => "closed"
      | .error => "error"
      | .starved _ => "starved"
  | _ => "bad-op"

end TT.Driver
