import TT.Model.Util
import TT.Model.H1
import TT.Model.H1Relay
namespace TT.Driver
open TT TT.H1

/-- concrete head parser used for the correspondence runs on *valid* generated heads: the head
ends with its first empty line, lines ending in CR LF or in a bare LF (httparse takes both and agrees
on these heads; invalid heads are judged by the harness oracle only) -/
def findHeadEnd : Bytes → Nat → Option Nat
  | 10 :: 13 :: 10 :: _, i => some (i + 3)
  | 10 :: 10 :: _, i => some (i + 2)
  | _ :: rest, i => findHeadEnd rest (i + 1)
  | [], _ => none

def crlfParser : Parser := ⟨fun b => match findHeadEnd b 0 with
  | some idx => .complete idx
  | none => .incomplete⟩

def parseRelayEv (t : String) : Option H1Relay.Ev :=
  match t.splitOn "." with
  | ["u", h] => (parseHex h).map .up
  | ["d", h] => (parseHex h).map fun b => .down b true
  | ["df", h] => (parseHex h).map fun b => .down b false
  | ["ce"] => some .clientEof
  | ["re"] => some .readErr
  | ["sg"] => some .sourceGone
  | ["eof", "-"] => some (.relayEof [])
  | ["eof", h] => (parseHex h).map .relayEof
  | ["gone", "0"] => some (.relayGone false)
  | ["gone", "1"] => some (.relayGone true)
  | _ => none

def hexOrDash (b : Bytes) : String := if b.isEmpty then "-" else toHex b

def c08 (toks : List String) : String :=
  match toks with
  | ["relay", evs] =>
    match (evs.splitOn ";").mapM parseRelayEv with
    | none => "bad-op"
    | some es =>
      let (s, r) := H1Relay.run {} es
      let e := match r with
        | some .graceful => "graceful"
        | some .failed => "failed"
        | none => "running"
      s!"up={hexOrDash s.upload} down={hexOrDash s.written} end={e}"
  | "listen" :: chunks =>
    match chunks.mapM parseHex with
    | none => "bad-op"
    | some cs =>
      -- the client closes its side after the last chunk: EOF is an empty read
      match listenWaiting crlfParser [] (cs ++ [[]]) with
      | .request head tail rest => s!"request {head.length} {toHex (uploadChunks tail rest).flatten}"
      | .closed => "closed"
      | .error => "error"
      | .starved _ => "starved"
  | _ => "bad-op"

end TT.Driver
