import TT.Model.Util
import TT.Model.Dispatch
import TT.Driver.C13
import TT.Driver.C03
namespace TT.Driver
open TT TT.Dispatch TT.Gen

def asciiOfHex (h : String) : Option (List Char) := (parseHex h).map (fun bs => bs.map Char.ofNat)

def parseAuthn : List String → Option (Option Authn × List String)
  | "none" :: rest => some (none, rest)
  | "reg" :: n :: rest =>
    match parseClients n.toNat! rest with
    | some (clients, rest) => some (some (registryAuthn clients), rest)
    | none => none
  | "scr" :: nt :: rest =>
    let nt := nt.toNat!
    let toks := (rest.take nt).filterMap asciiOfHex
    match rest.drop nt with
    | ns :: rest2 =>
      let ns := ns.toNat!
      let snis := (rest2.take ns).filterMap asciiOfHex
      some (some ⟨fun s => match s with
        | .proxyBasic t => toks.contains t
        | .sni c => snis.contains c⟩, rest2.drop ns)
    | [] => none
  | _ => none

def parseOutcome (s : String) : Option ConnectOutcome :=
  match s.splitOn ":" with
  | ["ok"] => some .ok
  | ["io"] => some (.err .io)
  | ["hostUnreachable"] => some (.err .hostUnreachable)
  | ["timeout"] => some (.err .timeout)
  | ["dnsNonroutable"] => some (.err .dnsNonroutable)
  | ["dnsLoopback"] => some (.err .dnsLoopback)
  | ["other"] => some (.err .other)
  | ["authentication"] => some (.err .authentication)
  | ["delay", ms] => ms.toNat?.map .delayedOk
  | _ => none

def fmtResp (evs : List Event) : String :=
  match evs.filterMap (fun e => match e with | .response r => some r | _ => none) with
  | r :: _ =>
    let warn := match r.entries.filterMap (fun e => match e with | .warn c => some c | _ => none) with
      | c :: _ => toString c
      | [] => "-"
    let ch := if r.entries.contains .challenge then "1" else "0"
    let dh := if r.entries.contains .dnshost then "1" else "0"
    s!"{r.status} {warn} {ch} {dh}"
  | [] => "0 - 0 0"

def fmtEgress : Egress → String
  | .tcpConnect => "tcp"
  | .udpMux => "udp"
  | .icmpMux => "icmp"
  | .checkAuth => "checkauth"

partial def parseReqs (d : Nat) : Nat → List String → Option (List (Req × Env))
  | 0, _ => some []
  | n+1, m :: auth :: lit :: port :: hdr :: oc :: udpf :: icmp :: dgf :: rest =>
    let authority : Option String := (asciiOfHex auth).map String.ofList
    let hdrB : Option (Option Bytes) :=
      if hdr == "absent" then some none
      else if hdr == "h" then some (some [])
      else (parseHex (hdr.drop 1).toString).map some
    match hdrB, parseOutcome oc, parseReqs d n rest with
    | some hb, some o, some l =>
      let req : Req := ⟨if m == "C" then .connect else .other, authority, lit == "1", port.toNat?, hb⟩
      let env : Env := ⟨o, d, udpf == "1", (if icmp == "n" then none else if icmp == "o" then some true else some false), dgf == "1"⟩
      some ((req, env) :: l)
    | _, _, _ => none
  | _, _ => none

def insertSorted (s : String) : List String → List String
  | [] => [s]
  | x :: xs => if s ≤ x then s :: x :: xs else x :: insertSorted s xs

/-- the real direct forwarder behind the dispatch: the decision of the C03 model for the
destination, carried through the generated status / warning tables (an attempted connect is failed
by the door's stub with ECONNREFUSED, a resolver failure is an I/O error) -/
def c10Real (allow v6ok : Bool) (dest : TT.Ip.Dest) : String :=
  let err : ConnErr := match TT.Ip.connectDecision allow v6ok dest with
    | .connect _ => .io
    | .loopback => .dnsLoopback
    | .nonroutable => .dnsNonroutable
    | .resolveFailed => .io
  let w := warnOf err
  let warn := match w.filterMap (fun e => match e with | .warn c => some c | _ => none) with
    | c :: _ => toString c
    | [] => "-"
  s!"{statusOf err} {warn} {if w.contains .challenge then 1 else 0} {if w.contains .dnshost then 1 else 0}"

/-- a CONNECT through the real SOCKS5 forwarder whose upstream answers the request with this -/
def c10Socks (a : SocksAnswer) : String :=
  match socksOutcome a with
  | .err e =>
    let w := warnOf e
    let warn := match w.filterMap (fun x => match x with | .warn c => some c | _ => none) with
      | c :: _ => toString c
      | [] => "-"
    s!"{statusOf e} {warn} {if w.contains .challenge then 1 else 0} {if w.contains .dnshost then 1 else 0}"
  | _ => "200 - 0 0"

def c10 (toks : List String) : String :=
  match toks with
  | ["errno", n] =>
    match n.toNat? with
    | some e =>
      let err := connErrOfErrno e
      let w := warnOf err
      let warn := match w.filterMap (fun x => match x with | .warn c => some c | _ => none) with
        | c :: _ => toString c
        | [] => "-"
      s!"{statusOf err} {warn} {if w.contains .challenge then 1 else 0} {if w.contains .dnshost then 1 else 0}"
    | none => "bad-op"
  | ["socks", "closed"] => c10Socks .closed
  | ["socks", "malformed"] => c10Socks .malformed
  | ["socks", rep] =>
    match rep.toNat? with
    | some r => c10Socks (.reply r)
    | none => "bad-op"
  | "real" :: allow :: v6ok :: kind :: rest =>
    let nums := rest.map String.toNat!
    match kind with
    | "addr" =>
      match parseIp nums with
      | some (ip, [port]) => c10Real (allow == "1") (v6ok == "1") (.addr ⟨ip, port⟩)
      | _ => "bad-op"
    | "host" =>
      match nums with
      | n :: rest =>
        match parseSocks n rest with
        | some l => c10Real (allow == "1") (v6ok == "1") (.host (some l))
        | none => "bad-op"
      | _ => "bad-op"
    | _ => "bad-op"
  | "session" :: _proto :: rest =>
    match parseAuthn rest with
    | none => "bad-op"
    | some (authn, rest) =>
      match rest with
      | sni :: d :: n :: rest =>
        let sniC : Option (List Char) := if sni == "-" then none else asciiOfHex sni
        match parseReqs d.toNat! n.toNat! rest with
        | none => "bad-op"
        | some reqs =>
          match sessionPolicy authn sniC with
          | none =>
            -- the connection is dropped before any request is served
            let rs := ";".intercalate (reqs.map (fun _ => "0 - 0 0"))
            s!"{rs} | -"
          | some policy =>
            let evs := session policy authn reqs
            let rs := ";".intercalate (evs.map fmtResp)
            let eg := (evs.flatten.filterMap (fun e => match e with | .egress x => some (fmtEgress x) | _ => none)).foldr insertSorted []
            let egs := if eg.isEmpty then "-" else ",".intercalate eg
            s!"{rs} | {egs}"
      | _ => "bad-op"
  | _ => "bad-op"

end TT.Driver
