import TT.Model.Util
import TT.Model.Icmp
import TT.Driver.C03
namespace TT.Driver
open TT TT.Icmp

def hexOr (s : String) (k : Bytes → String) : String :=
  match parseHex s with
  | some b => k b
  | none => "bad-op"

def fmtRequest (r : Request) : String :=
  s!"{r.id} {fmtIp r.dest} {r.seq} {r.ttl} {r.dataSize} {requestType r}"

def c11 (toks : List String) : String :=
  match toks with
  | ["checksum", h] => hexOr h fun b => toString (checksum b)
  | ["serialize", v6, id, seq, h] =>
    hexOr h fun d => toHex (Echo.serialize ⟨0, id.toNat!, seq.toNat!, d⟩ (if v6 == "1" then 128 else 8))
  | ["serializehdr", v6, id, seq, h] =>
    hexOr h fun d => toHex ((Echo.serialize ⟨0, id.toNat!, seq.toNat!, d⟩ (if v6 == "1" then 128 else 8)).take 8)
  | ["skip", v6, h] =>
    hexOr h fun b =>
      match (if v6 == "1" then skipIpv6Header b else skipIpv4Header b) with
      | .panic => "panic"
      | .ok none => "none"
      | .ok (some (proto, rest)) => s!"{proto} {toHex rest}"
  | ["deser", v6, h] =>
    hexOr h fun b =>
      match (if v6 == "1" then deserializeV6 b else deserializeV4 b) with
      | .panic => "panic"
      | .rejected => "rejected"
      | .ok m => s!"{m.typeId} {m.code}"
  | ["responded", v6, h] =>
    hexOr h fun b =>
      match (if v6 == "1" then deserializeV6 b else deserializeV4 b) with
      | .panic => "panic"
      | .rejected => "rejected"
      | .ok m =>
        match (if v6 == "1" then respondedV6 m else respondedV4 m) with
        | .panic => "panic"
        | .none => "none"
        | .some e => s!"{e.code} {e.id} {e.seq} {toHex e.data}"
  | "encreply" :: v6 :: rest =>
    match rest.reverse with
    | h :: ipToksRev =>
      match parseIp (ipToksRev.reverse.map String.toNat!) with
      | some (peer, []) =>
        hexOr h fun b =>
          match (if v6 == "1" then deserializeV6 b else deserializeV4 b) with
          | .panic => "panic"
          | .rejected => "rejected"
          | .ok m =>
            match encodeReply (v6 == "1") peer m with
            | .panic => "panic"
            | .none => "none"
            | .some o => toHex o
      | _ => "bad-op"
    | _ => "bad-op"
  | "decode" :: chunks =>
    match chunks.mapM parseHex with
    | none => "bad-op"
    | some cs =>
      let total := (cs.map List.length).sum
      match decodeStream (cs.length + total + 2) [] cs [] with
      | none => "panic"
      | some (reqs, _) => if reqs.isEmpty then "-" else ";".intercalate (reqs.map fmtRequest)
  | _ => "bad-op"

end TT.Driver
