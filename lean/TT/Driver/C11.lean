import TT.Model.Util
import TT.Model.Icmp
import TT.Driver.C03
namespace TT.Driver
open TT TT.Icmp

def hexOr (s : String) (k : Bytes → String) : String :=
  match parseHex s with
  | some b => k b
  | none => "bad-op"

def fmtRequest (r : Request) : String :=
  s!"{r.id} {fmtIp r.dest} {r.seq} {r.ttl} {r.dataSize} {requestType r}"

/-- the live waiter-table histories: the table of `TT.Icmp` plus the per-client delivery queues
(`mpsc::channel(cap)`: a full queue drops the waiter) -/
structure LiveSt where
  t : Table := {}
  now : Nat := 0
  queues : List (List String) := [[], []]

def liveDeliver (cap : Nat) (s : LiveSt) (req : Echo) (what : String) : LiveSt :=
  match s.t.waiters.find? (fun w => echoKeyEq w.key req) with
  | none => s
  | some w =>
    let q := s.queues.getD w.client []
    let full := q.length ≥ cap
    let (t', dst) := s.t.recv req full
    match dst with
    | some c => { s with t := t', queues := s.queues.set c (q ++ [what]) }
    | none => { s with t := t' }

def liveStep (timeout cap : Nat) (s : LiveSt) (op : String) : LiveSt × String :=
  match op.splitOn "." with
  | ["req", c, id, seq, h] =>
    match c.toNat?, id.toNat?, seq.toNat?, parseHex h with
    | some c, some id, some seq, some d =>
      let e : Echo := ⟨0, id, seq, d⟩
      let s := { s with t := s.t.send c e s.now timeout }
      -- the kernel answers an echo to 127.0.0.1 at once
      (liveDeliver cap s e s!"0/0/{id}/{seq}", "-")
    | _, _, _, _ => (s, "bad-op")
  | ["bad", _c, _id, _seq, _h] =>
    -- a request the kernel refused to send (TTL 0): the client is told, no waiter is registered
    (s, "-")
  | ["inj", id, seq, h] =>
    match id.toNat?, seq.toNat?, parseHex h with
    | some id, some seq, some d => (liveDeliver cap s ⟨0, id, seq, d⟩ s!"0/0/{id}/{seq}", "-")
    | _, _, _ => (s, "bad-op")
  | ["err", ty, id, seq, h] =>
    match ty.toNat?, id.toNat?, seq.toNat?, parseHex h with
    | some ty, some id, some seq, some d => (liveDeliver cap s ⟨0, id, seq, d⟩ s!"{ty}/0/{id}/{seq}", "-")
    | _, _, _, _ => (s, "bad-op")
  | ["adv", ms] =>
    match ms.toNat? with
    | some ms => let now := s.now + ms; ({ s with now := now, t := s.t.tick now }, "-")
    | none => (s, "bad-op")
  | ["take", c] =>
    match c.toNat? with
    | some c =>
      let q := s.queues.getD c []
      ({ s with queues := s.queues.set c [] }, if q.isEmpty then "-" else ",".intercalate q)
    | none => (s, "bad-op")
  | _ => (s, "bad-op")

def c11Table (timeout cap : Nat) (ops : List String) : String := Id.run do
  let mut s : LiveSt := {}
  let mut outs : Array String := #[]
  for op in ops do
    let (s', o) := liveStep timeout cap s op
    s := s'
    outs := outs.push o
  return " | ".intercalate outs.toList

def c11 (toks : List String) : String :=
  match toks with
  | ["table", t, cap, ops] =>
    match (t.drop 2).toString.toNat?, (cap.drop 4).toString.toNat? with
    | some t, some cap => c11Table t cap ((ops.drop 4).toString.splitOn ";")
    | _, _ => "bad-op"
  | ["checksum", h] => hexOr h fun b => toString (checksum b)
  | ["serialize", v6, id, seq, h] =>
    hexOr h fun d => toHex (Echo.serialize ⟨0, id.toNat!, seq.toNat!, d⟩ (if v6 == "1" then 128 else 8))
  | ["serializehdr", v6, id, seq, h] =>
    hexOr h fun d => toHex ((Echo.serialize ⟨0, id.toNat!, seq.toNat!, d⟩ (if v6 == "1" then 128 else 8)).take 8)
  | ["skip", v6, h] =>
    hexOr h fun b =>
      match (if v6 == "1" then skipIpv6Header b else skipIpv4Header b) with
      | .panic => "panic"
      | .ok none => "none"
      | .ok (some (proto, rest)) => s!"{proto} {toHex rest}"
  | ["deser", v6, h] =>
    hexOr h fun b =>
      match (if v6 == "1" then deserializeV6 b else deserializeV4 b) with
      | .panic => "panic"
      | .rejected => "rejected"
      | .ok m => s!"{m.typeId} {m.code}"
  | ["responded", v6, h] =>
    hexOr h fun b =>
      match (if v6 == "1" then deserializeV6 b else deserializeV4 b) with
      | .panic => "panic"
      | .rejected => "rejected"
      | .ok m =>
        match (if v6 == "1" then respondedV6 m else respondedV4 m) with
        | .panic => "panic"
        | .none => "none"
        | .some e => s!"{e.code} {e.id} {e.seq} {toHex e.data}"
  | "encreply" :: v6 :: rest =>
    match rest.reverse with
    | h :: ipToksRev =>
      match parseIp (ipToksRev.reverse.map String.toNat!) with
      | some (peer, []) =>
        hexOr h fun b =>
          match (if v6 == "1" then deserializeV6 b else deserializeV4 b) with
          | .panic => "panic"
          | .rejected => "rejected"
          | .ok m =>
            match encodeReply (v6 == "1") peer m with
            | .panic => "panic"
            | .none => "none"
            | .some o => toHex o
      | _ => "bad-op"
    | _ => "bad-op"
  | ["wire", h] =>
    hexOr h fun b =>
      match parseRequest b with
      | .panic => "panic"
      | .ok r =>
        let o := outgoing r
        s!"hop={o.hopLimit} type={o.typeId} id={o.id} seq={o.seq} len={o.dataLen}"
  | "decode" :: chunks =>
    match chunks.mapM parseHex with
    | none => "bad-op"
    | some cs =>
      let total := (cs.map List.length).sum
      match decodeStream (cs.length + total + 2) [] cs [] with
      | none => "panic"
      | some (reqs, _) => if reqs.isEmpty then "-" else ";".intercalate (reqs.map fmtRequest)
  | _ => "bad-op"

end TT.Driver
