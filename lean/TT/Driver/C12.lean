import TT.Model.Util
import TT.Model.ClientHello
namespace TT.Driver
open TT TT.CH

def c12 (toks : List String) : String :=
  match toks with
  | ["extract", h] =>
    match parseHex h with
    | none => "bad-op"
    | some b =>
      match extract b with
      | .found r => s!"found {toHex r}"
      | .needMore => "needmore"
      | .notFound => "notfound"
  | ["loop", h] =>
    match parseHex h with
    | none => "bad-op"
    | some s =>
      -- canonical schedule: everything available at once (the theorems make the answer schedule-independent
      -- away from the 16 KiB cap)
      match (readLoop (List.replicate (s.length + 2) 100000) [] s).1 with
      | some r => s!"some {toHex r}"
      | none => "none"
  | _ => "bad-op"

end TT.Driver
