import TT.Model.Util
import TT.Model.Creds
import TT.Model.SettingsKeys
namespace TT.Driver
open TT TT.Creds

/-- UTF-8 bytes (hex) -> characters; `none` on malformed UTF-8 or hex -/
def charsOfHex (h : String) : Option (List Char) :=
  match parseHex h with
  | none => none
  | some bs =>
    let ba := ByteArray.mk (bs.map (fun n => UInt8.ofNat n)).toArray
    match String.fromUTF8? ba with
    | some s => some s.toList
    | none => none

def hexOfChars (s : List Char) : String := toHex (utf8 s)

def parseClients : Nat → List String → Option (List Client × List String)
  | 0, t => some ([], t)
  | n+1, u :: p :: rest =>
    match charsOfHex u, charsOfHex p, parseClients n rest with
    | some u, some p, some (l, r) => some (⟨u, p⟩ :: l, r)
    | _, _, _ => none
  | _, _ => none

def c13 (toks : List String) : String :=
  match toks with
  | ["client", ul, pl] =>
    match charsOfHex ul, charsOfHex pl with
    | some ul, some pl =>
      match loadClient (decodeLexeme ul) (decodeLexeme pl) with
      | some c => s!"ok {hexOfChars c.user} {hexOfChars c.pass}"
      | none => "rejected"
    | _, _ => "bad-op"
  | "auth" :: n :: rest =>
    match parseClients n.toNat! rest with
    | some (clients, [tok]) =>
      match charsOfHex tok with
      | some t => if registryAccepts clients t then "pass" else "reject"
      | none => "bad-op"
    | _ => "bad-op"
  | "validate" :: unspec :: port :: lb :: h1 :: h2 :: q :: nc :: rest =>
    let rp : Option (Option (Nat × List Char)) :=
      match rest with
      | ["none"] => some none
      | [p, m] => (charsOfHex m).map (fun m => some (p.toNat!, m))
      | _ => none
    match rp with
    | none => "bad-op"
    | some rp =>
      match validate ⟨unspec == "1", port.toNat!, lb == "1", h1 == "1", h2 == "1", q == "1", nc.toNat!, rp⟩ with
      | none => "ok"
      | some _ => "err"
  | ["key", st, k] =>
    let fs := TT.SettingsKeys.fieldsOf TT.Gen.settingsKeys st k
    if fs.isEmpty then "-" else ",".intercalate fs
  | _ => "bad-op"

end TT.Driver
