import TT.Model.QuicTimers
namespace TT.Driver
open TT.QuicTimers

/-- `conn@deadline` -/
def parseEntry (s : String) : Option (Conn × Nat) :=
  match s.splitOn "@" with
  | [c, t] => t.toNat?.map fun t => (c, t)
  | _ => none

def parseEntries (s : String) (sep : String) : Option (List (Conn × Nat)) :=
  if s == "-" || s.isEmpty then some [] else (s.splitOn sep).mapM parseEntry

def parseTimerOp (s : String) : Option Op :=
  match s.splitOn "." with
  | ["arm", c, t] => t.toNat?.map fun t => .arm c t
  | ["rm", c] => some (.remove c)
  | ["tick", now, rearm] =>
    match now.toNat?, parseEntries rearm "+" with
    | some now, some r => some (.tick now r)
    | _, _ => none
  | _ => none

def fmtTimerState (s : St) : String :=
  let ds := (s.deadlines.map fun e => s!"{e.1}@{e.2}").toArray.qsort (· < ·)
  let c := match s.closest with | some x => toString x | none => "-"
  s!"{c}/{",".intercalate ds.toList}"

/-- `c14 qtimers <closest|-> <deadlines|-> <op;op;...>`: the state after every operation -/
def c14 (toks : List String) : String :=
  match toks with
  | ["qtimers", closest, deadlines, ops] =>
    match parseEntries deadlines ",", (ops.splitOn ";").mapM parseTimerOp with
    | some d, some ops =>
      let init : St := ⟨d, if closest == "-" then none else closest.toNat?⟩
      let (_, outs) := ops.foldl (fun (acc : St × Array String) op =>
        let s' := step acc.1 op
        (s', acc.2.push (fmtTimerState s'))) (init, #[])
      " | ".intercalate outs.toList
    | _, _ => "bad-op"
  | _ => "bad-op"

end TT.Driver
