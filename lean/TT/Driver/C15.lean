import TT.Model.Util
import TT.Model.Socks5
import TT.Driver.C03
namespace TT.Driver
open TT TT.Socks

def hexB (s : String) : Option Bytes := parseHex s

/-- numeric token; non-numeric tokens (which only occur after the numeric fields) read as 0 -/
def natTok (s : String) : Nat := s.toNat?.getD 0

/-- parse the auth tokens; returns (auth case, rest).  `none` inside = `make_auth` failed -/
inductive AuthCase where
  | ok (a : Option Auth)
  | makeAuthFailed

def parseAuthToks : List String → Option (AuthCase × List String)
  | "none" :: rest => some (.ok none, rest)
  | "up" :: u :: p :: rest =>
    match hexB u, hexB p with
    | some u, some p => some (.ok (some (.userPass u p)), rest)
    | _, _ => none
  | "src" :: kind :: ext :: text :: decoded :: tls :: rest =>
    match hexB text, hexB tls with
    | some text, some tls =>
      match parseIp (rest.takeWhile (fun t => t != "none" && t.toNat?.isSome) |>.map natTok) with
      | some (client, _) =>
        let nIp := match client with | .v4 .. => 5 | .v6 _ => 9
        let rest2 := rest.drop nIp
        match rest2 with
        | ua :: rest3 =>
          let ua : Option (Option Bytes) := if ua == "none" then some none else (hexB ua).map some
          let src : Option Source :=
            if kind == "sni" then some (.sni text)
            else if decoded == "bad" then some (.proxyBasic none text)
            else (hexB decoded).map (fun d => .proxyBasic (some d) text)
          match ua, src with
          | some ua, some src =>
            if ext == "1" then some (.ok (some (makeExtendedAuth src tls client ua)), rest3)
            else match makeAuth src with
              | some a => some (.ok (some a), rest3)
              | none => some (.makeAuthFailed, rest3)
          | _, _ => none
        | _ => none
      | none => none
    | _, _ => none
  | _ => none

def parseReqToks : List String → Option (Request × List String)
  | "cip" :: rest =>
    match parseIp (rest.map natTok) with
    | some (ip, port :: _) =>
      let nIp := match ip with | .v4 .. => 5 | .v6 _ => 9
      some (.connect (.ip ip) port, rest.drop (nIp + 1))
    | _ => none
  | "cdom" :: d :: p :: rest =>
    match hexB d with
    | some d => some (.connect (.domain d) (natTok p), rest)
    | none => none
  | "udp" :: rest =>
    match parseIp (rest.map natTok) with
    | some (ip, port :: _) =>
      let nIp := match ip with | .v4 .. => 5 | .v6 _ => 9
      some (.udpAssociate ⟨ip, port⟩, rest.drop (nIp + 1))
    | _ => none
  | _ => none

def fmtOutcome : Outcome → String
  | .tcp => "tcp"
  | .udp b => s!"udp {fmtIp b.ip} {b.port}"
  | .failure c => s!"failure {c}"
  | .error .io => "error io"
  | .error .protocol => "error protocol"
  | .error .auth => "error auth"

def c15 (toks : List String) : String :=
  match toks with
  | "dialogue" :: rest =>
    match parseAuthToks rest with
    | none => "bad-op"
    | some (ac, rest) =>
      match parseReqToks rest with
      | some (req, [srv]) =>
        match hexB srv with
        | none => "bad-op"
        | some server =>
          match ac with
          | .makeAuthFailed => "- | makeauth-failed"
          | .ok auth =>
            let r := connect auth req server
            s!"{toHex r.1} | {fmtOutcome r.2}"
      | _ => "bad-op"
  | "fwd" :: rest =>
    match parseAuthToks rest with
    | none => "bad-op"
    | some (ac, rest) =>
      match parseReqToks rest with
      | some (req, [srv]) =>
        match hexB srv with
        | none => "bad-op"
        | some server =>
          match ac with
          | .makeAuthFailed => s!"{toHex []} | other"     -- `make_auth` error is mapped to ConnectionError::Other; nothing was sent
          | .ok auth =>
            -- what the upstream received from the forwarder, and the tunnel error the dialogue's outcome becomes
            let r := connect auth req server
            let o := match mapOutcome r.2 with
              | .connected =>
                match afterDialogue server with
                | some [] => "connected -"
                | some d => s!"connected {toHex d}"
                | none => "connected ?"
              | .hostUnreachable => "hostunreachable"
              | .timeout => "timeout"
              | .refused => "refused"
              | .other => "other"
              | .io => "io"
              | .authentication => "authentication"
            s!"{toHex r.1} | {o}"
      | _ => "bad-op"
  | "udpwrap" :: rest =>
    match rest.reverse with
    | h :: numsRev =>
      match parseIp (numsRev.reverse.map natTok), hexB h with
      | some (ip, [port]), some data => toHex (udpWrap ⟨ip, port⟩ data)
      | _, _ => "bad-op"
    | _ => "bad-op"
  | ["udpunwrap", h] =>
    match hexB h with
    | none => "bad-op"
    | some pkt =>
      match udpUnwrap pkt with
      | .ok src data => s!"ok {fmtIp src.ip} {src.port} {toHex data}"
      | .protocol => "protocol"
      | .panic => "panic"
  | _ => "bad-op"

end TT.Driver
