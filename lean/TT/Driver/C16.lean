import TT.Model.Metrics
import TT.Driver.C07
import TT.Gen.MetricsDoc
namespace TT.Driver
open TT.Metrics

def parseTarget : String → Option Target
  | "T" => some .origin | "D" => some .dead | "H" => some .hang | "U" => some .udp | "I" => some .icmp | _ => none

def parseC16Op (nd : Nat) (s : String) : Option Op :=
  match s.splitOn "." with
  | ["so", "1"] => some (.sessOpen .h1)
  | ["so", "2"] => some (.sessOpen .h2)
  | ["so", "3"] => some (.sessOpen .h3)
  | ["sc", i] => do some (.sessClose (← i.toNat?))
  | ["to", i, k] => do some (.tunOpen (← i.toNat?) (← parseTarget k))
  | ["up", t, n] => do some (.up (← t.toNat?) (← n.toNat?))
  | ["dn", t, n] => do some (.down (← t.toNat?) (← n.toNat?))
  | ["tc", t, k] => do
    let t ← t.toNat?
    match k.toList with
    | [c] => some (.tunClose t c)
    | _ => none
  | ["uu", t, f, n] => do some (.udpUp (← t.toNat?) (c07Meta nd (← f.toNat?)) (max (← n.toNat?) 3))
  | ["ud", t, f, n] => do some (.udpDown (← t.toNat?) (c07Meta nd (← f.toNat?)) (max (← n.toNat?) 3))
  | ["ic", t, v, n] => do some (.icmpEcho (← t.toNat?) (v == "4") (← n.toNat?))
  | ["a", ms] => do some (.adv (← ms.toNat?))
  | _ => none

def fmtCells (c : Cells) : String :=
  s!"s{c.s1}/{c.s2}/{c.s3} t{c.tcp} u{c.udp} up{c.up1}/{c.up2}/{c.up3} dn{c.dn1}/{c.dn2}/{c.dn3}"

def c16Run (c : Cfg) (listener : Bool) (ops : List Op) : String := Id.run do
  let mut s : St := {}
  let mut outs : Array String := #[]
  for op in ops do
    s := step c s op
    outs := outs.push (fmtCells s.cells)
  if listener then
    outs := outs.push s!"listener:metrics=200 {fmtCells s.cells} health=200 other=400"
  return " | ".intercalate outs.toList

/-- the documented families, label values restricted to those the run produced -/
def c16Families (seen : List String) : String :=
  let rows := TT.Gen.docFamilies.map fun (name, typ, labels) =>
    let ls := labels.map fun (l, vals) => s!"{l}={",".intercalate (vals.filter (seen.contains ·))}"
    s!"{name}:{typ}:{";".intercalate ls}"
  " ".intercalate (rows.toArray.qsort (· < ·)).toList

def c16 (toks : List String) : String :=
  match toks with
  | ["run", e, i, u, k, l, ops] =>
    match kv "E=" e, kv "I=" i, kv "U=" u, kv "K=" k, kv "L=" l, kv "ops=" ops with
    | some e, some i, some u, some k, some l, some ops =>
      match e.toNat?, i.toNat?, u.toNat?, k.toList.mapM parseKind with
      | some e, some i, some u, some kinds =>
        let nd := kinds.length
        match (ops.splitOn ";").mapM (parseC16Op nd) with
        | some ops => c16Run { establish := e, tcpIdle := i, udp := { timeout := u, kinds := kinds } } (l == "1") ops
        | none => "bad-op"
      | _, _, _, _ => "bad-op"
    | _, _, _, _, _, _ => "bad-op"
  | ["families", seen] =>
    match kv "seen=" seen with
    | some v => c16Families (v.splitOn ",")
    | none => "bad-op"
  | ["paths"] => " ".intercalate TT.Gen.docPaths
  | _ => "bad-op"

end TT.Driver
