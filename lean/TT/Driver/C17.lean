import TT.Model.Fwd
import TT.Model.Util
import TT.Driver.C07
namespace TT.Driver
open TT.Fwd

def parseVer : String → Option Ver
  | "10" => some .h10 | "11" => some .h11 | "2" => some .h2 | "3" => some .h3 | _ => none

def hexList (s : String) : Option (List Bytes) :=
  if s == "-" then some [] else (s.splitOn ",").mapM TT.parseHex

def natList (s : String) : Option (List Nat) :=
  if s == "-" then some [] else (s.splitOn ",").mapM String.toNat?

def headerList (s : String) : Option (List (Bytes × Bytes)) :=
  if s == "-" then some [] else
  (s.splitOn ",").mapM fun h =>
    match h.splitOn ":" with
    | [n, v] => do some ((← TT.parseHex n), (← TT.parseHex v))
    | _ => none

def fmtHeaders (hs : List (Bytes × Bytes)) : String :=
  let rows := hs.map fun (n, v) => s!"{String.ofList (n.map Char.ofNat)}={if v.isEmpty then "" else TT.toHex v}"
  ";".intercalate (rows.toArray.qsort (· < ·)).toList

def c17Run (ver : Ver) (method target authority : Bytes) (headers : List (Bytes × Bytes)) (body origin : List Bytes)
    (close : Bool) (quotas : List Nat) : String :=
  let r : Request := { ver := ver, method := method, target := target, authority := authority, headers := headers }
  match forwardRequest r body with
  | none => "refused:refused answered=[400]"
  | some req =>
    -- flow-control credit: the serialised head is the endpoint's own; under any acceptance schedule the body source
    -- is credited what was accepted beyond it (`request_credit_exact`) - the one-shot schedule stands for all
    let headLen := match serializeRequest r with
      | .ok bytes _ => bytes.length
      | .refused => 0
    let s := feed (Sink.init ver method quotas) origin
    let s := if close then s.eof else s
    let c := s.client
    let head := match c.head with
      | none => if c.bad then "502/eof=1/" else ""
      | some (st, eof, hs) => s!"{st}/eof={if eof then 1 else 0}/{fmtHeaders hs}"
    let ceof := match c.eofs.head?, c.head with
      | some p, _ => s!"at{p}"
      | none, some (_, true, _) => "head"
      | none, _ => if c.bad then "head" else "none"
    s!"req={TT.toHex req} reqeof=1 interim=[{",".intercalate (c.interims.map toString)}] head=[{head}] body={TT.toHex c.body} ceof={ceof} rel={(creditAfter headLen [req.length]).released}"

def c17 (toks : List String) : String :=
  match toks with
  | ["run", v, m, _uri, t, a, h, body, origin, close, q, _oq] =>
    match kv "v=" v, kv "m=" m, kv "t=" t, kv "a=" a, kv "h=" h, kv "body=" body, kv "origin=" origin, kv "close=" close, kv "q=" q with
    | some v, some m, some t, some a, some h, some body, some origin, some close, some q =>
      match parseVer v, TT.parseHex t, TT.parseHex a, headerList h, hexList body, hexList origin, natList q with
      | some ver, some t, some a, some hs, some body, some origin, some q =>
        c17Run ver (str m) t a hs body origin (close == "1") q
      | _, _, _, _, _, _, _ => "bad-op"
    | _, _, _, _, _, _, _, _, _ => "bad-op"
  | _ => "bad-op"

end TT.Driver
