import TT.Model.Util
import TT.Model.Services
import TT.Driver.C10
namespace TT.Driver
open TT TT.Services

def utf8Chars (h : String) : Option (List Char) := charsOfHex h

def c18 (toks : List String) : String :=
  match toks with
  | ["select", proto, st, mask, method, path, ping, upg] =>
    let maskC : Option (Option (List Char)) := if mask == "-" then some none else (utf8Chars mask).map some
    match maskC, utf8Chars path with
    | some m, some p =>
      let pr := if proto == "1" then Proto.h1 else if proto == "2" then Proto.h2 else Proto.h3
      -- `Uri::path()` of an authority-form (CONNECT) target is empty; of an absolute URI without path it is "/"
      match select ⟨st == "1", m⟩ pr ⟨method, p, ping == "1", upg == "1", none⟩ with
      | .ping => "ping"
      | .speedtest => "speedtest"
      | .reverseProxy => "reverseproxy"
      | .tunnel => "tunnel"
    | _, _ => "bad-op"
  | ["speed", method, path, cl] =>
    let clC : Option (Option (List Char)) :=
      if cl == "-" then some none else if cl == "c" then some (some []) else (utf8Chars (cl.drop 1).toString).map some
    match utf8Chars path, clC with
    | some p, some c =>
      match prepareSpeedtest ⟨method, p, false, false, c⟩ with
      | .download n => s!"200 {n}"
      | .upload _ => "200 0"
      | .bad => "400 0"
    | _, _ => "bad-op"
  | _ => "bad-op"

end TT.Driver
