import TT.Model.Shutdown
namespace TT.Driver
open TT.Shutdown

def parseShutdownOp (s : String) : Option Op :=
  match s.toList with
  | ['R'] => some .register
  | ['S'] => some .submit
  | ['C'] => some .completionPoll
  | 'W' :: ds => (String.ofList ds).toNat?.map .waitPoll
  | 'F' :: ds => (String.ofList ds).toNat?.map .finish
  | _ => none

def fmtShutdownOut : Out → String
  | .registered i g => s!"reg{i}:{if g then 1 else 0}"
  | .ready => "ready"
  | .pending => "pending"
  | .none_ => "-"
  | .done => "done"

def c19 (toks : List String) : String :=
  match toks with
  | "run" :: ops =>
    match ops.mapM parseShutdownOp with
    | none => "bad-op"
    | some ops =>
      -- a poll of an index that was never registered answers `none` in the door, `-` here
      ",".intercalate ((run {} ops).2.map fmtShutdownOut)
  | _ => "bad-op"

end TT.Driver
