import TT.Model.Util
import TT.Model.Scrub
import TT.Driver.C13
namespace TT.Driver
open TT TT.Scrub

def parseHeaders : Nat → List String → Option (Headers × List String)
  | 0, t => some ([], t)
  | n+1, a :: b :: rest =>
    match charsOfHex a, charsOfHex b, parseHeaders n rest with
    | some na, some va, some (l, r) => some ((String.ofList na, String.ofList va) :: l, r)
    | _, _, _ => none
  | _, _ => none

def groupByName (hs : Headers) : List (String × List String) :=
  hs.foldl (fun acc h =>
    if acc.any (fun e => e.1 == h.1) then acc.map (fun e => if e.1 == h.1 then (e.1, e.2 ++ [h.2]) else e)
    else acc ++ [(h.1, [h.2])]) []

def insertSortedPair (p : String × List String) : List (String × List String) → List (String × List String)
  | [] => [p]
  | x :: xs => if p.1 ≤ x.1 then p :: x :: xs else x :: insertSortedPair p xs

def c20 (toks : List String) : String :=
  match toks with
  | "scrubreq" :: n :: rest =>
    match parseHeaders n.toNat! rest with
    | some (hs, []) =>
      let g := (groupByName (scrubHeaders hs)).foldr insertSortedPair []
      if g.isEmpty then "-" else ";".intercalate (g.map (fun e => s!"{e.1}={",".intercalate e.2}"))
    | _ => "bad-op"
  | ["loggable", m, l, h] =>
    match m.toNat?, l.toNat?, (if h == "-" then some [] else charsOfHex h) with
    | some m, some l, some t => if loggable m l t then "1" else "0"
    | _, _, _ => "bad-op"
  | ["written", _logger, m, l, h] =>
    -- both loggers of the endpoint write exactly what the filter lets through
    match m.toNat?, l.toNat?, (if h == "-" then some [] else charsOfHex h) with
    | some m, some l, some t => if loggable m l t then "1" else "0"
    | _, _, _ => "bad-op"
  | ["scrubsni", h] =>
    match charsOfHex h with
    | some s => hexOfChars (scrubSni s)
    | none => "bad-op"
  | _ => "bad-op"

end TT.Driver
