import TT.Model.ClientHello
/-! helper lemmas for C12 (ClientHello random extraction) -/
namespace TT.CH
open TT TT.Bytes

theorem len2 {l : Bytes} (h : l.length = 2) : ∃ a b, l = [a, b] := by
  match l, h with
  | [a, b], _ => exact ⟨a, b, rfl⟩

theorem parse_body_shape (version random sid suites comps extpart : Bytes)
    (hv : version.length = 2) (hr : random.length = 32) (hs : sid.length ≤ 32)
    (hc : suites.length % 2 = 0) (hc2 : suites.length < 65536) :
    parseClientHelloBody (version ++ random ++ [sid.length] ++ sid ++ u16be suites.length ++ suites
      ++ [comps.length] ++ comps ++ extpart) = some random := by
  obtain ⟨v0, v1, rfl⟩ := len2 hv
  have e1 : ([v0, v1] ++ random ++ [sid.length] ++ sid ++ u16be suites.length ++ suites
      ++ [comps.length] ++ comps ++ extpart) =
      v0 :: v1 :: (random ++ (sid.length :: (sid ++ ((suites.length / 256 % 256) :: (suites.length % 256) :: (suites ++ (comps.length :: (comps ++ extpart))))))) := by
    simp [u16be]
  rw [e1]
  unfold parseClientHelloBody
  have hlen : ¬ ((v0 :: v1 :: (random ++ (sid.length :: (sid ++ ((suites.length / 256 % 256) :: (suites.length % 256) :: (suites ++ (comps.length :: (comps ++ extpart)))))))).length < 2 + 32 + 1) := by
    simp; omega
  rw [if_neg hlen]
  have d34 : List.drop 34 (v0 :: v1 :: (random ++ (sid.length :: (sid ++ ((suites.length / 256 % 256) :: (suites.length % 256) :: (suites ++ (comps.length :: (comps ++ extpart)))))))) = (sid.length :: (sid ++ ((suites.length / 256 % 256) :: (suites.length % 256) :: (suites ++ (comps.length :: (comps ++ extpart)))))) := by
    show List.drop 32 (random ++ _) = _
    rw [← hr, List.drop_left]
  have d2 : List.take 32 (List.drop 2 (v0 :: v1 :: (random ++ (sid.length :: (sid ++ ((suites.length / 256 % 256) :: (suites.length % 256) :: (suites ++ (comps.length :: (comps ++ extpart))))))))) = random := by
    show List.take 32 (random ++ _) = _
    rw [← hr, List.take_left]
  simp only [d34, d2]
  have hround : suites.length / 256 % 256 * 256 + suites.length % 256 = suites.length := by omega
  simp [hround]
  omega


theorem extract_shape (a b : Nat) (body suffix r : Bytes)
    (hp : parseClientHelloBody body = some r) (hfit : 4 + body.length ≤ maxRecordLen) :
    extract (22 :: a :: b :: ((4 + body.length) / 256 % 256) :: ((4 + body.length) % 256) ::
      1 :: (body.length / 65536 % 256) :: (body.length / 256 % 256) :: (body.length % 256) ::
      (body ++ suffix)) = .found r := by
  unfold maxRecordLen at hfit
  have h2 : (body.length / 65536 % 256 * 256 + body.length / 256 % 256) * 256 + body.length % 256 = body.length := by omega
  have h1 : (4 + body.length) / 256 % 256 * 256 + (4 + body.length) % 256 = 4 + body.length := by
    clear h2; omega
  unfold extract
  simp only [h1]
  rw [if_neg (by unfold maxRecordLen; omega)]
  rw [if_neg (by simp; omega)]
  have ht : List.take (4 + body.length) (1 :: (body.length / 65536 % 256) :: (body.length / 256 % 256) :: (body.length % 256) ::
      (body ++ suffix)) = 1 :: (body.length / 65536 % 256) :: (body.length / 256 % 256) :: (body.length % 256) :: body := by
    rw [Nat.add_comm]
    simp [List.take_succ_cons]
  simp only [ht, h2]
  simp [hp]


theorem parse_some {b r : Bytes} (h : parseClientHelloBody b = some r) :
    r = (b.drop 2).take 32 ∧ 35 ≤ b.length := by
  unfold parseClientHelloBody at h
  split at h
  · cases h
  · rename_i hl
    refine ⟨?_, by omega⟩
    simp only at h
    split at h
    · cases h
    · split at h
      · cases h
      · split at h
        · cases h
        · split at h
          · split at h
            · cases h
            · split at h
              · split at h
                · cases h
                · cases h; rfl
              · cases h
          · cases h

theorem extract_prefix_shape (t a b l0 l1 : Nat) (rest : Bytes) (n : Nat)
    (hl : l0 * 256 + l1 = rest.length) (hfit : rest.length ≤ maxRecordLen) (hn : n < 5 + rest.length) :
    extract ((t :: a :: b :: l0 :: l1 :: rest).take n) = .needMore := by
  match n, hn with
  | 0, _ => rfl
  | 1, _ => rfl
  | 2, _ => rfl
  | 3, _ => rfl
  | 4, _ => rfl
  | k + 5, hn =>
    simp only [List.take_succ_cons]
    unfold extract
    simp only [hl]
    rw [if_neg (by omega), if_pos (by simp; omega)]

theorem found_is_the_field' (data r : Bytes) (h : extract data = .found r) :
    r = (data.drop 11).take 32 ∧ data.head? = some 22 ∧ data[5]? = some 1 ∧ 43 ≤ data.length := by
  unfold extract at h
  split at h
  · rename_i recType a b l0 l1 rest
    simp only at h
    split at h
    · cases h
    split at h
    · cases h
    split at h
    · cases h
    rename_i hlen hrest hty
    split at h
    · rename_i ht h0 h1 h2 body hpay
      split at h
      · cases h
      rename_i hbody
      split at h
      · rename_i ht1
        split at h
        · rename_i r' hp
          cases h
          obtain ⟨hr, h35⟩ := parse_some hp
          have ht1' : ht = 1 := by simpa using ht1
          have hty' : recType = 22 := by simpa using hty
          subst ht1' hty'
          obtain ⟨X, hX⟩ : ∃ X, rest = 1 :: h0 :: h1 :: h2 :: (body.take ((h0 * 256 + h1) * 256 + h2) ++ X) := by
            refine ⟨body.drop ((h0 * 256 + h1) * 256 + h2) ++ rest.drop (l0 * 256 + l1), ?_⟩
            rw [← List.append_assoc, List.take_append_drop]
            have := List.take_append_drop (l0 * 256 + l1) rest
            rw [hpay] at this
            exact this.symm
          generalize body.take ((h0 * 256 + h1) * 256 + h2) = B at hX hr h35
          subst hX hr
          refine ⟨?_, rfl, rfl, by simp; omega⟩
          show _ = List.take 32 (List.drop 2 (B ++ X))
          rw [List.drop_append_of_le_length (by omega), List.take_append_of_le_length (by simp; omega)]
        · cases h
      · cases h
    · cases h
  · cases h


theorem loop_conserves' (avail : List Nat) (pre stream : Bytes) :
    (readLoop avail pre stream).2.1 ++ (readLoop avail pre stream).2.2 = pre ++ stream := by
  induction avail generalizing pre stream with
  | nil => rfl
  | cons a avail ih =>
    unfold readLoop
    split
    · rfl
    split
    · rfl
    · rfl
    · simp only
      split
      · rfl
      · rw [ih]; simp

theorem loop_absent' (avail : List Nat) (pre stream r : Bytes)
    (h : (readLoop avail pre stream).1 = some r) :
    r = ((pre ++ stream).drop 11).take 32 := by
  induction avail generalizing pre stream with
  | nil => simp [readLoop] at h
  | cons a avail ih =>
    unfold readLoop at h
    split at h
    · simp at h
    split at h
    · rename_i r' hex
      simp only [Option.some.injEq] at h
      subst h
      obtain ⟨hr, _, _, hlen⟩ := found_is_the_field' _ _ hex
      rw [hr, List.drop_append_of_le_length (by omega), List.take_append_of_le_length (by simp; omega)]
    · simp at h
    · simp only at h
      split at h
      · simp at h
      · have := ih _ _ h
        simpa using this

theorem loop_seg' (record random : Bytes)
    (hpre : ∀ n, n < record.length → extract (record.take n) = .needMore)
    (hex : ∀ suffix, extract (record ++ suffix) = .found random)
    (hfit : record.length + readChunk ≤ maxPrebuffer)
    (suffix : Bytes) (avail : List Nat) (pre stream : Bytes)
    (hcat : pre ++ stream = record ++ suffix)
    (hcap : pre.length < maxPrebuffer)
    (hlen : avail.length > record.length - pre.length) :
    (readLoop avail pre stream).1 = some random := by
  induction avail generalizing pre stream with
  | nil => simp at hlen
  | cons a avail ih =>
    have hlens : pre.length + stream.length = record.length + suffix.length := by
      have := congrArg List.length hcat
      simpa using this
    have hpe : pre = (record ++ suffix).take pre.length := by
      rw [← hcat]; simp
    unfold readLoop
    rw [if_neg (by simpa using hcap)]
    by_cases hlt : pre.length < record.length
    · have hnm : extract pre = .needMore := by
        rw [hpe, List.take_append_of_le_length (by omega)]
        exact hpre _ hlt
      rw [hnm]
      simp only
      unfold readChunk maxPrebuffer at *
      have hn : ¬ (min (min (max a 1) (min 1024 (16384 - pre.length))) stream.length == 0) = true := by
        simp only [beq_iff_eq]; omega
      rw [if_neg hn]
      apply ih
      · simp [hcat]
      · simp; omega
      · simp only [List.length_cons, List.length_append, List.length_take] at hlen ⊢; omega
    · have hf : extract pre = .found random := by
        rw [hpe, List.take_append, List.take_of_length_le (by omega)]
        exact hex _
      rw [hf]


theorem replay_transparent' (caps : List Nat) (pre rest : Bytes) (pos : Nat) (hp : pos ≤ pre.length) :
    ∃ k, (replayReads caps pre pos rest).flatten = ((pre.drop pos) ++ rest).take k := by
  induction caps generalizing pos rest with
  | nil => exact ⟨0, by simp [replayReads]⟩
  | cons cap caps ih =>
    unfold replayReads
    split
    · rename_i hlt
      simp only
      obtain ⟨k, hk⟩ := ih rest (pos + min (pre.length - pos) cap) (by omega)
      refine ⟨min (pre.length - pos) cap + k, ?_⟩
      rw [List.flatten_cons, hk, List.take_add]
      have e1 : List.take (min (pre.length - pos) cap) (List.drop pos pre ++ rest) =
          List.take (min (pre.length - pos) cap) (List.drop pos pre) :=
        List.take_append_of_le_length (by simp; omega)
      have e2 : List.drop (min (pre.length - pos) cap) (List.drop pos pre ++ rest) =
          List.drop (pos + min (pre.length - pos) cap) pre ++ rest := by
        rw [List.drop_append_of_le_length (by simp; omega), List.drop_drop]
      rw [e1, e2]
    · rename_i hge
      have hpos : pos = pre.length := by omega
      obtain ⟨k, hk⟩ := ih (rest.drop cap) pos hp
      refine ⟨cap + k, ?_⟩
      rw [List.flatten_cons, hk, hpos]
      simp [List.take_add]

theorem replay_complete' (caps : List Nat) (pre rest : Bytes) (pos : Nat) (hc : ∀ c ∈ caps, 0 < c)
    (hp : pos ≤ pre.length)
    (hl : caps.length ≥ (pre.length - pos) + rest.length) :
    (replayReads caps pre pos rest).flatten = pre.drop pos ++ rest := by
  induction caps generalizing pos rest with
  | nil =>
    simp only [List.length_nil] at hl
    have h1 : rest = [] := List.eq_nil_of_length_eq_zero (by omega)
    have h2 : pre.drop pos = [] := List.drop_eq_nil_of_le (by omega)
    simp [replayReads, h1, h2]
  | cons cap caps ih =>
    have hcap : 0 < cap := hc cap (by simp)
    have hc' : ∀ c ∈ caps, 0 < c := fun c hcm => hc c (by simp [hcm])
    simp only [List.length_cons] at hl
    unfold replayReads
    split
    · rename_i hlt
      simp only
      rw [List.flatten_cons, ih rest (pos + min (pre.length - pos) cap) hc' (by omega) (by omega)]
      rw [← List.append_assoc, ← List.drop_drop, List.take_append_drop]
    · rename_i hge
      rw [List.flatten_cons, ih (rest.drop cap) pos hc' hp (by simp; omega)]
      have h2 : pre.drop pos = [] := List.drop_eq_nil_of_le (by omega)
      simp [h2]

theorem parse_chBody (version random sid suites comps exts : Bytes)
    (hv : version.length = 2) (hr : random.length = 32) (hs : sid.length ≤ 32)
    (hc : suites.length % 2 = 0) (hc2 : suites.length < 65536) :
    parseClientHelloBody (chBody version random sid suites comps exts) = some random := by
  unfold chBody
  exact parse_body_shape version random sid suites comps _ hv hr hs hc hc2

theorem chRecord_shape (a b : Nat) (version random sid suites comps exts : Bytes) :
    chRecord [a, b] version random sid suites comps exts =
      22 :: a :: b ::
        ((4 + (chBody version random sid suites comps exts).length) / 256 % 256) ::
        ((4 + (chBody version random sid suites comps exts).length) % 256) ::
        1 :: ((chBody version random sid suites comps exts).length / 65536 % 256) ::
        ((chBody version random sid suites comps exts).length / 256 % 256) ::
        ((chBody version random sid suites comps exts).length % 256) ::
        chBody version random sid suites comps exts := by
  simp [chRecord, u16be, u24be]

end TT.CH
