import TT.Model.ClientHello
namespace TT.CH
end TT.CH
