import TT.Model.Creds
/-!
Helper lemmas for C13 (credentials / settings): base64 digits, hex digits, TOML string lexemes.
-/
namespace TT.Creds
open TT

/-! ### base64 digits -/

/-- decoder of a single base64 digit (total; only its values on digits matter) -/
def b64Val (c : Char) : Nat :=
  let n := c.toNat
  if 65 ≤ n ∧ n < 91 then n - 65
  else if 97 ≤ n ∧ n < 123 then n - 71
  else if 48 ≤ n ∧ n < 58 then n + 4
  else if n = 43 then 62 else 63

theorem b64Val_b64Char : ∀ i, i < 64 → b64Val (b64Char i) = i := by decide +kernel

theorem b64Char_ne_pad : ∀ i, i < 64 → b64Char i ≠ '=' := by decide +kernel

theorem b64Char_inj {i j : Nat} (hi : i < 64) (hj : j < 64) (h : b64Char i = b64Char j) : i = j := by
  have := congrArg b64Val h
  rwa [b64Val_b64Char i hi, b64Val_b64Char j hj] at this

theorem utf8_lt (s : List Char) : ∀ x ∈ utf8 s, x < 256 := by
  intro x hx
  simp [utf8] at hx
  obtain ⟨c, _, b, _, rfl⟩ := hx
  exact UInt8.toNat_lt b

/-! ### hex digits -/

theorem hexVal_hexDigit : ∀ d, d < 16 → hexVal (hexDigit d) = some d := by decide +kernel

theorem hexDigits_hex4 (n : Nat) (hn : n < 65536) (rest : List Char) :
    hexDigits 4 (hex4 n ++ rest) = some (n, rest) := by
  simp only [hex4, List.cons_append, List.nil_append, hexDigits]
  rw [hexVal_hexDigit _ (Nat.mod_lt _ (by decide)), hexVal_hexDigit _ (Nat.mod_lt _ (by decide)),
    hexVal_hexDigit _ (Nat.mod_lt _ (by decide)), hexVal_hexDigit _ (Nat.mod_lt _ (by decide))]
  simp only [Option.some.injEq, Prod.mk.injEq, and_true]
  omega

theorem isCtl_lt {c : Char} (h : isCtl c = true) : c.toNat < 128 := by
  simp [isCtl] at h
  omega

/-! ### escaping -/

theorem escapeChar_head (c : Char) : ∃ d r, escapeChar c = d :: r ∧ d ≠ '"' := by
  unfold escapeChar
  split
  · exact ⟨_, _, rfl, by decide⟩
  · split
    · exact ⟨_, _, rfl, by decide⟩
    · split
      · exact ⟨_, _, rfl, by decide⟩
      · rename_i h _ _
        exact ⟨_, _, rfl, by simpa using h⟩

theorem length_le_flatMap_escape (s : List Char) : s.length ≤ (s.flatMap escapeChar).length := by
  induction s with
  | nil => simp
  | cons c s ih =>
    obtain ⟨d, r, h, _⟩ := escapeChar_head c
    simp only [List.flatMap_cons, List.length_append, List.length_cons, h]
    omega

/-- the basic-string body decoder inverts the canonical escaper, for any sufficient fuel -/
theorem decodeBasic_escape (s : List Char) : ∀ (tail : List Char) (fuel : Nat), s.length < fuel →
    decodeBasic fuel (s.flatMap escapeChar ++ '"' :: tail) = some (s, tail) := by
  induction s with
  | nil =>
    intro tail fuel h
    cases fuel with
    | zero => omega
    | succ f => simp [decodeBasic]
  | cons c s ih =>
    intro tail fuel h
    cases fuel with
    | zero => omega
    | succ f =>
      have hf : s.length < f := by simp at h; omega
      have ih' := ih tail f hf
      simp only [List.flatMap_cons, List.append_assoc]
      by_cases h1 : c = '"'
      · subst h1
        rw [show escapeChar '"' = ['\\', '"'] from by decide]
        simp [decodeBasic, ih']
      by_cases h2 : c = '\\'
      · subst h2
        rw [show escapeChar '\\' = ['\\', '\\'] from by decide]
        simp [decodeBasic, ih']
      by_cases h3 : isCtl c = true
      · have hlt := isCtl_lt h3
        rw [show escapeChar c = '\\' :: 'u' :: hex4 c.toNat from by simp [escapeChar, h1, h2, h3]]
        simp only [List.cons_append]
        rw [decodeBasic]
        simp only [show ('\\' == '"') = false from by decide, show ('\\' == '\\') = true from by decide,
              show ('u' == 'b') = false from by decide]
        simp [hexDigits_hex4 c.toNat (by omega), ih', isScalar]
        omega
      · rw [show escapeChar c = [c] from by simp [escapeChar, h1, h2, h3]]
        simp [decodeBasic, h1, h2, h3, ih']

/-- plain characters are decoded verbatim by the basic-string body decoder -/
theorem decodeBasic_plain (s : List Char) (h : ∀ c ∈ s, c ≠ '"' ∧ c ≠ '\\' ∧ isCtl c = false) :
    ∀ (tail : List Char) (fuel : Nat), s.length < fuel →
    decodeBasic fuel (s ++ '"' :: tail) = some (s, tail) := by
  induction s with
  | nil =>
    intro tail fuel hf
    cases fuel with
    | zero => omega
    | succ f => simp [decodeBasic]
  | cons c s ih =>
    intro tail fuel hf
    cases fuel with
    | zero => omega
    | succ f =>
      have hc := h c (by simp)
      have ih' := ih (fun d hd => h d (by simp [hd])) tail f (by simp at hf; omega)
      simp [decodeBasic, hc.1, hc.2.1, hc.2.2, ih']

theorem decodeLiteral_plain (s : List Char) (h : ∀ c ∈ s, c ≠ '\'' ∧ isCtl c = false)
    (tail : List Char) : decodeLiteral (s ++ '\'' :: tail) = some (s, tail) := by
  induction s with
  | nil => simp [decodeLiteral]
  | cons c s ih =>
    have hc := h c (by simp)
    have ih' := ih (fun d hd => h d (by simp [hd]))
    simp [decodeLiteral, hc.1, hc.2, ih']

/-! ### lexemes -/

theorem decodeLexeme_basic (c : Char) (rest : List Char) (h : c ≠ '"') :
    decodeLexeme ('"' :: c :: rest) =
      match decodeBasic ((c :: rest).length + 1) (c :: rest) with
      | some (s, []) => .str s
      | _ => .invalid := by
  unfold decodeLexeme
  split <;> first | (simp_all; done) | (simp_all; rfl)

theorem decodeLexeme_literal (c : Char) (rest : List Char) (h : c ≠ '\'') :
    decodeLexeme ('\'' :: c :: rest) =
      match decodeLiteral (c :: rest) with
      | some (s, []) => .str s
      | _ => .invalid := by
  unfold decodeLexeme
  split <;> first | (simp_all; done) | (simp_all; rfl)

end TT.Creds
