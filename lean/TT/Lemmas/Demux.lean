import TT.Model.Demux
namespace TT.Demux

/-! ### `maxProto` -/

theorem maxProto_eq_none {l : List Proto} : maxProto l = none ↔ l = [] := by
  cases l with
  | nil => simp [maxProto]
  | cons p rest =>
    simp only [maxProto]
    split
    · simp
    · split <;> simp

theorem maxProto_isSome {l : List Proto} (h : l ≠ []) : (maxProto l).isSome = true := by
  cases hm : maxProto l with
  | none => exact absurd (maxProto_eq_none.1 hm) h
  | some _ => rfl

theorem maxProto_some : ∀ {l : List Proto} {p : Proto}, maxProto l = some p →
    p ∈ l ∧ ∀ q ∈ l, q.rank ≤ p.rank
  | [], p, h => by simp [maxProto] at h
  | x :: rest, p, h => by
    simp only [maxProto] at h
    split at h
    · next hn =>
      have hr : rest = [] := maxProto_eq_none.1 hn
      subst hr
      simp only [Option.some.injEq] at h
      subst h
      simp
    · next q hq =>
      have ⟨hm, hmax⟩ := maxProto_some hq
      split at h
      · next hle =>
        simp only [Option.some.injEq] at h
        subst h
        refine ⟨by simp, ?_⟩
        intro r hr
        simp only [List.mem_cons] at hr
        rcases hr with rfl | hr
        · exact Nat.le_refl _
        · have := hmax r hr; omega
      · next hle =>
        simp only [Option.some.injEq] at h
        subst h
        refine ⟨by simp [hm], ?_⟩
        intro r hr
        simp only [List.mem_cons] at hr
        rcases hr with rfl | hr
        · omega
        · exact hmax r hr

/-! ### protocol selection per channel -/

/-- the protocols a channel permits (same as `permits` of the property file) -/
def permitsL : Channel → Proto → Bool
  | .reverseProxy, .h2 => false
  | _, _ => true

/-- the protocol selection function used for a host of class `ch` -/
def protoFor (ch : Channel) (enabled parsed : List Proto) (oe : Bool) : Option Proto :=
  match ch with
  | .reverseProxy => selectProtoRproxy enabled parsed oe
  | _ => selectProto enabled parsed oe

/-- the offered protocols that are enabled and permitted on `ch` -/
def candidates (ch : Channel) (enabled parsed : List Proto) : List Proto :=
  parsed.filter (fun x => permitsL ch x && enabled.contains x)

theorem mem_candidates {ch : Channel} {enabled parsed : List Proto} {q : Proto} :
    q ∈ candidates ch enabled parsed ↔ q ∈ parsed ∧ permitsL ch q = true ∧ q ∈ enabled := by
  simp [candidates, List.mem_filter]

theorem rproxy_filter_eq (enabled parsed : List Proto) :
    (parsed.filter (fun x => x == .h1 || x == .h3)).filter (fun x => enabled.contains x) =
      candidates .reverseProxy enabled parsed := by
  rw [List.filter_filter, candidates]
  congr 1
  funext x
  cases x <;> simp [permitsL, Bool.and_comm]

theorem plain_filter_eq (ch : Channel) (hch : ch ≠ .reverseProxy) (enabled parsed : List Proto) :
    parsed.filter (fun x => enabled.contains x) = candidates ch enabled parsed := by
  rw [candidates]
  congr 1
  funext x
  cases ch <;> simp_all [permitsL]

theorem protoFor_eq (ch : Channel) (enabled parsed : List Proto) (oe : Bool) :
    protoFor ch enabled parsed oe =
      match maxProto (candidates ch enabled parsed) with
      | some x => some x
      | none => if enabled.contains .h1 && oe then some .h1 else none := by
  cases ch
  case reverseProxy => simp only [protoFor, selectProtoRproxy, rproxy_filter_eq]; rfl
  case tunnel => simp only [protoFor, selectProto, plain_filter_eq .tunnel (by decide)]; rfl
  case ping => simp only [protoFor, selectProto, plain_filter_eq .ping (by decide)]; rfl
  case speedtest => simp only [protoFor, selectProto, plain_filter_eq .speedtest (by decide)]; rfl

/-- what a selected protocol satisfies -/
theorem protoFor_some {ch : Channel} {enabled parsed : List Proto} {oe : Bool} {p : Proto}
    (h : protoFor ch enabled parsed oe = some p) :
    (p ∈ parsed ∧ p ∈ enabled ∧ permitsL ch p = true ∧
        ∀ q, q ∈ parsed → q ∈ enabled → permitsL ch q = true → q.rank ≤ p.rank) ∨
      (candidates ch enabled parsed = [] ∧ oe = true ∧ .h1 ∈ enabled ∧ p = .h1) := by
  rw [protoFor_eq] at h
  split at h
  · next x hx =>
    simp only [Option.some.injEq] at h
    subst h
    have ⟨hm, hmax⟩ := maxProto_some hx
    rw [mem_candidates] at hm
    refine Or.inl ⟨hm.1, hm.2.2, hm.2.1, ?_⟩
    intro q hq he hp
    exact hmax q (mem_candidates.2 ⟨hq, hp, he⟩)
  · next hn =>
    split at h
    · next hc =>
      simp only [Option.some.injEq] at h
      simp only [Bool.and_eq_true, List.contains_iff_mem] at hc
      exact Or.inr ⟨maxProto_eq_none.1 hn, hc.2, hc.1, h.symm⟩
    · cases h

theorem protoFor_isSome {ch : Channel} {enabled parsed : List Proto} {oe : Bool} {q : Proto}
    (hq : q ∈ parsed) (he : q ∈ enabled) (hp : permitsL ch q = true) :
    (protoFor ch enabled parsed oe).isSome = true := by
  rw [protoFor_eq]
  have hne : candidates ch enabled parsed ≠ [] := by
    intro h0
    have : q ∈ candidates ch enabled parsed := mem_candidates.2 ⟨hq, hp, he⟩
    rw [h0] at this
    cases this
  have := maxProto_isSome hne
  split
  · rfl
  · next hn => rw [hn] at this; cases this

/-! ### the structure of `select` -/

/-- same as `designated` of the property file -/
def designatedL (cfg : Cfg) (sni : String) : Option (Channel × String × Option String) :=
  if cfg.main.contains sni then some (.tunnel, sni, none)
  else if cfg.rproxy.contains sni then some (.reverseProxy, sni, none)
  else if cfg.ping.contains sni then some (.ping, sni, none)
  else if cfg.speed.contains sni then some (.speedtest, sni, none)
  else match cfg.alt.find? (fun e => e.1 == sni && cfg.main.contains e.2) with
    | some e => some (.tunnel, e.2, none)
    | none =>
      match splitOnceDot sni.toList with
      | some (a, b) => if cfg.main.contains (String.ofList b) then some (.tunnel, String.ofList b, some (String.ofList a)) else none
      | none => none

/-- an offer consisting of unknown identifiers only -/
def unknownOnly (alpn : List Alpn) : Bool := (alpn.filterMap id).isEmpty && !alpn.isEmpty

theorem select_eq (cfg : Cfg) (alpn : List Alpn) (sni : String) :
    select cfg alpn sni =
      if unknownOnly alpn then none else
        (designatedL cfg sni).bind fun d =>
          (protoFor d.1 cfg.enabled (alpn.filterMap id) alpn.isEmpty).map fun p =>
            ⟨sni, p, d.1, (d.1, d.2.1), d.2.2⟩ := by
  unfold select designatedL unknownOnly
  simp only []
  by_cases h0 : ((alpn.filterMap id).isEmpty && !alpn.isEmpty) = true
  · rw [if_pos h0, if_pos h0]
  rw [if_neg h0, if_neg h0]
  by_cases h1 : cfg.main.contains sni = true
  · rw [if_pos h1, if_pos h1]; rfl
  rw [if_neg h1, if_neg h1]
  by_cases h2 : cfg.rproxy.contains sni = true
  · rw [if_pos h2, if_pos h2]; rfl
  rw [if_neg h2, if_neg h2]
  by_cases h3 : cfg.ping.contains sni = true
  · rw [if_pos h3, if_pos h3]; rfl
  rw [if_neg h3, if_neg h3]
  by_cases h4 : cfg.speed.contains sni = true
  · rw [if_pos h4, if_pos h4]; rfl
  rw [if_neg h4, if_neg h4]
  cases cfg.alt.find? (fun e => e.1 == sni && cfg.main.contains e.2) with
  | some e => rfl
  | none =>
    simp only []
    cases splitOnceDot sni.toList with
    | none => rfl
    | some ab =>
      obtain ⟨a, b⟩ := ab
      simp only []
      by_cases h5 : cfg.main.contains (String.ofList b) = true
      · rw [if_pos h5, if_pos h5]; rfl
      · rw [if_neg h5, if_neg h5]; rfl

theorem mem_parsed {alpn : List Alpn} {q : Proto} : q ∈ alpn.filterMap id ↔ some q ∈ alpn := by
  simp [List.mem_filterMap]

theorem unknownOnly_false_of_mem {alpn : List Alpn} {q : Proto} (h : some q ∈ alpn) :
    unknownOnly alpn = false := by
  have : alpn.filterMap id ≠ [] := by
    intro h0
    have := mem_parsed.2 h
    rw [h0] at this
    cases this
  simp [unknownOnly, this]

theorem select_some {cfg : Cfg} {alpn : List Alpn} {sni : String} {m : Meta}
    (h : select cfg alpn sni = some m) :
    unknownOnly alpn = false ∧ ∃ ch name creds p, designatedL cfg sni = some (ch, name, creds) ∧
      protoFor ch cfg.enabled (alpn.filterMap id) alpn.isEmpty = some p ∧
      m = ⟨sni, p, ch, (ch, name), creds⟩ := by
  rw [select_eq] at h
  split at h
  · cases h
  · next hu =>
    refine ⟨by simpa using hu, ?_⟩
    rw [Option.bind_eq_some_iff] at h
    obtain ⟨⟨ch, name, creds⟩, hd, hp⟩ := h
    rw [Option.map_eq_some_iff] at hp
    obtain ⟨p, hp, hm⟩ := hp
    exact ⟨ch, name, creds, p, hd, hp, hm.symm⟩

/-! ### unique names -/

theorem namesUnique_append_left : ∀ {l1 l2 : List String}, namesUnique (l1 ++ l2) = true →
    namesUnique l1 = true
  | [], _, _ => rfl
  | x :: l1, l2, h => by
    simp only [List.cons_append, namesUnique, Bool.and_eq_true, Bool.not_eq_true',
      List.contains_eq_mem, List.mem_append, decide_eq_false_iff_not] at h ⊢
    exact ⟨fun hx => h.1 (Or.inl hx), namesUnique_append_left h.2⟩

theorem namesUnique_append_right : ∀ {l1 l2 : List String}, namesUnique (l1 ++ l2) = true →
    namesUnique l2 = true
  | [], _, h => h
  | x :: l1, l2, h => by
    simp only [List.cons_append, namesUnique, Bool.and_eq_true] at h
    exact namesUnique_append_right h.2

theorem namesUnique_disjoint : ∀ {l1 l2 : List String} {x : String}, namesUnique (l1 ++ l2) = true →
    x ∈ l1 → x ∉ l2
  | [], _, _, _, hx => by cases hx
  | y :: l1, l2, x, h, hx => by
    simp only [List.cons_append, namesUnique, Bool.and_eq_true, Bool.not_eq_true',
      List.contains_eq_mem, List.mem_append, decide_eq_false_iff_not] at h
    simp only [List.mem_cons] at hx
    rcases hx with rfl | hx
    · exact fun h2 => h.1 (Or.inr h2)
    · exact namesUnique_disjoint h.2 hx

/-! ### unknown ALPN identifiers -/

theorem filterMap_id_filter_isSome : ∀ (alpn : List Alpn),
    (alpn.filter Option.isSome).filterMap id = alpn.filterMap id
  | [] => rfl
  | none :: rest => by
    simp only [List.filter_cons, Option.isSome_none, Bool.false_eq_true, if_false,
      List.filterMap_cons, id]
    exact filterMap_id_filter_isSome rest
  | some x :: rest => by
    simp only [List.filter_cons, Option.isSome_some, if_true, List.filterMap_cons, id]
    rw [filterMap_id_filter_isSome rest]

theorem filterMap_id_eq_nil : ∀ {alpn : List Alpn}, (∀ a ∈ alpn, a = none) → alpn.filterMap id = []
  | [], _ => rfl
  | a :: rest, h => by
    have ha : a = none := h a (by simp)
    subst ha
    simp only [List.filterMap_cons, id]
    exact filterMap_id_eq_nil (fun b hb => h b (by simp [hb]))

/-! ### histories -/

theorem run_length_reload (enabled : List Proto) (rp : Bool) (cur : Cfg) (h : HostsSettings) (rest : List Ev) :
    run enabled rp cur (.reload h :: rest) = run enabled rp (reload enabled rp cur h).1 rest := rfl

theorem run_select (enabled : List Proto) (rp : Bool) (cur : Cfg) (a : List Alpn) (s : String) (rest : List Ev) :
    run enabled rp cur (.select a s :: rest) = select cur a s :: run enabled rp cur rest := rfl

end TT.Demux
