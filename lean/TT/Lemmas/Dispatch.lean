import TT.Model.Dispatch
/-! helper lemmas for C01 / C10 (dispatch model) -/
namespace TT.Dispatch
open TT TT.Gen

@[simp] theorem isFinal_failWith (e : ConnErr) : isFinal (failWith e) = true := rfl
@[simp] theorem isFinal_ok200 : isFinal ok200 = true := rfl
@[simp] theorem isFinal_response (x : Response) : isFinal (.response x) = true := rfl
@[simp] theorem isFinal_egress (x : Egress) : isFinal (.egress x) = false := rfl

theorem failWith_ne_egress (e : ConnErr) (x : Egress) : failWith e ≠ .egress x := by
  simp [failWith]

theorem ok200_ne_egress (x : Egress) : ok200 ≠ .egress x := by
  simp [ok200]

/-- the reserved names are pairwise different -/
theorem reserved_distinct :
    health_check_authority ≠ udp_authority ∧ health_check_authority ≠ icmp_authority ∧
    udp_authority ≠ icmp_authority := by decide

/-- `promote` on a reserved authority never yields `.tcp`: the method alone decides -/
theorem promote_reserved (r : Req) (a : String) (ha : r.authority = some a)
    (hr : a = health_check_authority ∨ a = udp_authority ∨ a = icmp_authority) :
    (r.method = .connect ∧ (promote r = .health ∨ ∃ i, promote r = .mux i)) ∨
    (r.method ≠ .connect ∧ promote r = .badMethod) := by
  obtain ⟨h1, h2, h3⟩ := reserved_distinct
  by_cases hm : r.method = .connect
  · left
    refine ⟨hm, ?_⟩
    rcases hr with rfl | rfl | rfl
    · left; simp [promote, ha, hm]
    · right; exact ⟨false, by simp [promote, ha, hm, h1.symm]⟩
    · right; exact ⟨true, by simp [promote, ha, hm, h2.symm, h3.symm]⟩
  · right
    refine ⟨hm, ?_⟩
    rcases hr with rfl | rfl | rfl
    · simp [promote, ha, hm]
    · simp [promote, ha, hm, h1.symm]
    · simp [promote, ha, hm, h2.symm, h3.symm]

/-- every response the model can emit through `failWith` is a documented one -/
theorem failWith_documented (e : ConnErr) :
    failWith e = .response ⟨407, [.challenge]⟩ ∨ failWith e = .response ⟨502, [.warn 300]⟩ ∨
    failWith e = .response ⟨502, [.warn 301]⟩ ∨ failWith e = .response ⟨502, [.warn 302]⟩ ∨
    failWith e = .response ⟨502, [.dnshost, .warn 310]⟩ ∨
    failWith e = .response ⟨502, [.dnshost, .warn 311]⟩ := by
  cases e <;> simp [failWith, statusOf, warnOf]

end TT.Dispatch
