import TT.Model.Fwd
namespace TT.Fwd

end TT.Fwd
