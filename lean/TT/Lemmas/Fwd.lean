import TT.Model.Fwd
namespace TT.Fwd
open TT

/-! ## prefix stability of the two byte-level parsers -/

theorem headEnd_cons (c : Nat) (r : Bytes) :
    headEnd (c :: r) = if c = 13 ∧ r.take 3 = [10, 13, 10] then some 4 else (headEnd r).map (· + 1) := by
  split
  · rename_i h
    obtain ⟨rfl, h⟩ := h
    match r, h with
    | a :: b :: d :: r', h =>
      simp at h; obtain ⟨rfl, rfl, rfl⟩ := h; simp [headEnd]
  · rename_i h
    rw [headEnd.eq_2]
    intro tail h1 h2; apply h; subst h1 h2; simp

theorem headEnd_le : ∀ (a : Bytes) (p : Nat), headEnd a = some p → p ≤ a.length ∧ 4 ≤ p := by
  intro a
  induction a with
  | nil => intro p h; simp [headEnd] at h
  | cons c r ih =>
    intro p h
    rw [headEnd_cons] at h
    split at h
    · rename_i hc
      simp at h; subst h
      have : (r.take 3).length = 3 := by rw [hc.2]; rfl
      simp at this ⊢; omega
    · simp only [Option.map_eq_some_iff] at h
      obtain ⟨q, hq, rfl⟩ := h
      have := ih q hq
      simp; omega

theorem take3_append (r b : Bytes) (h : 3 ≤ r.length) : (r ++ b).take 3 = r.take 3 := by
  rw [List.take_append_of_le_length h]

theorem headEnd_append_some : ∀ (a b : Bytes) (p : Nat), headEnd a = some p → headEnd (a ++ b) = some p := by
  intro a
  induction a with
  | nil => intro b p h; simp [headEnd] at h
  | cons c r ih =>
    intro b p h
    rw [headEnd_cons] at h
    rw [List.cons_append, headEnd_cons]
    split at h
    · rename_i hc
      have : (r.take 3).length = 3 := by rw [hc.2]; rfl
      rw [take3_append _ _ (by simp at this; omega)]
      simp [hc, h]
    · rename_i hc
      simp only [Option.map_eq_some_iff] at h
      obtain ⟨q, hq, rfl⟩ := h
      have hl := headEnd_le r q hq
      rw [take3_append _ _ (by omega), if_neg hc, ih b q hq]; rfl

/-- a head that completes only with the new bytes ends inside them -/
theorem headEnd_gt : ∀ (a b : Bytes) (p : Nat), headEnd a = none → headEnd (a ++ b) = some p → a.length < p := by
  intro a
  induction a with
  | nil => intro b p _ h; have := headEnd_le _ _ h; simp; omega
  | cons c r ih =>
    intro b p h h'
    rw [headEnd_cons] at h
    rw [List.cons_append, headEnd_cons] at h'
    split at h
    · simp at h
    · rename_i hc
      simp at h
      split at h'
      · simp at h'; subst h'
        rename_i hc'
        by_cases hl : 3 ≤ r.length
        · rw [take3_append _ _ hl] at hc'; exact absurd hc' hc
        · simp; omega
      · simp only [Option.map_eq_some_iff] at h'
        obtain ⟨q, hq, rfl⟩ := h'
        have := ih b q h hq
        simp; omega

theorem chunkLineRest_cons_ne (size pos : Nat) (e : Bool) (c : Nat) (r : Bytes) (hc : ¬ (c == 13) = true) :
    chunkLineRest size pos e (c :: r) =
      if e then chunkLineRest size (pos + 1) true r
      else if c == 59 then chunkLineRest size (pos + 1) true r else .invalid := by
  rw [chunkLineRest.eq_def]; simp [hc]

theorem chunkLineRest_append (size : Nat) : ∀ (pos : Nat) (e : Bool) (a b : Bytes),
    chunkLineRest size pos e a ≠ .incomplete →
    chunkLineRest size pos e (a ++ b) = chunkLineRest size pos e a := by
  intro pos e a
  fun_induction chunkLineRest size pos e a with
  | case1 => intro b h; simp at h
  | case2 pos e c hc => intro b h; simp at h
  | case3 pos e c hc d tail hd => intro b h; simp [chunkLineRest, hc, hd]
  | case4 pos e c hc d tail hd => intro b h; simp [chunkLineRest, hc, hd]
  | case5 pos c r hc ih => intro b h; simp only [List.cons_append]; rw [chunkLineRest_cons_ne _ _ _ _ _ hc]; simp; exact ih b h
  | case6 pos e c r hc he h59 ih => intro b h; simp only [List.cons_append]; rw [chunkLineRest_cons_ne _ _ _ _ _ hc]; simp [he, h59]; exact ih b h
  | case7 pos e c r hc he h59 => intro b h; simp only [List.cons_append]; rw [chunkLineRest_cons_ne _ _ _ _ _ hc]; simp [he, h59]

theorem chunkLineRest_complete (size : Nat) : ∀ (pos : Nat) (e : Bool) (a : Bytes) (p sz : Nat),
    chunkLineRest size pos e a = .complete p sz → p ≤ pos + a.length ∧ pos < p ∧ sz = size := by
  intro pos e a
  fun_induction chunkLineRest size pos e a with
  | case1 => intro p sz h; simp at h
  | case2 pos e c hc => intro p sz h; simp at h
  | case3 pos e c hc d tail hd => intro p sz h; simp at h; simp; omega
  | case4 pos e c hc d tail hd => intro p sz h; simp at h
  | case5 pos c r hc ih => intro p sz h; have := ih p sz h; simp; omega
  | case6 pos e c r hc he h59 ih => intro p sz h; have := ih p sz h; simp; omega
  | case7 pos e c r hc he h59 => intro p sz h; simp at h

theorem chunkLineRest_gt (size : Nat) : ∀ (pos : Nat) (e : Bool) (a b : Bytes) (p sz : Nat),
    chunkLineRest size pos e a = .incomplete →
    chunkLineRest size pos e (a ++ b) = .complete p sz → pos + a.length < p := by
  intro pos e a
  fun_induction chunkLineRest size pos e a with
  | case1 pos e => intro b p sz _ h; have := chunkLineRest_complete _ _ _ _ _ _ h; simp; omega
  | case2 pos e c hc =>
    intro b p sz _ h
    cases b with
    | nil => simp [chunkLineRest, hc] at h
    | cons d b =>
      simp [chunkLineRest, hc] at h
      split at h
      · simp at h; simp; omega
      · simp at h
  | case3 pos e c hc d tail hd => intro b p sz h; simp at h
  | case4 pos e c hc d tail hd => intro b p sz h; simp at h
  | case5 pos c r hc ih =>
    intro b p sz h h'
    simp only [List.cons_append] at h'; rw [chunkLineRest_cons_ne _ _ _ _ _ hc] at h'; simp at h'
    have := ih b p sz h h'; simp; omega
  | case6 pos e c r hc he h59 ih =>
    intro b p sz h h'
    simp only [List.cons_append] at h'; rw [chunkLineRest_cons_ne _ _ _ _ _ hc] at h'; simp [he, h59] at h'
    have := ih b p sz h h'; simp; omega
  | case7 pos e c r hc he h59 => intro b p sz h; simp at h

theorem chunkDigits_cons (n size pos c : Nat) (r : Bytes) :
    chunkDigits n size pos (c :: r) =
      match hexDigitVal c with
      | some d => if n ≥ 16 then .invalid else chunkDigits (n + 1) (size * 16 + d) (pos + 1) r
      | none => if n == 0 then .invalid else chunkLineRest size pos false (c :: r) := by
  rw [chunkDigits.eq_def]
  rfl

theorem chunkDigits_append : ∀ (n size pos : Nat) (a b : Bytes),
    chunkDigits n size pos a ≠ .incomplete →
    chunkDigits n size pos (a ++ b) = chunkDigits n size pos a := by
  intro n size pos a
  fun_induction chunkDigits n size pos a with
  | case1 => intro b h; simp at h
  | case2 n size pos c r d hd hn => intro b _; simp [chunkDigits_cons, hd, hn]
  | case3 n size pos c r d hd hn ih => intro b h; simp [chunkDigits_cons, hd, hn]; exact ih b h
  | case4 n size pos c r hd hn => intro b _; simp [chunkDigits_cons, hd, hn]
  | case5 n size pos c r hd hn =>
    intro b h; simp only [List.cons_append, chunkDigits_cons, hd, hn]
    exact chunkLineRest_append _ _ _ (c :: r) b h

theorem chunkDigits_complete : ∀ (n size pos : Nat) (a : Bytes) (p sz : Nat),
    chunkDigits n size pos a = .complete p sz → p ≤ pos + a.length ∧ pos < p := by
  intro n size pos a
  fun_induction chunkDigits n size pos a with
  | case1 => intro p sz h; simp at h
  | case2 n size pos c r d hd hn => intro p sz h; simp at h
  | case3 n size pos c r d hd hn ih => intro p sz h; have := ih p sz h; simp; omega
  | case4 n size pos c r hd hn => intro p sz h; simp at h
  | case5 n size pos c r hd hn =>
    intro p sz h; have := chunkLineRest_complete _ _ _ _ _ _ h; omega

theorem chunkDigits_gt : ∀ (n size pos : Nat) (a b : Bytes) (p sz : Nat),
    chunkDigits n size pos a = .incomplete →
    chunkDigits n size pos (a ++ b) = .complete p sz → pos + a.length < p := by
  intro n size pos a
  fun_induction chunkDigits n size pos a with
  | case1 n size pos => intro b p sz _ h; have := chunkDigits_complete _ _ _ _ _ _ h; simp; omega
  | case2 n size pos c r d hd hn => intro b p sz h; simp at h
  | case3 n size pos c r d hd hn ih =>
    intro b p sz h h'
    simp [chunkDigits_cons, hd, hn] at h'
    have := ih b p sz h h'; simp; omega
  | case4 n size pos c r hd hn => intro b p sz h; simp at h
  | case5 n size pos c r hd hn =>
    intro b p sz h h'
    simp only [List.cons_append, chunkDigits_cons, hd, hn] at h'
    exact chunkLineRest_gt _ _ _ (c :: r) b p sz h h'

theorem parseChunkSize_append (a b : Bytes) (h : parseChunkSize a ≠ .incomplete) :
    parseChunkSize (a ++ b) = parseChunkSize a := chunkDigits_append _ _ _ a b h

theorem parseChunkSize_complete (a : Bytes) (p sz : Nat) (h : parseChunkSize a = .complete p sz) :
    p ≤ a.length ∧ 0 < p := by
  have := chunkDigits_complete _ _ _ _ _ _ h; omega

theorem parseChunkSize_gt (a b : Bytes) (p sz : Nat) (h : parseChunkSize a = .incomplete)
    (h' : parseChunkSize (a ++ b) = .complete p sz) : a.length < p := by
  have := chunkDigits_gt _ _ _ _ _ _ _ h h'; omega

/-! ## the parser without the client-side sink's throttling: `Core`, `stepU`, `D` -/

/-- what is left of a `Sink` when quotas, `fakeUnsent` and `failed` are forgotten -/
structure Core where
  phase : Phase
  client : Client

def Sink.core (s : Sink) : Core := ⟨s.phase, s.client⟩

def cEof (cl : Client) : Client := { cl with eofs := cl.eofs ++ [cl.body.length] }

/-- `Sink.write` for a client-side sink that takes everything; a dead sink absorbs silently -/
def stepU (ver : Ver) (method : Bytes) (c : Core) (data : Bytes) : Core × Bytes :=
  match c.phase with
  | .idle => (c, [])
  | .waitingResponse buf =>
    let d := buf ++ data
    match headEnd d with
    | none => (⟨.waitingResponse d, c.client⟩, [])
    | some pos =>
      match parseHeadBytes (d.take pos) with
      | none => (⟨.idle, { c.client with bad := true }⟩, [])
      | some h =>
        match convertResponse ver method h with
        | none => (⟨.idle, { c.client with bad := true }⟩, [])
        | some (kept, bl) =>
          if 100 ≤ h.status ∧ h.status < 200 then
            (⟨.waitingResponse [],
              if ver.isH1 then { c.client with interims := c.client.interims ++ [h.status] } else c.client⟩,
             d.drop pos)
          else
            (⟨match bl with
              | some .chunked => Phase.chunkPrefix []
              | some (.determined n) => .nonEncoded (some n) 0
              | none => .nonEncoded none 0,
              { c.client with head := some (h.status, bl == some (.determined 0), kept) }⟩, d.drop pos)
  | .nonEncoded (some n) sent =>
    if n ≤ sent then (⟨.idle, c.client⟩, [])
    else
      let k := min data.length (n - sent)
      let cl := { c.client with body := c.client.body ++ data.take k }
      (⟨.nonEncoded (some n) (sent + k), if sent + k = n then cEof cl else cl⟩, data.drop k)
  | .nonEncoded none sent =>
    (⟨.nonEncoded none (sent + data.length), { c.client with body := c.client.body ++ data }⟩, [])
  | .chunkPrefix buf =>
    let d := buf ++ data
    match parseChunkSize d with
    | .incomplete => (⟨.chunkPrefix d, c.client⟩, [])
    | .invalid => (⟨.idle, c.client⟩, [])
    | .complete pos size =>
      (⟨if size = 0 then .chunkSuffix [] true else .chunkBody size, c.client⟩, d.drop pos)
  | .chunkBody remaining =>
    let k := min data.length remaining
    (⟨if remaining - k > 0 then .chunkBody (remaining - k) else .chunkSuffix [] false,
      { c.client with body := c.client.body ++ data.take k }⟩, data.drop k)
  | .chunkSuffix buf terminating =>
    let need := 2 - buf.length
    let suffix := buf ++ data.take need
    if suffix != [13, 10].take suffix.length then (⟨.idle, c.client⟩, [])
    else if suffix.length < 2 then (⟨.chunkSuffix suffix terminating, c.client⟩, data.drop need)
    else if terminating then (⟨.idle, cEof c.client⟩, [])
    else (⟨.chunkPrefix [], c.client⟩, data.drop need)

/-- the whole of `d` through the unthrottled parser -/
def D (ver : Ver) (method : Bytes) (c : Core) (d : Bytes) : Core :=
  match d with
  | [] => c
  | x :: r =>
    if (stepU ver method c (x :: r)).2.length < (x :: r).length then
      D ver method (stepU ver method c (x :: r)).1 (stepU ver method c (x :: r)).2
    else (stepU ver method c (x :: r)).1
termination_by d.length

/-- what the buffered phases guarantee about their buffers -/
def CI (c : Core) : Prop :=
  match c.phase with
  | .waitingResponse buf => headEnd buf = none
  | .chunkPrefix buf => parseChunkSize buf = .incomplete
  | .chunkBody r => 0 < r
  | .chunkSuffix buf _ => buf = [] ∨ buf = [13]
  | _ => True

theorem stepU_CI (ver : Ver) (method : Bytes) (c : Core) (d : Bytes) (h : CI c) :
    CI (stepU ver method c d).1 := by
  obtain ⟨phase, cl⟩ := c
  cases phase with
  | idle => simp [stepU, CI]
  | waitingResponse buf =>
    simp only [stepU]
    split
    · simpa [CI]
    · split
      · simp [CI]
      · split
        · simp [CI]
        · split
          · simp [CI, headEnd]
          · rename_i kept bl _ _
            rcases bl with _ | _ | _ <;> simp [CI, parseChunkSize, chunkDigits]
  | nonEncoded len sent =>
    cases len <;> simp only [stepU]
    · simp [CI]
    · split <;> simp [CI]
  | chunkPrefix buf =>
    simp only [stepU]
    split
    · simpa [CI]
    · simp [CI]
    · rename_i pos size _
      by_cases hs : size = 0 <;> simp [CI, hs]; omega
  | chunkBody r =>
    simp only [stepU]
    split <;> simp [CI]; omega
  | chunkSuffix buf t =>
    simp only [stepU]
    simp only [CI] at h
    split
    · simp [CI]
    · split
      · rename_i h1 h2
        simp only [CI]
        rcases h with rfl | rfl
        · rcases d with _ | ⟨x, _ | ⟨y, r⟩⟩ <;> simp_all
        · rcases d with _ | ⟨x, r⟩ <;> simp_all
      · split <;> simp [CI, parseChunkSize, chunkDigits]

theorem stepU_shrink (ver : Ver) (method : Bytes) (c : Core) (d : Bytes) (h : CI c) (hd : d ≠ []) :
    (stepU ver method c d).2.length < d.length := by
  have hpos : 0 < d.length := List.length_pos_iff.mpr hd
  obtain ⟨phase, cl⟩ := c
  cases phase with
  | idle => simpa [stepU]
  | waitingResponse buf =>
    simp only [stepU]
    simp only [CI] at h
    split
    · simpa
    · rename_i pos hp
      have := headEnd_gt _ _ _ h hp
      split
      · simpa
      · split
        · simpa
        · split <;> simp <;> omega
  | nonEncoded len sent =>
    cases len <;> simp only [stepU]
    · simpa
    · split
      · simpa
      · simp; omega
  | chunkPrefix buf =>
    simp only [stepU]
    simp only [CI] at h
    split
    · simpa
    · simpa
    · rename_i pos size hp
      have := parseChunkSize_gt _ _ _ _ h hp
      simp; omega
  | chunkBody r =>
    simp only [stepU]
    simp only [CI] at h
    simp; omega
  | chunkSuffix buf t =>
    simp only [stepU]
    simp only [CI] at h
    have : buf.length < 2 := by rcases h with rfl | rfl <;> simp
    split
    · simpa
    · split
      · simp; omega
      · split <;> simp <;> omega

theorem D_nil (ver : Ver) (method : Bytes) (c : Core) : D ver method c [] = c := by
  rw [D]

theorem D_step (ver : Ver) (method : Bytes) (c : Core) (d : Bytes) (h : CI c) (hd : d ≠ []) :
    D ver method c d = D ver method (stepU ver method c d).1 (stepU ver method c d).2 := by
  cases d with
  | nil => exact absurd rfl hd
  | cons x r =>
    rw [D]
    rw [if_pos (stepU_shrink ver method c (x :: r) h hd)]

theorem D_CI (ver : Ver) (method : Bytes) : ∀ (n : Nat) (c : Core) (d : Bytes), d.length ≤ n → CI c →
    CI (D ver method c d) := by
  intro n
  induction n with
  | zero => intro c d hd h; cases d with
    | nil => rwa [D_nil]
    | cons _ _ => simp at hd
  | succ n ih =>
    intro c d hd h
    by_cases hd' : d = []
    · subst hd'; rwa [D_nil]
    · rw [D_step _ _ _ _ h hd']
      have := stepU_shrink ver method c d h hd'
      exact ih _ _ (by omega) (stepU_CI _ _ _ _ h)

/-- how one unthrottled `write` on `a ++ b` relates to the `write` on `a` -/
def StepApp (ver : Ver) (method : Bytes) (c : Core) (a b : Bytes) : Prop :=
  stepU ver method c (a ++ b) = ((stepU ver method c a).1, (stepU ver method c a).2 ++ b) ∨
  ((stepU ver method c a).2 = [] ∧
    stepU ver method c (a ++ b) = stepU ver method (stepU ver method c a).1 b)

theorem stepApp_idle (ver : Ver) (method : Bytes) (cl : Client) (a b : Bytes) :
    StepApp ver method ⟨.idle, cl⟩ a b := by
  right; simp [stepU]

theorem stepApp_waiting (ver : Ver) (method : Bytes) (cl : Client) (buf a b : Bytes) :
    StepApp ver method ⟨.waitingResponse buf, cl⟩ a b := by
  unfold StepApp
  cases hh : headEnd (buf ++ a) with
  | none =>
    right
    simp [stepU, hh]
  | some pos =>
    have h1 := headEnd_append_some _ b _ hh
    have h2 := (headEnd_le _ _ hh).1
    have ht : List.take pos (buf ++ a ++ b) = List.take pos (buf ++ a) := List.take_append_of_le_length h2
    have hd : List.drop pos (buf ++ a ++ b) = List.drop pos (buf ++ a) ++ b := List.drop_append_of_le_length h2
    simp only [stepU, ← List.append_assoc, h1, hh, ht, hd]
    split
    · right; simp
    · split
      · right; simp
      · split
        · left; rfl
        · left; rfl

theorem stepApp_nonEncodedNone (ver : Ver) (method : Bytes) (cl : Client) (sent : Nat) (a b : Bytes) :
    StepApp ver method ⟨.nonEncoded none sent, cl⟩ a b := by
  right; simp [stepU, Nat.add_assoc]

theorem stepApp_nonEncodedSome (ver : Ver) (method : Bytes) (cl : Client) (n sent : Nat) (a b : Bytes) :
    StepApp ver method ⟨.nonEncoded (some n) sent, cl⟩ a b := by
  unfold StepApp
  by_cases hn : n ≤ sent
  · right; simp [stepU, hn]
  · by_cases hl : a.length < n - sent
    · right
      have h1 : min a.length (n - sent) = a.length := by omega
      have h2 : ¬ sent + a.length = n := by omega
      have h3 : ¬ n ≤ sent + a.length := by omega
      have h4 : min (a.length + b.length) (n - sent) = a.length + min b.length (n - (sent + a.length)) := by omega
      simp only [stepU, hn, if_false, h1, h2, h3, List.length_append, h4]
      have h6 : ∀ m, List.take (a.length + m) a = a := fun m => List.take_of_length_le (by omega)
      simp [List.take_append, List.drop_append, Nat.add_assoc, cEof, h6]
    · left
      have h1 : min a.length (n - sent) = n - sent := by omega
      have h4 : min (a.length + b.length) (n - sent) = n - sent := by omega
      simp only [stepU, hn, if_false, h1, List.length_append, h4]
      rw [List.take_append_of_le_length (by omega), List.drop_append_of_le_length (by omega)]

theorem stepApp_chunkPrefix (ver : Ver) (method : Bytes) (cl : Client) (buf a b : Bytes) :
    StepApp ver method ⟨.chunkPrefix buf, cl⟩ a b := by
  unfold StepApp
  cases hh : parseChunkSize (buf ++ a) with
  | incomplete =>
    right
    simp [stepU, hh]
  | invalid =>
    right
    have h1 := parseChunkSize_append _ b (by rw [hh]; simp)
    simp [stepU, ← List.append_assoc, h1, hh]
  | complete pos size =>
    left
    have h1 := parseChunkSize_append _ b (by rw [hh]; simp)
    have h2 := (parseChunkSize_complete _ _ _ hh).1
    have hd : List.drop pos (buf ++ a ++ b) = List.drop pos (buf ++ a) ++ b := List.drop_append_of_le_length h2
    simp only [stepU, ← List.append_assoc, h1, hh, hd]

theorem stepApp_chunkBody (ver : Ver) (method : Bytes) (cl : Client) (r : Nat) (a b : Bytes) (_hr : 0 < r) :
    StepApp ver method ⟨.chunkBody r, cl⟩ a b := by
  unfold StepApp
  by_cases hl : a.length < r
  · right
    have h1 : min a.length r = a.length := by omega
    have h2 : r - a.length > 0 := by omega
    have h4 : min (a.length + b.length) r = a.length + min b.length (r - a.length) := by omega
    have h5 : r - (a.length + min b.length (r - a.length)) = r - a.length - min b.length (r - a.length) := by omega
    simp only [stepU, h1, h2, if_true, List.length_append, h4, h5]
    have h6 : ∀ m, List.take (a.length + m) a = a := fun m => List.take_of_length_le (by omega)
    simp [List.take_append, List.drop_append, h6]
  · left
    have h1 : min a.length r = r := by omega
    have h4 : min (a.length + b.length) r = r := by omega
    simp only [stepU, h1, List.length_append, h4]
    rw [List.take_append_of_le_length (by omega), List.drop_append_of_le_length (by omega)]

theorem stepApp_chunkSuffix (ver : Ver) (method : Bytes) (cl : Client) (buf : Bytes) (t : Bool) (a b : Bytes)
    (hb : buf = [] ∨ buf = [13]) (ha : a ≠ []) (hb' : b ≠ []) :
    StepApp ver method ⟨.chunkSuffix buf t, cl⟩ a b := by
  unfold StepApp
  obtain ⟨y, b, rfl⟩ := List.exists_cons_of_ne_nil hb'
  rcases hb with rfl | rfl
  · rcases a with _ | ⟨x, _ | ⟨x', a⟩⟩
    · exact absurd rfl ha
    · by_cases hx : x = 13
      · right; subst hx
        simp [stepU]
      · right
        simp [stepU, hx]
    · by_cases hx : x = 13 ∧ x' = 10
      · obtain ⟨rfl, rfl⟩ := hx
        cases t
        · left; simp [stepU]
        · right; simp [stepU]
      · right
        have : ¬ (x = 13 ∧ x' = 10) := hx
        simp [stepU, this]
  · rcases a with _ | ⟨x, a⟩
    · exact absurd rfl ha
    · by_cases hx : x = 10
      · subst hx
        cases t
        · left; simp [stepU]
        · right; simp [stepU]
      · right
        simp [stepU, hx]

theorem stepU_append (ver : Ver) (method : Bytes) (c : Core) (a b : Bytes) (h : CI c) (ha : a ≠ []) (hb : b ≠ []) :
    StepApp ver method c a b := by
  obtain ⟨phase, cl⟩ := c
  cases phase with
  | idle => exact stepApp_idle ..
  | waitingResponse buf => exact stepApp_waiting ..
  | nonEncoded len sent =>
    cases len
    · exact stepApp_nonEncodedNone ..
    · exact stepApp_nonEncodedSome ..
  | chunkPrefix buf => exact stepApp_chunkPrefix ..
  | chunkBody r => exact stepApp_chunkBody _ _ _ _ _ _ h
  | chunkSuffix buf t => exact stepApp_chunkSuffix _ _ _ _ _ _ _ h ha hb

/-- **segmentation does not matter** to the unthrottled parser -/
theorem D_append (ver : Ver) (method : Bytes) : ∀ (n : Nat) (c : Core) (a b : Bytes), a.length ≤ n → CI c →
    D ver method (D ver method c a) b = D ver method c (a ++ b) := by
  intro n
  induction n with
  | zero =>
    intro c a b ha _
    cases a with
    | nil => simp [D_nil]
    | cons _ _ => simp at ha
  | succ n ih =>
    intro c a b hl h
    by_cases ha : a = []
    · subst ha; simp [D_nil]
    by_cases hb : b = []
    · subst hb; simp [D_nil]
    have hab : a ++ b ≠ [] := by simp [ha]
    have hs := stepU_shrink ver method c a h ha
    have hci := stepU_CI ver method c a h
    rw [D_step _ _ c a h ha, D_step _ _ c (a ++ b) h hab]
    rcases stepU_append ver method c a b h ha hb with h1 | ⟨h1, h2⟩
    · rw [h1]
      exact ih _ _ _ (by omega) hci
    · rw [h1, D_nil, h2, ← D_step _ _ _ _ hci hb]

set_option linter.unusedSimpArgs false

/-! ## `Sink.write` with any acceptance script against the unthrottled parser -/

structure Inv (s : Sink) : Prop where
  flag : s.fakeUnsent = false
  ci : CI s.core
  dead : s.failed = true → s.phase = .idle

structure WritePost (s : Sink) (d : Bytes) (r : Sink × Bytes) : Prop where
  ver : r.1.ver = s.ver
  method : r.1.method = s.method
  sem : D s.ver s.method r.1.core r.2 = D s.ver s.method s.core d
  ci : CI r.1.core
  dead : r.1.failed = true → r.1.phase = .idle ∧ r.2 = []
  flag : r.2 = [] → r.1.fakeUnsent = false
  go : r.2 ≠ [] → r.1.fakeUnsent = true ∨ r.1.phase ≠ .idle
  fuel : r.2.length + r.1.quotas.length < d.length + s.quotas.length

theorem WritePost.of_step (s : Sink) (d : Bytes) (r : Sink × Bytes) (hi : Inv s) (hd : d ≠ [])
    (hv : r.1.ver = s.ver) (hm : r.1.method = s.method) (hq : r.1.quotas = s.quotas)
    (h1 : r.1.core = (stepU s.ver s.method s.core d).1) (h2 : r.2 = (stepU s.ver s.method s.core d).2)
    (dead : r.1.failed = true → r.1.phase = .idle ∧ r.2 = [])
    (flag : r.2 = [] → r.1.fakeUnsent = false)
    (go : r.2 ≠ [] → r.1.fakeUnsent = true ∨ r.1.phase ≠ .idle) : WritePost s d r where
  ver := hv
  method := hm
  sem := by rw [h1, h2, ← D_step _ _ _ _ hi.ci hd]
  ci := by rw [h1]; exact stepU_CI _ _ _ _ hi.ci
  dead := dead
  flag := flag
  go := go
  fuel := by rw [h2, hq]; have := stepU_shrink s.ver s.method s.core d hi.ci hd; omega

theorem write_idle (s : Sink) (d : Bytes) (hi : Inv s) (hd : d ≠ []) (hp : s.phase = .idle) :
    WritePost s d (s.write d) := by
  have hf := hi.flag
  apply WritePost.of_step s d _ hi hd <;> simp [Sink.write, hp, fail, stepU, Sink.core, hf]

theorem write_waiting (s : Sink) (d : Bytes) (hi : Inv s) (hd : d ≠ []) (buf : Bytes)
    (hp : s.phase = .waitingResponse buf) :
    WritePost s d (s.write d) := by
  have hf := hi.flag
  have hdead := hi.dead
  simp only [hp] at hdead
  have hnf : s.failed = false := by cases h : s.failed <;> simp_all
  cases hh : headEnd (buf ++ d) with
  | none => apply WritePost.of_step s d _ hi hd <;> simp [Sink.write, hp, stepU, Sink.core, hh, hf, hnf]
  | some pos =>
    cases hph : parseHeadBytes (List.take pos (buf ++ d)) with
    | none => apply WritePost.of_step s d _ hi hd <;> simp [Sink.write, hp, stepU, Sink.core, hh, hph, hf, fail]
    | some h =>
      cases hc : convertResponse s.ver s.method h with
      | none => apply WritePost.of_step s d _ hi hd <;> simp [Sink.write, hp, stepU, Sink.core, hh, hph, hc, hf, fail]
      | some kb =>
        obtain ⟨kept, bl⟩ := kb
        by_cases h1 : 100 ≤ h.status ∧ h.status < 200
        · apply WritePost.of_step s d _ hi hd <;> simp [Sink.write, hp, stepU, Sink.core, hh, hph, hc, hf, hnf, h1]
        · rcases bl with _ | _ | _ <;>
          · apply WritePost.of_step s d _ hi hd <;> simp [Sink.write, hp, stepU, Sink.core, hh, hph, hc, hnf, h1]

theorem write_chunkPrefix (s : Sink) (d : Bytes) (hi : Inv s) (hd : d ≠ []) (buf : Bytes)
    (hp : s.phase = .chunkPrefix buf) :
    WritePost s d (s.write d) := by
  have hf := hi.flag
  have hdead := hi.dead
  simp only [hp] at hdead
  have hnf : s.failed = false := by cases h : s.failed <;> simp_all
  cases hh : parseChunkSize (buf ++ d) with
  | incomplete => apply WritePost.of_step s d _ hi hd <;> simp [Sink.write, hp, stepU, Sink.core, hh, hf, hnf]
  | invalid => apply WritePost.of_step s d _ hi hd <;> simp [Sink.write, hp, stepU, Sink.core, hh, hf, hnf, fail]
  | complete pos size =>
    by_cases hs : size = 0
    · apply WritePost.of_step s d _ hi hd <;> simp [Sink.write, hp, stepU, Sink.core, hh, hnf, hs]
    · apply WritePost.of_step s d _ hi hd <;> simp [Sink.write, hp, stepU, Sink.core, hh, hnf, hs]

theorem write_chunkSuffix (s : Sink) (d : Bytes) (hi : Inv s) (hd : d ≠ []) (buf : Bytes) (t : Bool)
    (hp : s.phase = .chunkSuffix buf t) :
    WritePost s d (s.write d) := by
  have hf := hi.flag
  have hdead := hi.dead
  simp only [hp] at hdead
  have hnf : s.failed = false := by cases h : s.failed <;> simp_all
  by_cases h1 : (buf ++ d.take (2 - buf.length) != [13, 10].take (buf ++ d.take (2 - buf.length)).length) = true
  · apply WritePost.of_step s d _ hi hd <;> simp only [Sink.write, hp, stepU, Sink.core, h1, if_true] <;> simp [fail, hf]
  · by_cases h2 : (buf ++ d.take (2 - buf.length)).length < 2
    · apply WritePost.of_step s d _ hi hd <;> simp only [Sink.write, hp, stepU, Sink.core, h1, h2, if_true, if_false] <;> simp [fail, hf, hnf]
    · cases t
      · apply WritePost.of_step s d _ hi hd <;> simp only [Sink.write, hp, stepU, Sink.core, h1, h2, if_true, if_false] <;> simp [fail, hf, hnf]
      · apply WritePost.of_step s d _ hi hd <;> simp only [Sink.write, hp, stepU, Sink.core, h1, h2, if_true, if_false] <;> simp [fail, hf, hnf, clientEof, cEof]

set_option linter.unusedSimpArgs false

theorem takeQuota_spec (qs : List Nat) (n : Nat) :
    (takeQuota qs n).1 ≤ n ∧ ((takeQuota qs n).1 = n ∨ (takeQuota qs n).2.length < qs.length) ∧
      (takeQuota qs n).2.length ≤ qs.length := by
  cases qs with
  | nil => simp [takeQuota]
  | cons q r => simp [takeQuota]; omega

theorem sem_of_take (ver : Ver) (method : Bytes) (c c' : Core) (d : Bytes) (k : Nat) (h : CI c) (hk : 0 < k)
    (hkd : k ≤ d.length) (hs : stepU ver method c (d.take k) = (c', [])) :
    D ver method c' (d.drop k) = D ver method c d := by
  have hne : d.take k ≠ [] := by
    intro h0
    have := congrArg List.length h0
    rw [List.length_take, List.length_nil] at this; omega
  have h1 : D ver method c (d.take k) = c' := by
    rw [D_step _ _ _ _ h hne, hs, D_nil]
  conv => rhs; rw [← List.take_append_drop k d]
  rw [← D_append ver method _ c _ _ (Nat.le_refl _) h, h1]

theorem write_chunkBody (s : Sink) (d : Bytes) (hi : Inv s) (hd : d ≠ []) (rem : Nat)
    (hp : s.phase = .chunkBody rem) :
    WritePost s d (s.write d) := by
  have hf := hi.flag
  have hdead := hi.dead
  have hci := hi.ci
  simp only [hp] at hdead
  simp only [CI, Sink.core, hp] at hci
  have hnf : s.failed = false := by cases h : s.failed <;> simp_all
  have hpos : 0 < d.length := List.length_pos_iff.mpr hd
  simp only [Sink.write, hp, clientWrite]
  have hlen : (List.take (min d.length rem) d).length = min d.length rem := by simp
  rw [hlen]
  have hq := takeQuota_spec s.quotas (min d.length rem)
  generalize takeQuota s.quotas (min d.length rem) = tq at hq
  obtain ⟨k, qs⟩ := tq
  simp only at hq ⊢
  have htt : List.take k (List.take (min d.length rem) d) = List.take k d := by
    rw [List.take_take]; congr 1; omega
  rw [htt]
  refine ⟨rfl, rfl, ?_, ?_, ?_, ?_, ?_, ?_⟩
  · by_cases hk : k = 0
    · subst hk; simp [Sink.core, hci, hp]
    · apply sem_of_take _ _ _ _ _ _ hi.ci (by omega) (by omega)
      have h1 : min (min k d.length) rem = min k d.length := by omega
      have h2 : min k d.length = k := by omega
      have h3 : min k rem = k := by omega
      simp [Sink.core, hp, stepU, h1, h2, h3, List.take_take]
  · simp only [Sink.core]
    split
    · simp only [CI]; omega
    · simp [CI]
  · simp [hnf]
  · simp; omega
  · simp only [ne_eq, List.drop_eq_nil_iff, Nat.not_le]
    intro hlt
    by_cases hk : k = min d.length rem
    · left; simp [hk, hlt]; omega
    · right; have : rem - k > 0 := by omega
      simp [this]
  · simp; omega

theorem write_nonEncodedNone (s : Sink) (d : Bytes) (hi : Inv s) (hd : d ≠ []) (sent : Nat)
    (hp : s.phase = .nonEncoded none sent) :
    WritePost s d (s.write d) := by
  have hf := hi.flag
  have hdead := hi.dead
  simp only [hp] at hdead
  have hnf : s.failed = false := by cases h : s.failed <;> simp_all
  have hpos : 0 < d.length := List.length_pos_iff.mpr hd
  have hde : d.isEmpty = false := by cases d <;> simp_all
  simp only [Sink.write, hp, clientWrite, hde]
  have hq := takeQuota_spec s.quotas d.length
  generalize takeQuota s.quotas d.length = tq at hq
  obtain ⟨k, qs⟩ := tq
  simp only at hq ⊢
  refine ⟨rfl, rfl, ?_, ?_, ?_, ?_, ?_, ?_⟩
  · by_cases hk : k = 0
    · subst hk; simp [Sink.core, hp]
    · apply sem_of_take _ _ _ _ _ _ hi.ci (by omega) (by omega)
      have h2 : min k d.length = k := by omega
      simp [Sink.core, hp, stepU, h2]
  · simp [Sink.core, CI]
  · simp [hnf]
  · simp [hf]
  · simp
  · simp; omega

theorem write_nonEncodedSome (s : Sink) (d : Bytes) (hi : Inv s) (hd : d ≠ []) (n sent : Nat)
    (hp : s.phase = .nonEncoded (some n) sent) :
    WritePost s d (s.write d) := by
  have hf := hi.flag
  have hdead := hi.dead
  simp only [hp] at hdead
  have hnf : s.failed = false := by cases h : s.failed <;> simp_all
  have hpos : 0 < d.length := List.length_pos_iff.mpr hd
  by_cases hn : n ≤ sent
  · apply WritePost.of_step s d _ hi hd <;> simp [Sink.write, hp, stepU, Sink.core, hn, hf, fail]
  · have h0 : (min d.length (n - sent) == 0) = false := by
      have : min d.length (n - sent) ≠ 0 := by omega
      simpa using this
    simp only [Sink.write, hp, clientWrite, hn, if_false, h0]
    have hlen : (List.take (min d.length (n - sent)) d).length = min d.length (n - sent) := by simp
    rw [hlen]
    have hq := takeQuota_spec s.quotas (min d.length (n - sent))
    generalize takeQuota s.quotas (min d.length (n - sent)) = tq at hq
    obtain ⟨k, qs⟩ := tq
    simp only at hq ⊢
    have htt : List.take k (List.take (min d.length (n - sent)) d) = List.take k d := by
      rw [List.take_take]; congr 1; omega
    rw [htt]
    by_cases he : sent + k = n
    · have he' : (sent + k == n) = true := by simp [he]
      simp only [he', if_true]
      refine ⟨rfl, rfl, ?_, ?_, ?_, ?_, ?_, ?_⟩
      · apply sem_of_take _ _ _ _ _ _ hi.ci (by omega) (by omega)
        have h2 : min k d.length = k := by omega
        have h3 : min k (n - sent) = k := by omega
        simp [Sink.core, hp, stepU, h2, h3, hn, he, clientEof, cEof, List.take_take]
      · simp [Sink.core, CI, clientEof]
      · simp [hnf, clientEof]
      · simp [hf, clientEof]
      · simp [clientEof]
      · simp [clientEof]; omega
    · have he' : (sent + k == n) = false := by simp [he]
      simp only [he']
      refine ⟨rfl, rfl, ?_, ?_, ?_, ?_, ?_, ?_⟩
      · by_cases hk : k = 0
        · subst hk; simp [Sink.core, hp]
        · apply sem_of_take _ _ _ _ _ _ hi.ci (by omega) (by omega)
          have h2 : min k d.length = k := by omega
          have h3 : min k (n - sent) = k := by omega
          simp [Sink.core, hp, stepU, h2, h3, hn, he, List.take_take]
      · simp [Sink.core, CI]
      · simp [hnf]
      · simp [hf]
      · simp
      · simp; omega

theorem write_post (s : Sink) (d : Bytes) (hi : Inv s) (hd : d ≠ []) : WritePost s d (s.write d) := by
  cases hp : s.phase with
  | idle => exact write_idle s d hi hd hp
  | waitingResponse buf => exact write_waiting s d hi hd buf hp
  | nonEncoded len sent =>
    cases len with
    | none => exact write_nonEncodedNone s d hi hd sent hp
    | some n => exact write_nonEncodedSome s d hi hd n sent hp
  | chunkPrefix buf => exact write_chunkPrefix s d hi hd buf hp
  | chunkBody rem => exact write_chunkBody s d hi hd rem hp
  | chunkSuffix buf t => exact write_chunkSuffix s d hi hd buf t hp

set_option linter.unusedSimpArgs false

theorem D_idle (ver : Ver) (method : Bytes) (c : Core) (d : Bytes) (h : c.phase = .idle) :
    D ver method c d = c := by
  by_cases hd : d = []
  · subst hd; exact D_nil ..
  · have hci : CI c := by simp [CI, h]
    rw [D_step _ _ _ _ hci hd]
    obtain ⟨p, cl⟩ := c
    simp only at h; subst h
    simp [stepU, D_nil]

theorem waitWritable_spec (s : Sink) (h : s.fakeUnsent = true ∨ s.phase ≠ .idle) :
    s.waitWritable = ({ s with fakeUnsent := false }, true) := by
  unfold Sink.waitWritable
  cases hf : s.fakeUnsent
  · have hp : s.phase ≠ .idle := by simpa [hf] using h
    have : ({ s with fakeUnsent := false } : Sink) = s := by cases s; simp_all
    rw [this]
    cases hph : s.phase <;> simp_all
  · simp

/-- **back-pressure does not matter**: the pipe's loop on one segment, whatever the client-side sink
accepts per call, leaves what the unthrottled parser leaves -/
theorem offerLoop_spec : ∀ (fuel : Nat) (s : Sink) (d : Bytes), Inv s → d ≠ [] →
    d.length + s.quotas.length < fuel →
    (offerLoop fuel s d).core = D s.ver s.method s.core d ∧ Inv (offerLoop fuel s d) ∧
      (offerLoop fuel s d).ver = s.ver ∧ (offerLoop fuel s d).method = s.method := by
  intro fuel
  induction fuel with
  | zero => intro s d _ _ h; omega
  | succ fuel ih =>
    intro s d hi hd hfuel
    rw [offerLoop]
    by_cases hfail : s.failed = true
    · rw [if_pos hfail]
      refine ⟨?_, hi, rfl, rfl⟩
      rw [D_idle]; simpa [Sink.core] using hi.dead hfail
    · rw [if_neg hfail]
      have wp := write_post s d hi hd
      generalize s.write d = r at wp
      obtain ⟨s', u⟩ := r
      simp only [Bool.false_eq_true, if_false]
      by_cases hstop : (s'.failed || u.isEmpty) = true
      · simp only [hstop, if_true]
        have hu : u = [] := by
          rcases Bool.or_eq_true _ _ |>.mp hstop with h | h
          · exact (wp.dead h).2
          · simpa using h
        have hsem := wp.sem
        simp only [hu, D_nil] at hsem
        exact ⟨hsem, ⟨wp.flag hu, wp.ci, fun h => (wp.dead h).1⟩, wp.ver, wp.method⟩
      · simp only [hstop]
        have hnf : s'.failed = false := by cases h : s'.failed <;> simp_all
        have hu : u ≠ [] := by intro h; simp [h] at hstop
        rw [waitWritable_spec s' (wp.go hu)]
        simp only [Bool.not_true, Bool.false_eq_true, if_false]
        have hi' : Inv { s' with fakeUnsent := false } :=
          ⟨rfl, wp.ci, fun h => by simp [hnf] at h⟩
        have hfuel' : u.length + ({ s' with fakeUnsent := false } : Sink).quotas.length < fuel := by
          have := wp.fuel; simp only at this ⊢; omega
        obtain ⟨h1, h2, h3, h4⟩ := ih _ u hi' hu hfuel'
        refine ⟨?_, h2, h3.trans wp.ver, h4.trans wp.method⟩
        rw [h1]
        have := wp.sem
        simp only [Sink.core] at this ⊢
        rw [← this, wp.ver, wp.method]

theorem offer_spec (s : Sink) (seg : Bytes) (hi : Inv s) :
    (offer s seg).core = D s.ver s.method s.core seg ∧ Inv (offer s seg) ∧
      (offer s seg).ver = s.ver ∧ (offer s seg).method = s.method := by
  unfold offer
  cases seg with
  | nil => simp [D_nil, hi]
  | cons x r =>
    simp only [List.isEmpty_cons, Bool.false_eq_true, if_false]
    exact offerLoop_spec _ s (x :: r) hi (by simp) (by omega)

/-- **segmentation does not matter**: feeding the segments one after the other is parsing their concatenation -/
theorem feed_spec : ∀ (segs : List Bytes) (s : Sink), Inv s →
    (feed s segs).core = D s.ver s.method s.core segs.flatten ∧ Inv (feed s segs) ∧
      (feed s segs).ver = s.ver ∧ (feed s segs).method = s.method := by
  intro segs
  induction segs with
  | nil => intro s hi; simp [feed, D_nil, hi]
  | cons seg segs ih =>
    intro s hi
    obtain ⟨h1, h2, h3, h4⟩ := offer_spec s seg hi
    obtain ⟨g1, g2, g3, g4⟩ := ih (offer s seg) h2
    simp only [feed, List.foldl_cons, List.flatten_cons] at g1 g2 g3 g4 ⊢
    refine ⟨?_, g2, g3.trans h3, g4.trans h4⟩
    rw [g1, h1, h3, h4]
    exact D_append _ _ _ _ _ _ (Nat.le_refl _) hi.ci

theorem Inv_init (ver : Ver) (method : Bytes) (quotas : List Nat) : Inv (Sink.init ver method quotas) :=
  ⟨rfl, by simp [Sink.init, Sink.core, CI, headEnd], by simp [Sink.init]⟩

def Core.init : Core := ⟨.waitingResponse [], {}⟩

theorem runSink_core (ver : Ver) (method : Bytes) (quotas : List Nat) (segs : List Bytes) :
    (feed (Sink.init ver method quotas) segs).core = D ver method Core.init segs.flatten ∧
      Inv (feed (Sink.init ver method quotas) segs) :=
  ⟨(feed_spec segs _ (Inv_init ver method quotas)).1, (feed_spec segs _ (Inv_init ver method quotas)).2.1⟩

/-- what the origin closing shows the client, from the parser state alone -/
def eofC (c : Core) : Client :=
  match c.phase with
  | .idle => c.client
  | .waitingResponse _ => { c.client with bad := true }
  | _ => cEof c.client

theorem eof_client (s : Sink) (hi : Inv s) : s.eof.client = eofC s.core := by
  unfold Sink.eof
  by_cases hf : s.failed = true
  · have := hi.dead hf
    simp [hf, eofC, Sink.core, this]
  · rw [if_neg hf]
    cases hp : s.phase <;> simp [eofC, Sink.core, hp, clientEof, cEof]

set_option linter.unusedSimpArgs false

theorem stepU_body (ver : Ver) (method : Bytes) (c : Core) (d : Bytes) :
    c.client.body <+: (stepU ver method c d).1.client.body := by
  obtain ⟨phase, cl⟩ := c
  cases phase with
  | idle => simp [stepU]
  | waitingResponse buf =>
    simp only [stepU]
    split
    · simp
    · split
      · simp
      · split
        · simp
        · split
          · split <;> simp
          · simp
  | nonEncoded len sent =>
    cases len <;> simp only [stepU]
    · simp
    · split
      · simp
      · simp only; split <;> simp [cEof]
  | chunkPrefix buf =>
    simp only [stepU]
    split <;> simp
  | chunkBody r => simp [stepU]
  | chunkSuffix buf t =>
    simp only [stepU]
    split
    · simp
    · split
      · simp
      · split <;> simp [cEof]

theorem D_body (ver : Ver) (method : Bytes) : ∀ (n : Nat) (c : Core) (d : Bytes), d.length ≤ n → CI c →
    c.client.body <+: (D ver method c d).client.body := by
  intro n
  induction n with
  | zero => intro c d hd h; cases d with
    | nil => rw [D_nil]; exact List.prefix_refl _
    | cons _ _ => simp at hd
  | succ n ih =>
    intro c d hd h
    by_cases hd' : d = []
    · subst hd'; rw [D_nil]; exact List.prefix_refl _
    · rw [D_step _ _ _ _ h hd']
      have := stepU_shrink ver method c d h hd'
      exact (stepU_body ver method c d).trans (ih _ _ (by omega) (stepU_CI _ _ _ _ h))

theorem feed_body (s : Sink) (hi : Inv s) (more : List Bytes) :
    s.client.body <+: (feed s more).client.body := by
  have h := (feed_spec more s hi).1
  have h2 := D_body s.ver s.method _ s.core more.flatten (Nat.le_refl _) hi.ci
  rw [← h] at h2
  exact h2

set_option linter.unusedSimpArgs false

/-! ## the encoders parse back -/

theorem hexDigitVal_enc : ∀ d, d < 16 → hexDigitVal (if d < 10 then 48 + d else 87 + d) = some d := by
  decide

theorem hexDigits_parse : ∀ (fuel m n : Nat), n < 16 ^ m → 1 ≤ m → m ≤ fuel →
    ∃ len, 1 ≤ len ∧ len ≤ m ∧ (hexDigits fuel n).length = len ∧
      ∀ (k sz pos : Nat) (tail : Bytes), k + len ≤ 16 →
        chunkDigits k sz pos (hexDigits fuel n ++ tail) = chunkDigits (k + len) (sz * 16 ^ len + n) (pos + len) tail := by
  intro fuel
  induction fuel with
  | zero => intro m n _ h1 h2; omega
  | succ fuel ih =>
    intro m n hn h1 h2
    have hd : n % 16 < 16 := Nat.mod_lt _ (by omega)
    have hv := hexDigitVal_enc _ hd
    by_cases hq : n / 16 = 0
    · refine ⟨1, by omega, h1, by simp [hexDigits, hq], ?_⟩
      intro k sz pos tail hk
      have hk' : ¬ k ≥ 16 := by omega
      have e : sz * 16 ^ 1 + n = sz * 16 + n % 16 := by omega
      rw [e]
      simp only [hexDigits, hq, beq_self_eq_true, if_true, List.singleton_append, chunkDigits_cons, hv, hk', if_false]
    · have hm : 2 ≤ m := by
        rcases Nat.lt_or_ge m 2 with h | h
        · have : m = 1 := by omega
          subst this; simp at hn; omega
        · exact h
      have hn' : n / 16 < 16 ^ (m - 1) := by
        rw [Nat.div_lt_iff_lt_mul (by omega), ← Nat.pow_succ]
        have : m - 1 + 1 = m := by omega
        show n < 16 ^ (m - 1 + 1)
        rwa [this]
      obtain ⟨len, hl1, hl2, hl3, hl4⟩ := ih (m - 1) (n / 16) hn' (by omega) (by omega)
      refine ⟨len + 1, by omega, by omega, by simp [hexDigits, hq, hl3], ?_⟩
      intro k sz pos tail hk
      have hk' : ¬ k + len ≥ 16 := by omega
      have hq' : (n / 16 == 0) = false := by simpa using hq
      simp only [hexDigits, hq', Bool.false_eq_true, if_false, List.append_assoc, List.singleton_append]
      rw [hl4 k sz pos _ (by omega), chunkDigits_cons]
      simp only [hv, hk', if_false]
      have e : (sz * 16 ^ len + n / 16) * 16 + n % 16 = sz * 16 ^ (len + 1) + n := by
        rw [Nat.pow_succ, ← Nat.mul_assoc]
        generalize sz * 16 ^ len = Y
        omega
      rw [e, Nat.add_assoc, Nat.add_assoc]

theorem chunkLineRest_ext (size : Nat) : ∀ (ext : Bytes) (pos : Nat) (rest : Bytes), 13 ∉ ext →
    chunkLineRest size pos true (ext ++ 13 :: 10 :: rest) = .complete (pos + ext.length + 2) size := by
  intro ext
  induction ext with
  | nil => intro pos rest _; simp [chunkLineRest]
  | cons c r ih =>
    intro pos rest h
    simp only [List.mem_cons, not_or] at h
    have hc : ¬ (c == 13) = true := by simpa using fun e => h.1 e.symm
    rw [List.cons_append, chunkLineRest_cons_ne _ _ _ _ _ hc]
    simp only [if_true]
    rw [ih _ _ h.2]
    simp; omega

/-- the size line of `encodeChunk` -/
def chunkLine (n : Nat) (ext : Bytes) : Bytes :=
  toHexBytes n ++ (if ext.isEmpty then [] else 59 :: ext) ++ [13, 10]

theorem parseChunkSize_chunkLine (n : Nat) (ext rest : Bytes) (hn : n < 16 ^ 16) (he : 13 ∉ ext) :
    parseChunkSize (chunkLine n ext ++ rest) = .complete (chunkLine n ext).length n := by
  obtain ⟨len, hl1, hl2, hl3, hl4⟩ := hexDigits_parse 17 16 n hn (by omega) (by omega)
  unfold parseChunkSize chunkLine toHexBytes
  simp only [List.append_assoc]
  rw [hl4 0 0 0 _ (by omega)]
  simp only [Nat.zero_mul, Nat.zero_add, List.length_append, hl3]
  have hk : (len == 0) = false := by simpa using (by omega : len ≠ 0)
  cases ext with
  | nil =>
    simp [chunkDigits_cons, hexDigitVal, hk, chunkLineRest]
  | cons e es =>
    simp only [List.isEmpty_cons, Bool.false_eq_true, if_false, List.cons_append, chunkDigits_cons]
    have h59 : hexDigitVal 59 = none := by decide
    simp only [h59, hk, Bool.false_eq_true, if_false]
    rw [chunkLineRest_cons_ne _ _ _ _ _ (by decide)]
    simp only [Bool.false_eq_true, if_false, beq_self_eq_true, if_true]
    have := chunkLineRest_ext n (e :: es) (len + 1) rest he
    simp only [List.cons_append] at this
    simp only [List.singleton_append, List.cons_append, List.nil_append]
    rw [this]
    simp; omega

set_option linter.unusedSimpArgs false

/-! ## what the unthrottled parser does with well-formed streams -/

def phaseOf : Option BodyLen → Phase
  | some .chunked => .chunkPrefix []
  | some (.determined n) => .nonEncoded (some n) 0
  | none => .nonEncoded none 0

theorem D_head (ver : Ver) (method : Bytes) (cl : Client) (hb rest : Bytes) (h : Head)
    (kept : List (Bytes × Bytes)) (bl : Option BodyLen)
    (he : headEnd hb = some hb.length) (hp : parseHeadBytes hb = some h)
    (hc : convertResponse ver method h = some (kept, bl)) (hf : ¬ (100 ≤ h.status ∧ h.status < 200)) :
    D ver method ⟨.waitingResponse [], cl⟩ (hb ++ rest) =
      D ver method ⟨phaseOf bl, { cl with head := some (h.status, bl == some (.determined 0), kept) }⟩ rest := by
  have hl := (headEnd_le _ _ he).2
  have hne : hb ++ rest ≠ [] := by
    intro h0; have := congrArg List.length h0; rw [List.length_append, List.length_nil] at this; omega
  rw [D_step _ _ _ _ (by simp [CI, headEnd]) hne]
  have h1 := headEnd_append_some hb rest _ he
  simp only [stepU, List.nil_append, h1, List.take_left', List.drop_left', hp, hc, hf, if_false]
  rcases bl with _ | _ | _ <;> rfl

theorem D_interim (ver : Ver) (method : Bytes) (cl : Client) (ib rest : Bytes) (h : Head)
    (he : headEnd ib = some ib.length) (hp : parseHeadBytes ib = some h)
    (hc : (convertResponse ver method h).isSome) (hf : 100 ≤ h.status ∧ h.status < 200) :
    D ver method ⟨.waitingResponse [], cl⟩ (ib ++ rest) =
      D ver method ⟨.waitingResponse [],
        if ver.isH1 then { cl with interims := cl.interims ++ [h.status] } else cl⟩ rest := by
  have hl := (headEnd_le _ _ he).2
  have hne : ib ++ rest ≠ [] := by
    intro h0; have := congrArg List.length h0; rw [List.length_append, List.length_nil] at this; omega
  rw [D_step _ _ _ _ (by simp [CI, headEnd]) hne]
  have h1 := headEnd_append_some ib rest _ he
  obtain ⟨⟨kept, bl⟩, hc'⟩ := Option.isSome_iff_exists.mp hc
  simp only [stepU, List.nil_append, h1, List.take_left', List.drop_left', hp, hc', hf, and_self, if_true]

theorem D_nonEncodedNone (ver : Ver) (method : Bytes) (cl : Client) (sent : Nat) (body : Bytes) :
    D ver method ⟨.nonEncoded none sent, cl⟩ body =
      ⟨.nonEncoded none (sent + body.length), { cl with body := cl.body ++ body }⟩ := by
  by_cases hb : body = []
  · subst hb; simp [D_nil]
  · rw [D_step _ _ _ _ (by simp [CI]) hb]
    simp [stepU, D_nil]

theorem D_nonEncodedSome (ver : Ver) (method : Bytes) (cl : Client) (n : Nat) (body : Bytes)
    (hn : 0 < n) (hl : body.length ≤ n) :
    D ver method ⟨.nonEncoded (some n) 0, cl⟩ body =
      ⟨.nonEncoded (some n) body.length,
        if body.length = n then cEof { cl with body := cl.body ++ body } else { cl with body := cl.body ++ body }⟩ := by
  by_cases hb : body = []
  · subst hb
    have : ¬ 0 = n := by omega
    simp [D_nil, this]
  · rw [D_step _ _ _ _ (by simp [CI]) hb]
    have h0 : ¬ n ≤ 0 := by omega
    have h1 : min body.length n = body.length := by omega
    simp [stepU, D_nil, h0, h1]

theorem D_chunk (ver : Ver) (method : Bytes) (cl : Client) (ext payload rest : Bytes)
    (hp : payload ≠ []) (hl : payload.length < 16 ^ 16) (he : 13 ∉ ext) :
    D ver method ⟨.chunkPrefix [], cl⟩ (encodeChunk ext payload ++ rest) =
      D ver method ⟨.chunkPrefix [], { cl with body := cl.body ++ payload }⟩ rest := by
  have hpl : 0 < payload.length := List.length_pos_iff.mpr hp
  have henc : encodeChunk ext payload ++ rest = chunkLine payload.length ext ++ (payload ++ 13 :: 10 :: rest) := by
    simp [encodeChunk, chunkLine]
  have hps := parseChunkSize_chunkLine payload.length ext (payload ++ 13 :: 10 :: rest) hl he
  have hne : chunkLine payload.length ext ++ (payload ++ 13 :: 10 :: rest) ≠ [] := by
    simp [hp]
  rw [henc, D_step _ _ _ _ (by simp [CI, parseChunkSize, chunkDigits]) hne]
  have hs0 : ¬ payload.length = 0 := by omega
  simp only [stepU, List.nil_append, hps, List.drop_left', hs0, if_false]
  rw [D_step _ _ _ _ (by simp [CI]; omega) (by simp [hp])]
  have h1 : min (payload ++ 13 :: 10 :: rest).length payload.length = payload.length := by
    simp
  simp only [stepU, h1, Nat.sub_self, Nat.lt_irrefl, gt_iff_lt, if_false, List.take_left', List.drop_left']
  rw [D_step _ _ _ _ (by simp [CI]) (by simp)]
  simp [stepU]

theorem D_lastChunk (ver : Ver) (method : Bytes) (cl : Client) :
    D ver method ⟨.chunkPrefix [], cl⟩ (str "0\r\n\r\n") = ⟨.idle, cEof cl⟩ := by
  have : str "0\r\n\r\n" = [48, 13, 10, 13, 10] := by decide
  rw [this, D_step _ _ _ _ (by simp [CI, parseChunkSize, chunkDigits]) (by simp)]
  have hp : parseChunkSize [48, 13, 10, 13, 10] = .complete 3 0 := by decide
  simp only [stepU, List.nil_append, hp, if_true]
  rw [D_step _ _ _ _ (by simp [CI]) (by simp)]
  simp [stepU, D_nil]

theorem D_chunked (ver : Ver) (method : Bytes) : ∀ (chunks : List (Bytes × Bytes)) (cl : Client),
    (∀ c ∈ chunks, c.2 ≠ [] ∧ c.2.length < 16 ^ 16 ∧ 13 ∉ c.1) →
    D ver method ⟨.chunkPrefix [], cl⟩ (encodeChunked chunks) =
      ⟨.idle, cEof { cl with body := cl.body ++ (chunks.map (·.2)).flatten }⟩ := by
  intro chunks
  induction chunks with
  | nil => intro cl _; simp [encodeChunked, D_lastChunk]
  | cons c cs ih =>
    intro cl h
    have hc := h c (by simp)
    have : encodeChunked (c :: cs) = encodeChunk c.1 c.2 ++ encodeChunked cs := by
      simp [encodeChunked]
    rw [this, D_chunk _ _ _ _ _ _ hc.1 hc.2.1 hc.2.2, ih _ (fun x hx => h x (by simp [hx]))]
    simp

set_option linter.unusedSimpArgs false

/-! ## interim responses already sent do not influence what follows -/

def addI (x : List Nat) (c : Core) : Core := ⟨c.phase, { c.client with interims := x ++ c.client.interims }⟩

theorem stepU_addI (ver : Ver) (method : Bytes) (x : List Nat) (c : Core) (d : Bytes) :
    stepU ver method (addI x c) d = (addI x (stepU ver method c d).1, (stepU ver method c d).2) := by
  obtain ⟨phase, cl⟩ := c
  cases phase with
  | idle => simp [stepU, addI]
  | waitingResponse buf =>
    simp only [stepU, addI]
    split
    · simp
    · split
      · simp
      · split
        · simp
        · split
          · split <;> simp
          · simp
  | nonEncoded len sent =>
    cases len <;> simp only [stepU, addI]
    · split
      · simp
      · simp only; split <;> simp [cEof]
  | chunkPrefix buf =>
    simp only [stepU, addI]
    split <;> simp
  | chunkBody r => simp [stepU, addI]
  | chunkSuffix buf t =>
    simp only [stepU, addI]
    split
    · simp
    · split
      · simp
      · split <;> simp [cEof]

theorem D_addI (ver : Ver) (method : Bytes) (x : List Nat) : ∀ (n : Nat) (c : Core) (d : Bytes), d.length ≤ n → CI c →
    D ver method (addI x c) d = addI x (D ver method c d) := by
  intro n
  induction n with
  | zero => intro c d hd h; cases d with
    | nil => simp [D_nil]
    | cons _ _ => simp at hd
  | succ n ih =>
    intro c d hd h
    by_cases hd' : d = []
    · subst hd'; simp [D_nil]
    · have h' : CI (addI x c) := h
      rw [D_step _ _ _ _ h hd', D_step _ _ _ _ h' hd', stepU_addI]
      have := stepU_shrink ver method c d h hd'
      simp only
      exact ih _ _ (by omega) (stepU_CI _ _ _ _ h)

set_option linter.unusedSimpArgs false

/-! ## `convert_response` header by header -/

theorem convHeader_kept (ver : Ver) (c : Conv) (h : Bytes × Bytes) :
    (convHeader ver c h).kept = c.kept ∨
    ((convHeader ver c h).kept = c.kept ++ [h] ∧ h.1 ∉ c.drop ∧ h.1 ≠ str "connection" ∧
      (ver.isH1 = false → h.1 ≠ str "transfer-encoding")) := by
  obtain ⟨n, v⟩ := h
  simp only [convHeader]
  split
  · left; rfl
  · rename_i hd
    split
    · left; rfl
    · rename_i hcn
      split
      · left; rfl
      · rename_i hte
        have hd' : n ∉ c.drop := by simpa using hd
        have hcn' : n ≠ str "connection" := by simpa using hcn
        have hte' : ver.isH1 = false → n ≠ str "transfer-encoding" := by
          intro h1 h2; apply hte; simp [h1, h2]
        split
        · split
          · right; exact ⟨rfl, hd', hcn', hte'⟩
          · left; rfl
        · right; exact ⟨rfl, hd', hcn', hte'⟩

theorem convHeader_drop (ver : Ver) (c : Conv) (h : Bytes × Bytes) :
    ∀ y ∈ c.drop, y ∈ (convHeader ver c h).drop := by
  obtain ⟨n, v⟩ := h
  intro y hy
  simp only [convHeader]
  split
  · exact hy
  · split
    · simp [hy]
    · split
      · simp [hy]
      · split
        · split <;> exact hy
        · exact hy

theorem convFold_kept_sublist (ver : Ver) : ∀ (l : List (Bytes × Bytes)) (c : Conv),
    ∃ k, (l.foldl (convHeader ver) c).kept = c.kept ++ k ∧ k.Sublist l := by
  intro l
  induction l with
  | nil => intro c; exact ⟨[], by simp⟩
  | cons h t ih =>
    intro c
    obtain ⟨k, hk1, hk2⟩ := ih (convHeader ver c h)
    rw [List.foldl_cons, hk1]
    rcases convHeader_kept ver c h with h1 | ⟨h1, _⟩
    · exact ⟨k, by rw [h1], hk2.cons _⟩
    · exact ⟨h :: k, by rw [h1]; simp, hk2.cons_cons _⟩

/-- what never gets into `kept` -/
def KeptOk (ver : Ver) (c : Conv) : Prop :=
  (str "proxy-connection" ∈ c.drop ∧ str "keep-alive" ∈ c.drop ∧ str "upgrade" ∈ c.drop) ∧
  ∀ x ∈ c.kept, x.1 ≠ str "connection" ∧ x.1 ≠ str "proxy-connection" ∧ x.1 ≠ str "keep-alive" ∧
    x.1 ≠ str "upgrade" ∧ (ver.isH1 = false → x.1 ≠ str "transfer-encoding")

theorem convFold_keptOk (ver : Ver) : ∀ (l : List (Bytes × Bytes)) (c : Conv), KeptOk ver c →
    KeptOk ver (l.foldl (convHeader ver) c) := by
  intro l
  induction l with
  | nil => intro c h; exact h
  | cons h t ih =>
    intro c hc
    rw [List.foldl_cons]
    apply ih
    obtain ⟨⟨d1, d2, d3⟩, hk⟩ := hc
    refine ⟨⟨convHeader_drop _ _ _ _ d1, convHeader_drop _ _ _ _ d2, convHeader_drop _ _ _ _ d3⟩, ?_⟩
    rcases convHeader_kept ver c h with h1 | ⟨h1, h2, h3, h4⟩
    · rw [h1]; exact hk
    · rw [h1]
      intro x hx
      rcases List.mem_append.mp hx with hx | hx
      · exact hk x hx
      · simp only [List.mem_singleton] at hx
        subst hx
        refine ⟨h3, ?_, ?_, ?_, h4⟩
        · intro e; rw [e] at h2; exact h2 d1
        · intro e; rw [e] at h2; exact h2 d2
        · intro e; rw [e] at h2; exact h2 d3

theorem convHeader_kept_mono (ver : Ver) (c : Conv) (h x : Bytes × Bytes) (hx : x ∈ c.kept) :
    x ∈ (convHeader ver c h).kept := by
  rcases convHeader_kept ver c h with h1 | ⟨h1, _⟩ <;> rw [h1]
  · exact hx
  · exact List.mem_append_left _ hx

theorem convHeader_notDropped (ver : Ver) (c : Conv) (h : Bytes × Bytes) (n : Bytes)
    (hn : n ∉ c.drop) (h2 : n ≠ str "transfer-encoding") (h3 : n ≠ str "content-length")
    (h4 : h.1 = str "connection" → n ∉ connectionTokens h.2) :
    n ∉ (convHeader ver c h).drop := by
  obtain ⟨m, v⟩ := h
  simp only [convHeader]
  split
  · exact hn
  · split
    · rename_i hc
      have : m = str "connection" := by simpa using hc
      simp only [List.mem_append, not_or]
      exact ⟨hn, h4 this⟩
    · split
      · simp [hn, h2, h3]
      · split
        · split <;> exact hn
        · exact hn

theorem convHeader_keeps (ver : Ver) (c : Conv) (x : Bytes × Bytes)
    (hn : x.1 ∉ c.drop) (h1 : x.1 ≠ str "connection") (h2 : x.1 ≠ str "transfer-encoding")
    (h3 : x.1 ≠ str "content-length") :
    x ∈ (convHeader ver c x).kept := by
  obtain ⟨m, v⟩ := x
  simp only at hn h1 h2 h3
  simp [convHeader, hn, h1, h2, h3]

theorem convFold_keeps (ver : Ver) (x : Bytes × Bytes) (h1 : x.1 ≠ str "connection")
    (h2 : x.1 ≠ str "transfer-encoding") (h3 : x.1 ≠ str "content-length") :
    ∀ (l : List (Bytes × Bytes)) (c : Conv), x.1 ∉ c.drop →
      (∀ h ∈ l, h.1 = str "connection" → x.1 ∉ connectionTokens h.2) →
      (x ∈ c.kept ∨ x ∈ l) → x ∈ (l.foldl (convHeader ver) c).kept := by
  intro l
  induction l with
  | nil => intro c _ _ hx; simpa using hx
  | cons h t ih =>
    intro c hd h4 hx
    rw [List.foldl_cons]
    have hd' := convHeader_notDropped ver c h x.1 hd h2 h3 (h4 h (by simp))
    apply ih _ hd' (fun y hy => h4 y (by simp [hy]))
    rcases hx with hx | hx
    · left; exact convHeader_kept_mono ver c h x hx
    · rcases List.mem_cons.mp hx with rfl | hx
      · left; exact convHeader_keeps ver c x hd h1 h2 h3
      · right; exact hx

/-- names that are in the drop set from the start never get into `kept` -/
theorem convFold_dropped (ver : Ver) (D : List Bytes) : ∀ (l : List (Bytes × Bytes)) (c : Conv),
    (∀ n ∈ D, n ∈ c.drop) → (∀ x ∈ c.kept, x.1 ∉ D) →
    ∀ x ∈ (l.foldl (convHeader ver) c).kept, x.1 ∉ D := by
  intro l
  induction l with
  | nil => intro c _ hk; exact hk
  | cons h t ih =>
    intro c hd hk
    rw [List.foldl_cons]
    apply ih
    · intro n hn; exact convHeader_drop ver c h n (hd n hn)
    · rcases convHeader_kept ver c h with h1 | ⟨h1, h2, _, _⟩
      · rw [h1]; exact hk
      · rw [h1]
        intro x hx
        rcases List.mem_append.mp hx with hx | hx
        · exact hk x hx
        · simp only [List.mem_singleton] at hx
          subst hx
          intro hD
          exact h2 (hd _ hD)

theorem mem_connInit_drop (hs : List (Bytes × Bytes)) (c : Bytes × Bytes) (hc : c ∈ hs) (hn : c.1 = str "connection")
    (n : Bytes) (ht : n ∈ connectionTokens c.2) : n ∈ (connInit hs).drop := by
  simp only [connInit, List.mem_append, List.mem_flatten, List.mem_map, List.mem_filter]
  right
  exact ⟨connectionTokens c.2, ⟨c, ⟨hc, by simp [hn]⟩, rfl⟩, ht⟩

theorem convertResponse_kept (ver : Ver) (method : Bytes) (h : Head) (kept : List (Bytes × Bytes))
    (bl : Option BodyLen) (hc : convertResponse ver method h = some (kept, bl)) :
    kept = (h.headers.foldl (convHeader ver) (connInit h.headers)).kept := by
  unfold convertResponse at hc
  simp only at hc
  split at hc
  · simp at hc
  · simp only [Option.some.injEq, Prod.mk.injEq] at hc
    exact hc.1.symm

set_option linter.unusedSimpArgs false

/-! ## `serialize_request` header by header -/

def keepReq (h : Bytes × Bytes) : Bool := h.1 != str "proxy-authorization" && h.1 != str "proxy-connection"

def reqLine (authority : Bytes) (h : Bytes × Bytes) : Bytes :=
  if h.1 == str "host" then str "host: " ++ authority ++ [13, 10] else h.1 ++ str ": " ++ h.2 ++ [13, 10]

theorem serHeader_refused (a : Bytes) (s : Ser) (h : Bytes × Bytes) (hr : s.refused = true) :
    (serHeader a s h).refused = true := by
  obtain ⟨n, v⟩ := h
  simp only [serHeader]
  split
  · exact hr
  · split
    · split <;> simp [hr]
    · simp only
      split
      · split
        · split <;> simp [hr]
        · simp
        · exact hr
      · split <;> simp [hr]

theorem serFold_refused (a : Bytes) : ∀ (l : List (Bytes × Bytes)) (s : Ser), s.refused = true →
    (l.foldl (serHeader a) s).refused = true := by
  intro l
  induction l with
  | nil => intro s h; exact h
  | cons h t ih => intro s hs; exact ih _ (serHeader_refused a s h hs)

theorem serHeader_step (a : Bytes) (s : Ser) (h : Bytes × Bytes) (hr : (serHeader a s h).refused = false) :
    if keepReq h then
      (serHeader a s h).out = s.out ++ reqLine a h ∧
      (serHeader a s h).hostInserted = (s.hostInserted || h.1 == str "host")
    else serHeader a s h = s := by
  obtain ⟨n, v⟩ := h
  by_cases hk : n == str "proxy-authorization" || n == str "proxy-connection"
  · have : keepReq (n, v) = false := by
      simp only [keepReq, bne, ← Bool.not_or, hk, Bool.not_true]
    simp [this, serHeader, hk]
  · have hk' : keepReq (n, v) = true := by
      simp only [keepReq, bne, ← Bool.not_or]
      simpa using hk
    rw [if_pos hk']
    by_cases hh : n == str "host"
    · have hne : s.hostInserted = false := by
        cases hi : s.hostInserted
        · rfl
        · simp [serHeader, hk, hh, hi] at hr
      simp [serHeader, hk, hh, hne, reqLine]
    · simp only [serHeader, hk, hh, reqLine, Bool.false_eq_true, if_false, Bool.or_false]
      constructor
      · simp only [List.append_assoc, List.append_cancel_right_eq]
        split
        · split
          · split <;> rfl
          · rfl
          · rfl
        · split <;> rfl
      · split
        · split
          · split <;> rfl
          · rfl
          · rfl
        · split <;> rfl

theorem serFold_out (a : Bytes) : ∀ (l : List (Bytes × Bytes)) (s : Ser),
    (l.foldl (serHeader a) s).refused = false →
    (l.foldl (serHeader a) s).out = s.out ++ ((l.filter keepReq).map (reqLine a)).flatten ∧
    (l.foldl (serHeader a) s).hostInserted = (s.hostInserted || (l.filter keepReq).any (·.1 == str "host")) := by
  intro l
  induction l with
  | nil => intro s _; simp
  | cons h t ih =>
    intro s hr
    rw [List.foldl_cons] at hr ⊢
    have hr' : (serHeader a s h).refused = false := by
      cases hx : (serHeader a s h).refused
      · rfl
      · rw [serFold_refused a t _ hx] at hr; exact absurd hr (by simp)
    obtain ⟨i1, i2⟩ := ih _ hr
    have hs := serHeader_step a s h hr'
    by_cases hk : keepReq h = true
    · rw [if_pos hk] at hs
      rw [i1, i2, hs.1, hs.2]
      simp [List.filter_cons, hk, Bool.or_assoc]
    · rw [if_neg hk] at hs
      rw [i1, i2, hs]
      simp [List.filter_cons, hk]

theorem serializeRequest_bytes (r : Request) (bytes : Bytes) (bl : BodyLen) (h : serializeRequest r = .ok bytes bl) :
    (r.headers.foldl (serHeader r.authority) {}).refused = false ∧
    bytes = r.method ++ [32] ++ (if r.method = str "OPTIONS" then str "*" else r.target) ++ str " HTTP/" ++
      versionDigits r.ver ++ [13, 10] ++ (r.headers.foldl (serHeader r.authority) {}).out ++
      (if (r.headers.foldl (serHeader r.authority) {}).hostInserted then [] else str "host: " ++ r.authority ++ [13, 10]) ++
      [13, 10] ∧
    bl = ((if isHead r.method then some (.determined 0)
            else match (r.headers.foldl (serHeader r.authority) {}).bodyLen with
              | some b => some b
              | none => if r.ver.isH1 then none else some .chunked).getD (.determined 0)) := by
  unfold serializeRequest at h
  simp only at h
  split at h
  · simp at h
  · rename_i hr
    simp only [SerRes.ok.injEq] at h
    refine ⟨by simpa using hr, ?_, h.2.symm⟩
    rw [← h.1]
    simp only [beq_iff_eq]

set_option linter.unusedSimpArgs false

theorem reqLine_crlf (a : Bytes) (h : Bytes × Bytes) : ∃ q, reqLine a h = q ++ [13, 10] := by
  unfold reqLine
  split
  · exact ⟨str "host: " ++ a, by simp⟩
  · exact ⟨h.1 ++ str ": " ++ h.2, by simp⟩

theorem reqLines_crlf (a : Bytes) (l : List (Bytes × Bytes)) :
    (l.map (reqLine a)).flatten = [] ∨ ∃ p, (l.map (reqLine a)).flatten = p ++ [13, 10] := by
  rcases List.eq_nil_or_concat l with rfl | ⟨l', x, rfl⟩
  · left; rfl
  · right
    obtain ⟨q, hq⟩ := reqLine_crlf a x
    exact ⟨(l'.map (reqLine a)).flatten ++ q, by simp [hq]⟩

theorem serializeRequest_crlf (r : Request) (bytes : Bytes) (bl : BodyLen) (h : serializeRequest r = .ok bytes bl) :
    ∃ p, bytes = p ++ [13, 10, 13, 10] := by
  obtain ⟨hr, hb, _⟩ := serializeRequest_bytes r bytes bl h
  obtain ⟨o1, _⟩ := serFold_out r.authority r.headers {} hr
  generalize (r.method ++ [32] ++ (if r.method = str "OPTIONS" then str "*" else r.target) ++ str " HTTP/" ++
    versionDigits r.ver) = L at hb
  have o1' : (r.headers.foldl (serHeader r.authority) {}).out =
      ((r.headers.filter keepReq).map (reqLine r.authority)).flatten := by rw [o1]; rfl
  rw [o1'] at hb
  cases hhi : (r.headers.foldl (serHeader r.authority) {}).hostInserted
  · refine ⟨L ++ [13, 10] ++ ((r.headers.filter keepReq).map (reqLine r.authority)).flatten ++ str "host: " ++ r.authority, ?_⟩
    rw [hb, hhi]; simp
  · rw [hhi] at hb
    rcases reqLines_crlf r.authority (r.headers.filter keepReq) with h0 | ⟨p, hp⟩
    · rw [h0] at hb; exact ⟨L, by rw [hb]; simp⟩
    · rw [hp] at hb; exact ⟨L ++ [13, 10] ++ p, by rw [hb]; simp⟩

theorem forwardBody_determined (n : Nat) : ∀ (chunks : List Bytes) (sent : Nat),
    forwardBody (.determined n) sent chunks = chunks.flatten.take (n - sent) := by
  intro chunks
  induction chunks with
  | nil => intro sent; simp [forwardBody]
  | cons c rest ih =>
    intro sent
    simp only [forwardBody]
    split
    · rw [ih, List.flatten_cons, List.take_append]
      congr 1
      · rw [List.take_eq_take_iff]; omega
      · congr 1; omega
    · have : n - sent = 0 := by omega
      simp [this]

/-- how `serHeader` moves the body length, when it does not refuse and sees no chunked `Transfer-Encoding` -/
theorem serHeader_bodyLen (a : Bytes) (s : Ser) (h : Bytes × Bytes) (hr : (serHeader a s h).refused = false)
    (hte : h.1 = str "transfer-encoding" → h.2 ≠ str "chunked") :
    if h.1 = str "content-length" then
      (s.bodyLen = none ∧ ∃ k, parseDec h.2 = some k ∧ (serHeader a s h).bodyLen = some (.determined k)) ∨
      (s.bodyLen = some .chunked ∧ (serHeader a s h).bodyLen = some .chunked)
    else (serHeader a s h).bodyLen = s.bodyLen := by
  obtain ⟨n, v⟩ := h
  simp only at hte
  by_cases hcl : n = str "content-length"
  · rw [if_pos hcl]
    subst hcl
    have e1 : (str "content-length" == str "proxy-authorization" || str "content-length" == str "proxy-connection") = false := by decide
    have e2 : (str "content-length" == str "host") = false := by decide
    simp only [serHeader, e1, e2, Bool.false_eq_true, if_false, beq_self_eq_true, if_true] at hr ⊢
    cases hb : s.bodyLen with
    | none =>
      left
      refine ⟨rfl, ?_⟩
      simp only [hb] at hr ⊢
      cases hp : parseDec v with
      | none => simp [hp] at hr
      | some k => exact ⟨k, rfl, rfl⟩
    | some b =>
      cases b with
      | determined j => simp [hb] at hr
      | chunked => right; simp [hb]
  · rw [if_neg hcl]
    have hcl' : (n == str "content-length") = false := by simpa using hcl
    have hte' : (n == str "transfer-encoding" && v == str "chunked") = false := by
      cases h1 : (n == str "transfer-encoding")
      · rfl
      · have := hte (by simpa using h1); simpa using this
    simp only [serHeader, hcl', hte', Bool.false_eq_true, if_false]
    split
    · rfl
    · split
      · split <;> rfl
      · rfl

theorem serFold_bodyLen (a : Bytes) : ∀ (l : List (Bytes × Bytes)) (s : Ser),
    (l.foldl (serHeader a) s).refused = false →
    (∀ x ∈ l, x.1 = str "transfer-encoding" → x.2 ≠ str "chunked") →
    s.bodyLen ≠ some .chunked →
    (∀ j, s.bodyLen = some (.determined j) →
      (l.foldl (serHeader a) s).bodyLen = some (.determined j) ∧ ∀ x ∈ l, x.1 ≠ str "content-length") ∧
    (s.bodyLen = none → ∀ v k, (str "content-length", v) ∈ l → parseDec v = some k →
      (l.foldl (serHeader a) s).bodyLen = some (.determined k)) := by
  intro l
  induction l with
  | nil => intro s _ _ _; simp
  | cons h t ih =>
    intro s hr hte hnc
    rw [List.foldl_cons] at hr ⊢
    have hr' : (serHeader a s h).refused = false := by
      cases hx : (serHeader a s h).refused
      · rfl
      · rw [serFold_refused a t _ hx] at hr; exact absurd hr (by simp)
    have hstep := serHeader_bodyLen a s h hr' (hte h (by simp))
    have hte' : ∀ x ∈ t, x.1 = str "transfer-encoding" → x.2 ≠ str "chunked" := fun x hx => hte x (by simp [hx])
    by_cases hcl : h.1 = str "content-length"
    · rw [if_pos hcl] at hstep
      rcases hstep with ⟨hs0, k', hk', hs'⟩ | ⟨hs0, _⟩
      · have ih' := ih (serHeader a s h) hr hte' (by rw [hs']; simp)
        constructor
        · intro j hj; rw [hs0] at hj; simp at hj
        · intro _ v k hmem hk
          have hrest := (ih'.1 k' hs')
          rcases List.mem_cons.mp hmem with heq | hmem
          · have : h.2 = v := by rw [← heq]
            rw [this, hk] at hk'
            simp only [Option.some.injEq] at hk'
            rw [hk']; exact hrest.1
          · exact absurd rfl (hrest.2 _ hmem)
      · exact absurd hs0 hnc
    · rw [if_neg hcl] at hstep
      have ih' := ih (serHeader a s h) hr hte' (by rw [hstep]; exact hnc)
      constructor
      · intro j hj
        have := ih'.1 j (by rw [hstep]; exact hj)
        refine ⟨this.1, ?_⟩
        intro x hx
        rcases List.mem_cons.mp hx with rfl | hx
        · exact hcl
        · exact this.2 x hx
      · intro hn v k hmem hk
        rcases List.mem_cons.mp hmem with heq | hmem
        · exact absurd (by rw [← heq]) hcl
        · exact ih'.2 (by rw [hstep]; exact hn) v k hmem hk

theorem credit_fold (c : Credit) (acks : List Nat) :
    (acks.foldl Credit.consume c).released = c.released + (acks.sum - c.skip)
    ∧ (acks.foldl Credit.consume c).skip = c.skip - acks.sum := by
  induction acks generalizing c with
  | nil => simp
  | cons n ns ih =>
    obtain ⟨h1, h2⟩ := ih (c.consume n)
    simp only [List.foldl_cons, List.sum_cons]
    rw [h1, h2]
    simp only [Credit.consume]
    constructor <;> omega

end TT.Fwd
