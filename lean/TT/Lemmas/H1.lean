import TT.Model.H1
namespace TT.H1
open TT

theorem headCap_pos : 0 < headCap := by decide

/-! ### line reader -/

theorem splitLine_crlf (l rest : Bytes) (h : ∀ x ∈ l, x ≠ 13) :
    splitLine (l ++ 13 :: 10 :: rest) = some (l, rest) := by
  induction l with
  | nil => simp [splitLine]
  | cons a l ih =>
    have ha : a ≠ 13 := h a (by simp)
    have ih' := ih (fun x hx => h x (by simp [hx]))
    cases l with
    | nil => simp [splitLine]
    | cons b l' =>
      simp only [List.cons_append] at ih' ⊢
      rw [splitLine]
      simp [ha, ih']

theorem readLines_headers (headers : List (Bytes × Bytes)) (rest : Bytes)
    (hh : ∀ h ∈ headers, (∀ x ∈ h.1 ++ h.2, x ≠ 13) ∧ h.1 ≠ []) :
    readLines (headers.length + 1) (encodeHeaders headers ++ rest) =
      some (headers.map (fun h => h.1 ++ [58, 32] ++ h.2), rest) := by
  induction headers with
  | nil => simp [readLines, encodeHeaders, crlf, splitLine]
  | cons h hs ih =>
    obtain ⟨n, v⟩ := h
    have h1 := hh (n, v) (by simp)
    have ih' := ih (fun h hm => hh h (by simp [hm]))
    have e : encodeHeaders ((n, v) :: hs) ++ rest
        = (n ++ [58, 32] ++ v) ++ 13 :: 10 :: (encodeHeaders hs ++ rest) := by
      simp [encodeHeaders, crlf]
    have hl : ∀ x ∈ n ++ [58, 32] ++ v, x ≠ 13 := by
      intro x hx
      simp only [List.mem_append, List.mem_cons, List.not_mem_nil, or_false] at hx
      rcases hx with (hx | hx | hx) | hx
      · exact h1.1 x (by simp [hx])
      · omega
      · omega
      · exact h1.1 x (by simp [hx])
    rw [e, List.length_cons, readLines, splitLine_crlf _ _ hl]
    have hne : (n ++ [58, 32] ++ v).isEmpty = false := by
      cases n <;> simp
    simp only [hne, ih']
    simp

/-! ### head accumulation -/

theorem listen_request (p : Parser) (hp : PrefixConsistent p) (head payload : Bytes)
    (hh : p.parse head = .complete head.length) (hl : head.length ≤ headCap)
    (reads : List Bytes) (hne : ∀ r ∈ reads, r ≠ []) (buf : Bytes)
    (hs : buf ++ reads.flatten = head ++ payload) (hb : buf.length < head.length) :
    ∃ tail rest, listenWaiting p buf reads = .request head tail rest ∧
      tail ++ rest.flatten = payload := by
  induction reads generalizing buf with
  | nil =>
    simp at hs
    have := congrArg List.length hs
    simp at this; omega
  | cons r rs ih =>
    have hr : r ≠ [] := hne r (by simp)
    have hne' : ∀ r ∈ rs, r ≠ [] := fun x hx => hne x (by simp [hx])
    have hs' : (buf ++ r) ++ rs.flatten = head ++ payload := by
      simpa [List.append_assoc] using hs
    have hre : r.isEmpty = false := by cases r <;> simp_all
    rw [listenWaiting]
    simp only [hre, Bool.false_eq_true, if_false]
    by_cases hlt : (buf ++ r).length < head.length
    · have e : buf ++ r = head.take (buf ++ r).length := by
        have := congrArg (List.take (buf ++ r).length) hs'
        rw [List.take_left', List.take_append_of_le_length (by omega)] at this
        · exact this
        · rfl
      have hpi : p.parse (buf ++ r) = .incomplete := by
        rw [e]; exact (hp head head.length hh).2.2.2 _ hlt
      simp only [hpi]
      have : (buf ++ r).length < headCap := by omega
      simp only [this, if_true]
      exact ih hne' (buf ++ r) hs' hlt
    · have hge : head.length ≤ (buf ++ r).length := by omega
      have ht : (buf ++ r).take head.length = head := by
        have := congrArg (List.take head.length) hs'
        rw [List.take_append_of_le_length hge, List.take_left' rfl] at this
        exact this
      have hd : (buf ++ r).drop head.length ++ rs.flatten = payload := by
        have := congrArg (List.drop head.length) hs'
        rw [List.drop_append_of_le_length hge, List.drop_left' rfl] at this
        exact this
      have e : buf ++ r = head ++ (buf ++ r).drop head.length := by
        conv => lhs; rw [← List.take_append_drop head.length (buf ++ r), ht]
      have hpc : p.parse (buf ++ r) = .complete head.length := by
        rw [e]; exact (hp head head.length hh).2.2.1 _
      simp only [hpc]
      exact ⟨_, _, by rw [ht], hd⟩

theorem listen_starved (p : Parser) (hp : PrefixConsistent p) (head : Bytes)
    (hh : p.parse head = .complete head.length) (hl : head.length ≤ headCap)
    (n : Nat) (hn : n < head.length)
    (reads : List Bytes) (hne : ∀ r ∈ reads, r ≠ []) (buf : Bytes)
    (hs : buf ++ reads.flatten = head.take n) :
    listenWaiting p buf reads = .starved (head.take n) := by
  induction reads generalizing buf with
  | nil => simp at hs; simp [listenWaiting, hs]
  | cons r rs ih =>
    have hr : r ≠ [] := hne r (by simp)
    have hne' : ∀ r ∈ rs, r ≠ [] := fun x hx => hne x (by simp [hx])
    have hs' : (buf ++ r) ++ rs.flatten = head.take n := by
      simpa [List.append_assoc] using hs
    have hre : r.isEmpty = false := by cases r <;> simp_all
    rw [listenWaiting]
    simp only [hre, Bool.false_eq_true, if_false]
    have hlen : (buf ++ r).length ≤ n := by
      have := congrArg List.length hs'
      rw [List.length_append, List.length_take] at this
      omega
    have e : buf ++ r = head.take (buf ++ r).length := by
      have := congrArg (List.take (buf ++ r).length) hs'
      rw [List.take_left' rfl, List.take_take, Nat.min_eq_left hlen] at this
      exact this
    have hpi : p.parse (buf ++ r) = .incomplete := by
      rw [e]; exact (hp head head.length hh).2.2.2 _ (by omega)
    simp only [hpi]
    have : (buf ++ r).length < headCap := by omega
    simp only [this, if_true]
    exact ih hne' (buf ++ r) hs'

theorem listen_oversize (p : Parser) (whole : Bytes)
    (hpar : ∀ n, p.parse (whole.take n) = .incomplete) (hl : headCap ≤ whole.length)
    (reads : List Bytes) (hne : ∀ r ∈ reads, r ≠ []) (buf : Bytes)
    (hs : buf ++ reads.flatten = whole) (hb : buf.length < headCap) :
    listenWaiting p buf reads = .error := by
  induction reads generalizing buf with
  | nil => simp at hs; subst hs; omega
  | cons r rs ih =>
    have hr : r ≠ [] := hne r (by simp)
    have hne' : ∀ r ∈ rs, r ≠ [] := fun x hx => hne x (by simp [hx])
    have hs' : (buf ++ r) ++ rs.flatten = whole := by
      simpa [List.append_assoc] using hs
    have hre : r.isEmpty = false := by cases r <;> simp_all
    rw [listenWaiting]
    simp only [hre, Bool.false_eq_true, if_false]
    have e : buf ++ r = whole.take (buf ++ r).length := by
      rw [← hs', List.take_left' rfl]
    have hpi : p.parse (buf ++ r) = .incomplete := by
      rw [e]; exact hpar _
    simp only [hpi]
    by_cases hlt : (buf ++ r).length < headCap
    · simp only [hlt, if_true]
      exact ih hne' (buf ++ r) hs' hlt
    · simp only [hlt, if_false]

/-- reads that leave the codec waiting can be continued: the later reads are handled from the
buffer the earlier ones left -/
theorem listen_append_of_starved (p : Parser) (reads more : List Bytes) (buf b : Bytes)
    (h : listenWaiting p buf reads = .starved b) :
    listenWaiting p buf (reads ++ more) = listenWaiting p b more := by
  induction reads generalizing buf with
  | nil =>
    simp only [listenWaiting] at h
    injection h with h
    simp [h]
  | cons r rs ih =>
    rw [List.cons_append, listenWaiting]
    rw [listenWaiting] at h
    by_cases hre : r.isEmpty = true
    · simp [hre] at h
    · have hre' : r.isEmpty = false := by simpa using hre
      simp only [hre', Bool.false_eq_true, if_false] at h ⊢
      cases hpar : p.parse (buf ++ r) with
      | complete idx => simp [hpar] at h
      | error => simp [hpar] at h
      | incomplete =>
        simp only [hpar] at h ⊢
        by_cases hl : (buf ++ r).length < headCap
        · simp only [hl, if_true] at h ⊢
          exact ih _ h
        · rw [if_neg hl] at h
          cases h

end TT.H1
