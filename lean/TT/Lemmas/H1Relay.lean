import TT.Model.H1Relay
/-! helper lemmas for the relaying phase of an HTTP/1.1 session (C08) -/
namespace TT.H1Relay
open TT

theorem run_relays (s : St) (pre : List Ev) (ho : s.srcOpen = true) (hp : ∀ e ∈ pre, e.relays = true) (rest : List Ev) :
    run s (pre ++ rest) = run { s with upload := s.upload ++ ups pre, written := s.written ++ downs pre } rest := by
  induction pre generalizing s with
  | nil => simp [ups, downs]
  | cons e es ih =>
    have he := hp e (by simp)
    have hes : ∀ x ∈ es, x.relays = true := fun x hx => hp x (by simp [hx])
    cases e with
    | up b =>
      simp only [List.cons_append, run, step, ho, if_true]
      rw [ih _ (by first | exact ho | simp) hes]
      simp [ups, downs, List.append_assoc]
    | down b ok =>
      cases ok with
      | false => simp [Ev.relays] at he
      | true =>
        simp only [List.cons_append, run, step, if_true]
        rw [ih _ (by first | exact ho | simp) hes]
        simp [ups, downs, List.append_assoc]
    | clientEof => simp [Ev.relays] at he
    | readErr => simp [Ev.relays] at he
    | sourceGone => simp [Ev.relays] at he
    | relayEof q => simp [Ev.relays] at he
    | relayGone f => simp [Ev.relays] at he

theorem step_closes (s : St) (e : Ev) (h : e.closes = true) : (step s e).2.isSome = true := by
  cases e <;> simp_all [Ev.closes, step]

/-- the call never survives a closing event -/
theorem run_ends (s : St) (evs : List Ev) (h : ∃ e ∈ evs, e.closes = true) : (run s evs).2.isSome = true := by
  induction evs generalizing s with
  | nil => simp at h
  | cons e es ih =>
    unfold run
    cases hs : step s e with
    | mk s' r =>
      cases r with
      | some r => simp
      | none =>
        simp only
        apply ih
        obtain ⟨x, hx, hc⟩ := h
        cases hx with
        | head => have := step_closes s e hc; simp [hs] at this
        | tail _ hx => exact ⟨x, hx, hc⟩
end TT.H1Relay
