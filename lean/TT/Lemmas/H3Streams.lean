import TT.Model.H3Streams
namespace TT.H3Streams

/-- in a table with one entry per id, an entry is determined by its id -/
theorem eq_of_id_eq : ∀ {t : Table}, (t.map (·.id)).Nodup → ∀ {a b : Entry}, a ∈ t → b ∈ t →
    a.id = b.id → a = b
  | [], _, _, _, ha, _, _ => by cases ha
  | x :: t, hn, a, b, ha, hb, hab => by
    have hn' : (x.id :: t.map (·.id)).Nodup := by simpa using hn
    rw [List.nodup_cons] at hn'
    rcases List.mem_cons.1 ha with rfl | ha' <;> rcases List.mem_cons.1 hb with rfl | hb'
    · rfl
    · exact absurd (List.mem_map.2 ⟨b, hb', hab.symm⟩) hn'.1
    · exact absurd (List.mem_map.2 ⟨a, ha', hab⟩) hn'.1
    · exact eq_of_id_eq hn'.2 ha' hb' hab

theorem find_of_mem {t : Table} (hn : (t.map (·.id)).Nodup) {e : Entry} (he : e ∈ t) :
    t.find? (fun x => x.id == e.id) = some e := by
  cases hf : t.find? (fun x => x.id == e.id) with
  | none =>
    have := List.find?_eq_none.1 hf e he
    simp at this
  | some e' =>
    have h1 : e'.id = e.id := by simpa using List.find?_some hf
    have h2 := List.mem_of_find?_eq_some hf
    rw [eq_of_id_eq hn h2 he h1]

/-- the update of `shutdownStream` keeps ids -/
theorem upd_id (id : Nat) (r w : Bool) (x : Entry) :
    (if x.id == id then { x with readShut := r, writeShut := w } else x).id = x.id := by
  split <;> rfl

theorem map_upd_ids (t : Table) (id : Nat) (r w : Bool) :
    (t.map (fun x => if x.id == id then { x with readShut := r, writeShut := w } else x)).map (·.id)
      = t.map (·.id) := by
  rw [List.map_map]
  apply List.map_congr_left
  intro a _
  exact upd_id id r w a

theorem filter_ids_nodup {t : Table} (p : Entry → Bool) (hn : (t.map (·.id)).Nodup) :
    ((t.filter p).map (·.id)).Nodup := by
  unfold List.Nodup at *
  rw [List.pairwise_map] at *
  exact hn.filter p

theorem shutdown_of_unknown (t : Table) (id : Nat) (d : Dir) (hu : ∀ e ∈ t, e.id ≠ id) :
    shutdownStream t id d = t := by
  have hf : t.find? (fun e => e.id == id) = none := by
    rw [List.find?_eq_none]
    intro x hx
    simpa using hu x hx
  unfold shutdownStream
  rw [hf]

theorem shutdown_mem_of_ne (t : Table) (id : Nat) (d : Dir) (e : Entry) (hne : e.id ≠ id) :
    e ∈ shutdownStream t id d ↔ e ∈ t := by
  unfold shutdownStream
  split
  · exact Iff.rfl
  · dsimp only
    split
    · rw [List.mem_filter]
      constructor
      · exact fun h => h.1
      · intro h
        exact ⟨h, by simpa using hne⟩
    · rw [List.mem_map]
      constructor
      · rintro ⟨x, hx, hxe⟩
        by_cases hxi : (x.id == id) = true
        · rw [if_pos hxi] at hxe
          have : e.id = x.id := by rw [← hxe]
          have hxi' : x.id = id := by simpa using hxi
          exact absurd (this.trans hxi') hne
        · rw [if_neg hxi] at hxe
          exact hxe ▸ hx
      · intro h
        refine ⟨e, h, ?_⟩
        have : ¬ (e.id == id) = true := by simpa using hne
        rw [if_neg this]

theorem shutdown_nodup (t : Table) (id : Nat) (d : Dir) (hn : (t.map (·.id)).Nodup) :
    ((shutdownStream t id d).map (·.id)).Nodup := by
  unfold shutdownStream
  split
  · exact hn
  · dsimp only
    split
    · exact filter_ids_nodup _ hn
    · rw [map_upd_ids]
      exact hn

theorem shutdown_no_dead (t : Table) (id : Nat) (d : Dir)
    (h : ∀ e ∈ t, ¬ (e.readShut = true ∧ e.writeShut = true)) :
    ∀ e ∈ shutdownStream t id d, ¬ (e.readShut = true ∧ e.writeShut = true) := by
  unfold shutdownStream
  split
  · exact h
  · rename_i e0 _
    dsimp only
    split
    · intro e he
      exact h e (List.mem_filter.1 he).1
    · rename_i hrw
      intro e he
      rcases List.mem_map.1 he with ⟨x, hx, hxe⟩
      by_cases hxi : (x.id == id) = true
      · rw [if_pos hxi] at hxe
        subst hxe
        intro hh
        apply hrw
        dsimp only at hh
        rw [hh.1, hh.2]
        rfl
      · rw [if_neg hxi] at hxe
        exact hxe ▸ h x hx

/-- with both halves shut down the stream is gone -/
theorem shutdown_removes (t : Table) (id : Nat) (d : Dir) (e0 : Entry)
    (hf : t.find? (fun e => e.id == id) = some e0)
    (hrw : ((e0.readShut || d.closesRead) && (e0.writeShut || d.closesWrite)) = true) :
    shutdownStream t id d = t.filter (fun x => x.id != id) := by
  unfold shutdownStream
  rw [hf]
  dsimp only
  rw [if_pos hrw]

theorem shutdown_keeps (t : Table) (id : Nat) (d : Dir) (e0 : Entry)
    (hf : t.find? (fun e => e.id == id) = some e0)
    (hrw : ¬ ((e0.readShut || d.closesRead) && (e0.writeShut || d.closesWrite)) = true) :
    shutdownStream t id d = t.map (fun x => if x.id == id then
      { x with readShut := e0.readShut || d.closesRead, writeShut := e0.writeShut || d.closesWrite }
      else x) := by
  unfold shutdownStream
  rw [hf]
  dsimp only
  rw [if_neg hrw]

theorem filter_ne_id (t : Table) (id : Nat) : ∀ e ∈ t.filter (fun x => x.id != id), e.id ≠ id := by
  intro e he
  simpa using (List.mem_filter.1 he).2

theorem shutdown_both_removes (t : Table) (id : Nat) : ∀ e ∈ shutdownStream t id .both, e.id ≠ id := by
  cases hf : t.find? (fun e => e.id == id) with
  | none =>
    have h := List.find?_eq_none.1 hf
    have : shutdownStream t id .both = t := by
      unfold shutdownStream
      rw [hf]
    rw [this]
    intro e he
    simpa using h e he
  | some e0 =>
    rw [shutdown_removes t id .both e0 hf (by simp [Dir.closesRead, Dir.closesWrite])]
    exact filter_ne_id t id

end TT.H3Streams
