import TT.Model.Icmp
namespace TT.Icmp
end TT.Icmp
