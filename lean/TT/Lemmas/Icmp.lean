import TT.Model.Icmp
/-! helper lemmas for `TT/Props/C11.lean` -/
namespace TT.Icmp
open TT TT.Bytes

/-! ### checksum -/

theorem fold16_mod (n : Nat) : fold16 n % 65535 = n % 65535 := by
  induction n using Nat.strongRecOn with
  | _ n ih =>
    rw [fold16.eq_1]
    split
    · rfl
    · rw [ih _ (by omega)]; omega

theorem fold16_lt (n : Nat) : fold16 n < 65536 := by
  induction n using Nat.strongRecOn with
  | _ n ih =>
    rw [fold16.eq_1]
    split
    · assumption
    · exact ih _ (by omega)

theorem fold16_le (n : Nat) : fold16 n ≤ n := by
  induction n using Nat.strongRecOn with
  | _ n ih =>
    rw [fold16.eq_1]
    split
    · exact Nat.le_refl _
    · have := ih (n / 65536 + n % 65536) (by omega); omega

theorem fold16_pos (n : Nat) (h : 0 < n) : 0 < fold16 n := by
  induction n using Nat.strongRecOn with
  | _ n ih =>
    rw [fold16.eq_1]
    split
    · assumption
    · exact ih _ (by omega) (by omega)

theorem fold16_eq_ffff (n : Nat) (h : 0 < n) (hm : n % 65535 = 0) : fold16 n = 65535 := by
  have h1 := fold16_mod n
  have h2 := fold16_lt n
  have h3 := fold16_pos n h
  omega

theorem sumWords_le (bs : Bytes) (hw : ∀ x ∈ bs, x < 256) :
    sumWords bs ≤ 65535 * ((bs.length + 1) / 2) := by
  fun_induction sumWords bs with
  | case1 => simp
  | case2 a =>
    have := hw a (by simp)
    simp; omega
  | case3 a b rest ih =>
    have ha := hw a (by simp)
    have hb := hw b (by simp)
    have := ih (fun x hx => hw x (by simp [hx]))
    simp only [List.length_cons]
    omega

theorem sumWords32_eq (bs : Bytes) (acc : Nat) (h : acc + sumWords bs < 4294967296) :
    sumWords32 bs acc = acc + sumWords bs := by
  fun_induction sumWords32 bs acc with
  | case1 acc => simp [sumWords]
  | case2 a acc => simp [sumWords] at *; omega
  | case3 a b rest acc ih =>
    simp only [sumWords] at h ⊢
    rw [ih (by omega)]; omega

theorem u16be_sum (c : Nat) (h : c < 65536) : c / 256 % 256 * 256 + c % 256 = c := by omega


theorem sumWords_hdr (t c : Nat) (rest : Bytes) (hc : c < 65536) :
    sumWords (t :: 0 :: (u16be c ++ rest)) = t * 256 + c + sumWords rest := by
  simp only [u16be, sumWords, List.cons_append, List.nil_append]; omega

theorem sumWords_hdr0 (t : Nat) (rest : Bytes) :
    sumWords (t :: 0 :: 0 :: 0 :: rest) = t * 256 + sumWords rest := by
  simp [sumWords]

theorem sumWords32_exact (bs : Bytes) (hw : ∀ x ∈ bs, x < 256) (hl : bs.length ≤ 131070) :
    sumWords32 bs 0 = sumWords bs := by
  have := sumWords_le bs hw
  rw [sumWords32_eq] <;> omega

/-! ### byte primitives, request decoder -/

theorem getU8_ok (p : Bytes) (h : 1 ≤ p.length) : ∃ a, getU8 p = .ok (a, p.drop 1) := by
  match p, h with
  | a :: rest, _ => exact ⟨a, rfl⟩

theorem getU16_ok (p : Bytes) (h : 2 ≤ p.length) : ∃ a, getU16 p = .ok (a, p.drop 2) := by
  match p, h with
  | a :: b :: rest, _ => exact ⟨_, rfl⟩

theorem getU32_ok (p : Bytes) (h : 4 ≤ p.length) : ∃ a, getU32 p = .ok (a, p.drop 4) := by
  match p, h with
  | a :: b :: c :: d :: rest, _ => exact ⟨_, rfl⟩

theorem advance_ok (n : Nat) (p : Bytes) (h : n ≤ p.length) : advance n p = .ok (p.drop n) := by
  simp [advance, h]

theorem getFixedIp_ok (p : Bytes) (h : 16 ≤ p.length) : ∃ a, getFixedIp p = .ok (a, p.drop 16) := by
  simp [getFixedIp, splitTo, h]

theorem parseRequest_ok (raw : Bytes) (h : 23 ≤ raw.length) : ∃ r, parseRequest raw = .ok r := by
  unfold parseRequest
  obtain ⟨a, ha⟩ := getU16_ok raw (by omega)
  rw [ha]; dsimp only
  obtain ⟨b, hb⟩ := getFixedIp_ok (raw.drop 2) (by rw [List.length_drop]; omega)
  rw [hb]; dsimp only
  obtain ⟨c, hc⟩ := getU16_ok ((raw.drop 2).drop 16) (by simp only [List.length_drop]; omega)
  rw [hc]; dsimp only
  obtain ⟨d, hd⟩ := getU8_ok (((raw.drop 2).drop 16).drop 2) (by simp only [List.length_drop]; omega)
  rw [hd]; dsimp only
  obtain ⟨e, he⟩ := getU16_ok ((((raw.drop 2).drop 16).drop 2).drop 1) (by simp only [List.length_drop]; omega)
  rw [he]
  exact ⟨_, rfl⟩

theorem decoder_step_safe_lem (buffer chunk : Bytes) (hb : buffer.length < reqSize) :
    (∃ b', onMessageChunk buffer chunk = .wantMore b' ∧ b' = buffer ++ chunk ∧ b'.length < reqSize) ∨
    (∃ raw tail, onMessageChunk buffer chunk = .complete raw tail ∧ raw.length = reqSize ∧
        buffer ++ chunk = raw ++ tail) := by
  unfold onMessageChunk
  have h23 : reqSize = 23 := rfl
  generalize reqSize = N at *
  by_cases hc : (!buffer.isEmpty || decide (buffer.length + chunk.length < N)) = true
  · rw [if_pos hc]
    by_cases hlt : buffer.length + chunk.length < N
    · left
      have hn : min chunk.length (N - buffer.length) = chunk.length := by omega
      simp only [hn, List.take_length, List.drop_length, List.length_append]
      rw [if_neg (by simp; omega), if_pos hlt, if_neg (by simp)]
      exact ⟨_, rfl, rfl, by simp; omega⟩
    · right
      have hn : min chunk.length (N - buffer.length) = N - buffer.length := by omega
      have hlen : (buffer ++ List.take (N - buffer.length) chunk).length = N := by
        simp [List.length_append, List.length_take]; omega
      simp only [hn, hlen]
      rw [if_neg (by simp), if_neg (by omega)]
      exact ⟨_, _, rfl, hlen, by simp⟩
  · right
    rw [if_neg hc]
    simp at hc
    obtain ⟨h1, h2⟩ := hc
    subst h1
    simp at h2
    refine ⟨_, _, rfl, ?_, by simp⟩
    rw [List.length_take]; omega

theorem specDecode_short (F : Nat) (s : Bytes) (h : s.length < 23) : specDecode F s = [] := by
  cases F <;> simp [specDecode, reqSize, h]

theorem specDecode_long (F : Nat) (raw rest : Bytes) (r : Request) (h : raw.length = 23)
    (hr : parseRequest raw = .ok r) : specDecode (F + 1) (raw ++ rest) = r :: specDecode F rest := by
  have h23 : reqSize = 23 := rfl
  have htake : (raw ++ rest).take reqSize = raw := by rw [h23, ← h]; simp
  have hdrop : (raw ++ rest).drop reqSize = rest := by rw [h23, ← h]; simp
  have hnl : ¬ (raw ++ rest).length < reqSize := by
    rw [h23, List.length_append]; omega
  simp only [specDecode, if_neg hnl, htake, hr, hdrop]

theorem decodeStream_gen (fuel : Nat) : ∀ (buffer : Bytes) (chunks : List Bytes) (acc : List Request) (F : Nat),
    buffer.length < 23 → fuel ≥ chunks.length + chunks.flatten.length →
    F ≥ (buffer ++ chunks.flatten).length / 23 →
    decodeStream fuel buffer chunks acc =
      some (acc.reverse ++ specDecode F (buffer ++ chunks.flatten),
        (buffer ++ chunks.flatten).drop (23 * ((buffer ++ chunks.flatten).length / 23))) := by
  induction fuel with
  | zero =>
    intro buffer chunks acc F hb hf hF
    have : chunks = [] := by
      cases chunks with
      | nil => rfl
      | cons c cs => simp at hf
    subst this
    simp only [decodeStream, List.flatten_nil, List.append_nil]
    rw [specDecode_short _ _ hb, Nat.div_eq_of_lt hb]; simp
  | succ fuel ih =>
    intro buffer chunks acc F hb hf hF
    cases chunks with
    | nil =>
      simp only [decodeStream, List.flatten_nil, List.append_nil]
      rw [specDecode_short _ _ hb, Nat.div_eq_of_lt hb]; simp
    | cons chunk rest =>
      simp only [List.flatten_cons, List.length_cons, List.length_append] at hf hF
      rcases decoder_step_safe_lem buffer chunk hb with ⟨b', h1, h2, h3⟩ | ⟨raw, tail, h1, h2, h3⟩
      · simp only [decodeStream, h1]
        subst h2
        rw [ih _ _ _ F h3 (by omega) (by simp only [List.length_append] at *; omega)]
        simp only [List.flatten_cons, List.append_assoc]
      · replace h2 : raw.length = 23 := h2
        obtain ⟨r, hr⟩ := parseRequest_ok raw (by omega)
        simp only [decodeStream, h1, hr]
        have hlen : buffer.length + chunk.length = raw.length + tail.length := by
          have := congrArg List.length h3; simpa using this
        have hs : buffer ++ (chunk :: rest).flatten = raw ++ (tail ++ rest.flatten) := by
          rw [List.flatten_cons, ← List.append_assoc, h3, List.append_assoc]
        have hfl : (if tail.isEmpty then rest else tail :: rest).flatten = tail ++ rest.flatten := by
          cases tail <;> simp
        have hfuel : fuel ≥ (if tail.isEmpty then rest else tail :: rest).length
            + (tail.length + rest.flatten.length) := by
          cases tail with
          | nil => simp only [List.length_nil, List.isEmpty_nil, if_true] at hlen ⊢; omega
          | cons t ts =>
            simp only [List.length_cons, List.isEmpty_cons, Bool.false_eq_true, if_false] at hlen ⊢; omega
        obtain ⟨F', rfl⟩ : ∃ F', F = F' + 1 := ⟨F - 1, by omega⟩
        rw [ih [] _ (r :: acc) F' (by simp) (by rw [hfl, List.length_append]; exact hfuel)
          (by rw [hfl]; simp only [List.nil_append, List.length_append]; omega)]
        rw [hs, hfl, specDecode_long _ _ _ _ h2 hr]
        simp only [List.nil_append, List.reverse_cons, List.append_assoc, List.cons_append]
        congr 2
        have hk : (raw ++ (tail ++ rest.flatten)).length / 23
            = (tail ++ rest.flatten).length / 23 + 1 := by
          simp only [List.length_append]; omega
        have hdrop : (raw ++ (tail ++ rest.flatten)).drop 23 = tail ++ rest.flatten := by
          rw [← h2]; simp
        rw [hk, Nat.mul_add, Nat.mul_one, Nat.add_comm, ← List.drop_drop, hdrop]
/-! ### ICMP parsers -/

theorem afterType_eq (p : Bytes) (k : Nat → Bytes → Deser) (h : 3 ≤ p.length) :
    ∃ code, afterType p k = k code (p.drop 3) := by
  unfold afterType
  obtain ⟨a, ha⟩ := getU8_ok p (by omega)
  rw [ha]; dsimp only
  have : splitOff 2 (p.drop 1) = .ok ((p.drop 1).drop 2, (p.drop 1).take 2) := by
    simp only [splitOff, List.length_drop]; rw [if_pos (by omega)]
  rw [this]; dsimp only
  exact ⟨a, by rw [List.drop_drop]⟩

theorem parseEcho_ne_panic (t c : Nat) (p : Bytes) (h : 4 ≤ p.length) : parseEcho t c p ≠ .panic := by
  unfold parseEcho
  obtain ⟨a, ha⟩ := getU16_ok p (by omega)
  rw [ha]; dsimp only
  obtain ⟨b, hb⟩ := getU16_ok (p.drop 2) (by simp only [List.length_drop]; omega)
  rw [hb]; simp

theorem parseEcho_eq (t c : Nat) (p : Bytes) (h : 4 ≤ p.length) : ∃ e, parseEcho t c p = .ok (.echo t e) := by
  unfold parseEcho
  obtain ⟨a, ha⟩ := getU16_ok p (by omega)
  rw [ha]; dsimp only
  obtain ⟨b, hb⟩ := getU16_ok (p.drop 2) (by simp only [List.length_drop]; omega)
  rw [hb]; exact ⟨_, rfl⟩

theorem parseErr_ne_panic (t : Nat) (f : Nat → Bool) (c : Nat) (p : Bytes) (h : 4 ≤ p.length) :
    parseErr t f c p ≠ .panic := by
  unfold parseErr
  split
  · simp
  · simp only [splitOff]; rw [if_pos h]; simp

theorem parseTimestamp_ne_panic (t c : Nat) (p : Bytes) (h : 16 ≤ p.length) : parseTimestamp t c p ≠ .panic := by
  unfold parseTimestamp
  obtain ⟨a, ha⟩ := getU16_ok p (by omega)
  rw [ha]; dsimp only
  obtain ⟨b, hb⟩ := getU16_ok (p.drop 2) (by simp only [List.length_drop]; omega)
  rw [hb]; dsimp only
  obtain ⟨c, hc⟩ := getU32_ok ((p.drop 2).drop 2) (by simp only [List.length_drop]; omega)
  rw [hc]; dsimp only
  obtain ⟨d, hd⟩ := getU32_ok (((p.drop 2).drop 2).drop 4) (by simp only [List.length_drop]; omega)
  rw [hd]; dsimp only
  obtain ⟨e, he⟩ := getU32_ok ((((p.drop 2).drop 2).drop 4).drop 4) (by simp only [List.length_drop]; omega)
  rw [he]; simp

theorem parseInformation_ne_panic (t c : Nat) (p : Bytes) (h : 4 ≤ p.length) : parseInformation t c p ≠ .panic := by
  unfold parseInformation
  obtain ⟨a, ha⟩ := getU16_ok p (by omega)
  rw [ha]; dsimp only
  obtain ⟨b, hb⟩ := getU16_ok (p.drop 2) (by simp only [List.length_drop]; omega)
  rw [hb]; simp

theorem afterType_ne_panic (p : Bytes) (k : Nat → Bytes → Deser) (n : Nat) (h : 3 + n ≤ p.length)
    (hk : ∀ c q, n ≤ q.length → k c q ≠ .panic) : afterType p k ≠ .panic := by
  obtain ⟨c, hc⟩ := afterType_eq p k (by omega)
  rw [hc]; exact hk _ _ (by rw [List.length_drop]; omega)

theorem ite_ne_panic {c : Prop} [Decidable c] {a b : Deser} (ha : c → a ≠ .panic)
    (hb : ¬c → b ≠ .panic) : (if c then a else b) ≠ .panic := by
  split
  · exact ha ‹_›
  · exact hb ‹_›

theorem skipIpv6Ext_no_panic (fuel : Nat) : ∀ (proto : Nat) (p : Bytes), (skipIpv6Ext fuel proto p).isOk = true := by
  induction fuel with
  | zero => intro proto p; rfl
  | succ fuel ih =>
    intro proto p
    unfold skipIpv6Ext
    split
    · split
      · rfl
      · next hl =>
        obtain ⟨a, ha⟩ := getU8_ok p (by omega)
        rw [ha]; dsimp only
        obtain ⟨b, hb⟩ := getU8_ok (p.drop 1) (by simp only [List.length_drop]; omega)
        rw [hb]; dsimp only
        split
        · rfl
        · next hl2 =>
          rw [advance_ok _ _ (by omega)]
          exact ih _ _
    · split
      · split
        · rfl
        · next hl =>
          obtain ⟨a, ha⟩ := getU8_ok p (by omega)
          rw [ha]; dsimp only
          rw [advance_ok _ _ (by simp only [List.length_drop]; omega)]
          exact ih _ _
      · rfl

theorem quotedEcho_ne_panic (s : Res (Option (Nat × Bytes))) (hs : s.isOk = true) (wp wt : Nat) :
    quotedEcho s wp wt ≠ .panic := by
  unfold quotedEcho
  match s, hs with
  | .ok none, _ => simp
  | .ok (some (proto, [])), _ => simp
  | .ok (some (proto, t :: p)), _ =>
    dsimp only
    split
    · simp
    · split
      · simp
      · next h =>
        obtain ⟨c, hc⟩ := afterType_eq p (parseEcho wt) (by omega)
        obtain ⟨e, he⟩ := parseEcho_eq wt c (p.drop 3) (by rw [List.length_drop]; omega)
        rw [hc, he]; simp

theorem skipIpv4_plain (a1 a2 a3 a4 a5 a6 a7 a8 a10 a11 a12 a13 a14 a15 a16 a17 a18 a19 : Nat) (rest : Bytes) :
    skipIpv4Header ([69, a1, a2, a3, a4, a5, a6, a7, a8, 1, a10, a11, a12, a13, a14, a15, a16, a17, a18, a19] ++ rest)
      = .ok (some (1, rest)) := by
  simp [skipIpv4Header, getU8, advance]
  rw [if_neg (by omega), if_neg (by omega)]

/-! ### waiter table -/

theorem echoKeyEq_refl (e : Echo) : echoKeyEq e e = true := by
  simp [echoKeyEq]

theorem recv_fst (t : Table) (req : Echo) (full : Bool) :
    (t.recv req full).1.deadlines = t.deadlines ∧ ∀ w ∈ (t.recv req full).1.waiters, w ∈ t.waiters := by
  unfold Table.recv
  split
  · simp
  · split
    · exact ⟨rfl, fun w hw => (List.mem_filter.mp hw).1⟩
    · simp

theorem send_waiters_le (t : Table) (c : Nat) (e : Echo) (now timeout : Nat) :
    (t.send c e now timeout).waiters.length ≤ t.waiters.length + 1 := by
  simp only [Table.send]
  split <;> simp

theorem recv_waiters_le (t : Table) (req : Echo) (full : Bool) :
    (t.recv req full).1.waiters.length ≤ t.waiters.length := by
  simp only [Table.recv]
  split
  · simp
  · split
    · exact List.length_filter_le _ _
    · simp

theorem tick_waiters_le (t : Table) (now : Nat) : (t.tick now).waiters.length ≤ t.waiters.length := by
  simp only [Table.tick]
  exact List.length_filter_le _ _

end TT.Icmp
