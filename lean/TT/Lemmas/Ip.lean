import TT.Model.Ip
namespace TT.Ip

/-! bit-mask tests on one octet / hextet, as intervals -/

theorem and_f0_eq_16 (b : Nat) (h : b < 256) : ((b &&& 0xf0) == 16) = (decide (16 ≤ b) && decide (b ≤ 31)) := by
  revert b; decide +kernel

theorem and_c0_eq_40 (b : Nat) (h : b < 256) : ((b &&& 0xc0) == 0x40) = (decide (64 ≤ b) && decide (b ≤ 127)) := by
  revert b; decide +kernel

theorem and_240_eq_240 (a : Nat) (h : a < 256) : ((a &&& 240) == 240) = decide (240 ≤ a) := by
  revert a; decide +kernel

theorem and_fe_eq_18 (b : Nat) (h : b < 256) : ((b &&& 0xfe) == 18) = (decide (18 ≤ b) && decide (b ≤ 19)) := by
  revert b; decide +kernel

end TT.Ip

namespace TT.Ip
section
variable {a b c d : Nat}

theorem blk0 (hb : b < 256) (hc : c < 256) (hd : d < 256) :
    (0x00000000 ≤ toN a b c d ∧ toN a b c d ≤ 0x00ffffff) ↔ a = 0 := by unfold toN; omega
theorem blk10 (hb : b < 256) (hc : c < 256) (hd : d < 256) :
    (0x0a000000 ≤ toN a b c d ∧ toN a b c d ≤ 0x0affffff) ↔ a = 10 := by unfold toN; omega
theorem blk100 (hb : b < 256) (hc : c < 256) (hd : d < 256) :
    (0x64400000 ≤ toN a b c d ∧ toN a b c d ≤ 0x647fffff) ↔ (a = 100 ∧ 64 ≤ b ∧ b ≤ 127) := by unfold toN; omega
theorem blk127 (hb : b < 256) (hc : c < 256) (hd : d < 256) :
    (0x7f000000 ≤ toN a b c d ∧ toN a b c d ≤ 0x7fffffff) ↔ a = 127 := by unfold toN; omega
theorem blk169 (hb : b < 256) (hc : c < 256) (hd : d < 256) :
    (0xa9fe0000 ≤ toN a b c d ∧ toN a b c d ≤ 0xa9feffff) ↔ (a = 169 ∧ b = 254) := by unfold toN; omega
theorem blk172 (hb : b < 256) (hc : c < 256) (hd : d < 256) :
    (0xac100000 ≤ toN a b c d ∧ toN a b c d ≤ 0xac1fffff) ↔ (a = 172 ∧ 16 ≤ b ∧ b ≤ 31) := by unfold toN; omega
theorem blk192a (hb : b < 256) (hc : c < 256) (hd : d < 256) :
    (0xc0000000 ≤ toN a b c d ∧ toN a b c d ≤ 0xc0000008) ↔ (a = 192 ∧ b = 0 ∧ c = 0 ∧ d ≤ 8) := by unfold toN; omega
theorem blk192b (hb : b < 256) (hc : c < 256) (hd : d < 256) :
    (0xc000000b ≤ toN a b c d ∧ toN a b c d ≤ 0xc00000ff) ↔ (a = 192 ∧ b = 0 ∧ c = 0 ∧ 11 ≤ d) := by unfold toN; omega
theorem blk192_2 (hb : b < 256) (hc : c < 256) (hd : d < 256) :
    (0xc0000200 ≤ toN a b c d ∧ toN a b c d ≤ 0xc00002ff) ↔ (a = 192 ∧ b = 0 ∧ c = 2) := by unfold toN; omega
theorem blk192_168 (hb : b < 256) (hc : c < 256) (hd : d < 256) :
    (0xc0a80000 ≤ toN a b c d ∧ toN a b c d ≤ 0xc0a8ffff) ↔ (a = 192 ∧ b = 168) := by unfold toN; omega
theorem blk198_18 (hb : b < 256) (hc : c < 256) (hd : d < 256) :
    (0xc6120000 ≤ toN a b c d ∧ toN a b c d ≤ 0xc613ffff) ↔ (a = 198 ∧ 18 ≤ b ∧ b ≤ 19) := by unfold toN; omega
theorem blk198_51 (hb : b < 256) (hc : c < 256) (hd : d < 256) :
    (0xc6336400 ≤ toN a b c d ∧ toN a b c d ≤ 0xc63364ff) ↔ (a = 198 ∧ b = 51 ∧ c = 100) := by unfold toN; omega
theorem blk203 (hb : b < 256) (hc : c < 256) (hd : d < 256) :
    (0xcb007100 ≤ toN a b c d ∧ toN a b c d ≤ 0xcb0071ff) ↔ (a = 203 ∧ b = 0 ∧ c = 113) := by unfold toN; omega
theorem blk240 (ha : a < 256) (hb : b < 256) (hc : c < 256) (hd : d < 256) :
    (0xf0000000 ≤ toN a b c d ∧ toN a b c d ≤ 0xffffffff) ↔ 240 ≤ a := by unfold toN; omega
theorem eq_c0000009 (hb : b < 256) (hc : c < 256) (hd : d < 256) :
    toN a b c d = 0xc0000009 ↔ (a = 192 ∧ b = 0 ∧ c = 0 ∧ d = 9) := by unfold toN; omega
theorem eq_c000000a (hb : b < 256) (hc : c < 256) (hd : d < 256) :
    toN a b c d = 0xc000000a ↔ (a = 192 ∧ b = 0 ∧ c = 0 ∧ d = 10) := by unfold toN; omega

/-- octet-level description of the blocked set -/
def BlockedOct (a b c d : Nat) : Prop :=
  a = 0 ∨ a = 10 ∨ (a = 100 ∧ 64 ≤ b ∧ b ≤ 127) ∨ a = 127 ∨ (a = 169 ∧ b = 254) ∨
  (a = 172 ∧ 16 ≤ b ∧ b ≤ 31) ∨ (a = 192 ∧ b = 0 ∧ c = 0 ∧ d ≤ 8) ∨ (a = 192 ∧ b = 0 ∧ c = 0 ∧ 11 ≤ d) ∨
  (a = 192 ∧ b = 0 ∧ c = 2) ∨ (a = 192 ∧ b = 168) ∨ (a = 198 ∧ 18 ≤ b ∧ b ≤ 19) ∨
  (a = 198 ∧ b = 51 ∧ c = 100) ∨ (a = 203 ∧ b = 0 ∧ c = 113) ∨ 240 ≤ a

theorem v4Blocked_iff (ha : a < 256) (hb : b < 256) (hc : c < 256) (hd : d < 256) :
    v4Blocked (toN a b c d) = true ↔ BlockedOct a b c d := by
  simp only [v4Blocked, inTable, v4BlockedTable, List.any_cons, List.any_nil,
    Bool.or_eq_true, Bool.and_eq_true, decide_eq_true_eq, Bool.or_false,
    blk0 hb hc hd, blk10 hb hc hd, blk100 hb hc hd, blk127 hb hc hd, blk169 hb hc hd, blk172 hb hc hd,
    blk192a hb hc hd, blk192b hb hc hd, blk192_2 hb hc hd, blk192_168 hb hc hd, blk198_18 hb hc hd,
    blk198_51 hb hc hd, blk203 hb hc hd, blk240 ha hb hc hd, BlockedOct]

theorem isGlobalV4_iff_oct (ha : a < 256) (hb : b < 256) (hc : c < 256) (hd : d < 256) :
    isGlobalV4 a b c d = true ↔ ¬ BlockedOct a b c d := by
  unfold isGlobalV4
  have e9 : (toN a b c d == 0xc0000009) = decide (a = 192 ∧ b = 0 ∧ c = 0 ∧ d = 9) := by
    rw [Bool.eq_iff_iff]; simp only [beq_iff_eq, decide_eq_true_eq]; exact eq_c0000009 hb hc hd
  have e10 : (toN a b c d == 0xc000000a) = decide (a = 192 ∧ b = 0 ∧ c = 0 ∧ d = 10) := by
    rw [Bool.eq_iff_iff]; simp only [beq_iff_eq, decide_eq_true_eq]; exact eq_c000000a hb hc hd
  rw [e9, e10]
  simp only [v4IsPrivate, v4IsLoopback, v4IsLinkLocal, v4IsBroadcast, v4IsDocumentation,
    and_f0_eq_16 b hb, and_c0_eq_40 b hb, and_240_eq_240 a ha, and_fe_eq_18 b hb, BlockedOct]
  clear e9 e10
  have hcls : a = 0 ∨ a = 10 ∨ a = 100 ∨ a = 127 ∨ a = 169 ∨ a = 172 ∨ a = 192 ∨ a = 198 ∨ a = 203 ∨ 240 ≤ a ∨
      (a ≠ 0 ∧ a ≠ 10 ∧ a ≠ 100 ∧ a ≠ 127 ∧ a ≠ 169 ∧ a ≠ 172 ∧ a ≠ 192 ∧ a ≠ 198 ∧ a ≠ 203 ∧ a < 240) := by omega
  rcases hcls with h|h|h|h|h|h|h|h|h|h|h
  · subst h; simp
  · subst h; simp
  · subst h; simp; omega
  · subst h; simp
  · subst h; simp
  · subst h; simp; omega
  · subst h; simp; omega
  · subst h; simp; omega
  · subst h; simp; omega
  · have : a ≠ 0 ∧ a ≠ 10 ∧ a ≠ 100 ∧ a ≠ 127 ∧ a ≠ 169 ∧ a ≠ 172 ∧ a ≠ 192 ∧ a ≠ 198 ∧ a ≠ 203 := by omega
    obtain ⟨h0,h1,h2,h3,h4,h5,h6,h7,h8⟩ := this
    simp [h0,h1,h2,h3,h4,h5,h6,h7,h8]; omega
  · obtain ⟨h0,h1,h2,h3,h4,h5,h6,h7,h8,h9⟩ := h
    simp [h0,h1,h2,h3,h4,h5,h6,h7,h8]; omega

end

/-- `s &&& m` for a mask `m = (2^j - 1) * 2^k` keeps bits k..k+j-1 -/
theorem and_mask (s k j : Nat) : s &&& ((2^j - 1) * 2^k) = (s / 2^k % 2^j) * 2^k := by
  have hd : (s &&& ((2^j - 1) * 2^k)) / 2^k = s / 2^k % 2^j := by
    rw [Nat.and_div_two_pow, Nat.mul_div_cancel _ (Nat.two_pow_pos k), Nat.and_two_pow_sub_one_eq_mod]
  have hm : (s &&& ((2^j - 1) * 2^k)) % 2^k = 0 := by
    rw [Nat.and_mod_two_pow, Nat.mul_mod_left, Nat.and_zero]
  have := Nat.div_add_mod (s &&& ((2^j - 1) * 2^k)) (2^k)
  rw [hd, hm] at this
  rw [← this]; simp [Nat.mul_comm]

theorem and_ffc0 (s : Nat) : s &&& 0xffc0 = (s / 64 % 1024) * 64 := and_mask s 6 10
theorem and_ff00 (s : Nat) : s &&& 0xff00 = (s / 256 % 256) * 256 := and_mask s 8 8
theorem and_fe00 (s : Nat) : s &&& 0xfe00 = (s / 512 % 128) * 512 := and_mask s 9 7
theorem and_000f (s : Nat) : s &&& 0x000f = s % 16 := Nat.and_two_pow_sub_one_eq_mod s 4
end TT.Ip
