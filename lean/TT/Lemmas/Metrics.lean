import TT.Model.Metrics
import TT.Lemmas.UdpFlows
namespace TT.Metrics

end TT.Metrics
