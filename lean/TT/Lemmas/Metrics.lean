import TT.Model.Metrics
import TT.Lemmas.UdpFlows
namespace TT.Metrics

/-! ### generic list facts -/

theorem sum_map_set {α : Type} (f : α → Nat) (l : List α) (i : Nat) (a d : α) (h : i < l.length) :
    ((l.set i a).map f).sum + f (l.getD i d) = (l.map f).sum + f a := by
  induction l generalizing i with
  | nil => simp at h
  | cons x xs ih =>
    cases i with
    | zero => simp; omega
    | succ i =>
      have := ih i (by simpa using h)
      simp only [List.set_cons_succ, List.map_cons, List.sum_cons, List.getD_cons_succ] at this ⊢
      omega

theorem getD_ge {α : Type} (l : List α) (d : α) {i : Nat} (h : l.length ≤ i) : l.getD i d = d := by
  simp [List.getD_eq_getElem?_getD, List.getElem?_eq_none h]

theorem getD_set_self {α : Type} (l : List α) (a d : α) {i : Nat} (h : i < l.length) :
    (l.set i a).getD i d = a := by
  simp [List.getD_eq_getElem?_getD, h]

theorem getD_set_ne {α : Type} (l : List α) (a d : α) {i j : Nat} (h : j ≠ i) :
    (l.set i a).getD j d = l.getD j d := by
  simp [List.getD_eq_getElem?_getD, List.getElem?_set_ne (Ne.symm h)]

/-- fold over `range n` where step `t` establishes `R t` and no step destroys an `R j` -/
theorem foldl_range_all {σ : Type} (f : σ → Nat → σ) (P : σ → Prop) (R : Nat → σ → Prop) (N : Nat)
    (hP : ∀ s t, t < N → P s → P (f s t))
    (h1 : ∀ s t j, t < N → P s → R j s → R j (f s t)) (h2 : ∀ s t, t < N → P s → R t (f s t))
    (n : Nat) (hn : n ≤ N) (s : σ) (h : P s) :
    P ((List.range n).foldl f s) ∧ ∀ j, j < n → R j ((List.range n).foldl f s) := by
  induction n with
  | zero => exact ⟨h, fun j hj => absurd hj (Nat.not_lt_zero j)⟩
  | succ n ih =>
    rw [List.range_succ, List.foldl_append]
    simp only [List.foldl_cons, List.foldl_nil]
    obtain ⟨p, r⟩ := ih (Nat.le_of_succ_le hn)
    refine ⟨hP _ _ hn p, fun j hj => ?_⟩
    by_cases hjn : j = n
    · subst hjn; exact h2 _ _ hn p
    · exact h1 _ _ _ hn p (r j (by omega))

theorem foldl_inv {σ : Type} (P : σ → Prop) (Q : Nat → Prop) (f : σ → Nat → σ)
    (hf : ∀ s t, Q t → P s → P (f s t)) (l : List Nat) (hl : ∀ t ∈ l, Q t) (s : σ) (h : P s) :
    P (l.foldl f s) := by
  induction l generalizing s with
  | nil => exact h
  | cons t ts ih =>
    simp only [List.foldl_cons]
    exact ih (fun t ht => hl t (List.mem_cons_of_mem _ ht)) _ (hf s t (hl t List.mem_cons_self) h)

/-! ### the object counts as sums of weights -/

def sessW (p : Proto) (x : Sess) : Nat := if (x.alive && x.proto == p) = true then 1 else 0
def tcpW (t : Tun) : Nat := match t.st with | .connecting _ | .open _ _ _ => 1 | _ => 0
def udpW (t : Tun) : Nat := match t.st with | .mux u => u.gauge | _ => 0

@[simp] theorem tcpW_connecting (i n : Nat) : tcpW { sess := i, st := .connecting n } = 1 := rfl
@[simp] theorem tcpW_open (i : Nat) (a b d : Bool) : tcpW { sess := i, st := .open a b d } = 1 := rfl
@[simp] theorem tcpW_mux (i : Nat) (u) : tcpW { sess := i, st := .mux u } = 0 := rfl
@[simp] theorem tcpW_closed (i : Nat) : tcpW { sess := i, st := .closed } = 0 := rfl
@[simp] theorem tcpW_imux (i : Nat) : tcpW { sess := i, st := .imux } = 0 := rfl
@[simp] theorem udpW_connecting (i n : Nat) : udpW { sess := i, st := .connecting n } = 0 := rfl
@[simp] theorem udpW_open (i : Nat) (a b d : Bool) : udpW { sess := i, st := .open a b d } = 0 := rfl
@[simp] theorem udpW_mux (i : Nat) (u) : udpW { sess := i, st := .mux u } = u.gauge := rfl
@[simp] theorem udpW_closed (i : Nat) : udpW { sess := i, st := .closed } = 0 := rfl
@[simp] theorem udpW_imux (i : Nat) : udpW { sess := i, st := .imux } = 0 := rfl

theorem tcpW_of_connecting {t : Tun} {n} (h : t.st = .connecting n) : tcpW t = 1 := by simp [tcpW, h]
theorem tcpW_of_open {t : Tun} {a b d} (h : t.st = .open a b d) : tcpW t = 1 := by simp [tcpW, h]
theorem tcpW_of_mux {t : Tun} {u} (h : t.st = .mux u) : tcpW t = 0 := by simp [tcpW, h]
theorem tcpW_of_closed {t : Tun} (h : t.st = .closed) : tcpW t = 0 := by simp [tcpW, h]
theorem tcpW_of_imux {t : Tun} (h : t.st = .imux) : tcpW t = 0 := by simp [tcpW, h]
theorem udpW_of_connecting {t : Tun} {n} (h : t.st = .connecting n) : udpW t = 0 := by simp [udpW, h]
theorem udpW_of_open {t : Tun} {a b d} (h : t.st = .open a b d) : udpW t = 0 := by simp [udpW, h]
theorem udpW_of_mux {t : Tun} {u} (h : t.st = .mux u) : udpW t = u.gauge := by simp [udpW, h]
theorem udpW_of_closed {t : Tun} (h : t.st = .closed) : udpW t = 0 := by simp [udpW, h]
theorem udpW_of_imux {t : Tun} (h : t.st = .imux) : udpW t = 0 := by simp [udpW, h]

theorem liveSessions_eq (s : St) (p : Proto) : liveSessions s p = (s.sess.map (sessW p)).sum := by
  unfold liveSessions
  induction s.sess with
  | nil => rfl
  | cons x xs ih =>
    simp only [List.filter_cons, List.map_cons, List.sum_cons, sessW]
    split <;> simp_all <;> omega

theorem liveTcp_eq (s : St) : liveTcp s = (s.tuns.map tcpW).sum := by
  unfold liveTcp
  induction s.tuns with
  | nil => rfl
  | cons x xs ih =>
    simp only [List.filter_cons, List.map_cons, List.sum_cons, tcpW]
    split <;> split <;> simp_all <;> omega

theorem liveUdp_eq (s : St) : liveUdp s = (s.tuns.map udpW).sum := rfl

/-! ### projections of the cell updates -/

@[simp] theorem Cells.sessInc_tcp (c : Cells) (p : Proto) : (c.sessInc p).tcp = c.tcp := by cases p <;> rfl
@[simp] theorem Cells.sessInc_udp (c : Cells) (p : Proto) : (c.sessInc p).udp = c.udp := by cases p <;> rfl
@[simp] theorem Cells.sessInc_up1 (c : Cells) (p : Proto) : (c.sessInc p).up1 = c.up1 := by cases p <;> rfl
@[simp] theorem Cells.sessInc_up2 (c : Cells) (p : Proto) : (c.sessInc p).up2 = c.up2 := by cases p <;> rfl
@[simp] theorem Cells.sessInc_dn1 (c : Cells) (p : Proto) : (c.sessInc p).dn1 = c.dn1 := by cases p <;> rfl
@[simp] theorem Cells.sessInc_dn2 (c : Cells) (p : Proto) : (c.sessInc p).dn2 = c.dn2 := by cases p <;> rfl
@[simp] theorem Cells.sessInc_up3 (c : Cells) (p : Proto) : (c.sessInc p).up3 = c.up3 := by cases p <;> rfl
@[simp] theorem Cells.sessInc_dn3 (c : Cells) (p : Proto) : (c.sessInc p).dn3 = c.dn3 := by cases p <;> rfl
@[simp] theorem Cells.sessDec_tcp (c : Cells) (p : Proto) : (c.sessDec p).tcp = c.tcp := by cases p <;> rfl
@[simp] theorem Cells.sessDec_udp (c : Cells) (p : Proto) : (c.sessDec p).udp = c.udp := by cases p <;> rfl
@[simp] theorem Cells.sessDec_up1 (c : Cells) (p : Proto) : (c.sessDec p).up1 = c.up1 := by cases p <;> rfl
@[simp] theorem Cells.sessDec_up2 (c : Cells) (p : Proto) : (c.sessDec p).up2 = c.up2 := by cases p <;> rfl
@[simp] theorem Cells.sessDec_dn1 (c : Cells) (p : Proto) : (c.sessDec p).dn1 = c.dn1 := by cases p <;> rfl
@[simp] theorem Cells.sessDec_dn2 (c : Cells) (p : Proto) : (c.sessDec p).dn2 = c.dn2 := by cases p <;> rfl
@[simp] theorem Cells.sessDec_up3 (c : Cells) (p : Proto) : (c.sessDec p).up3 = c.up3 := by cases p <;> rfl
@[simp] theorem Cells.sessDec_dn3 (c : Cells) (p : Proto) : (c.sessDec p).dn3 = c.dn3 := by cases p <;> rfl
@[simp] theorem Cells.tcpInc_s1 (c : Cells) : (c.tcpInc).s1 = c.s1 := rfl
@[simp] theorem Cells.tcpInc_s2 (c : Cells) : (c.tcpInc).s2 = c.s2 := rfl
@[simp] theorem Cells.tcpInc_udp (c : Cells) : (c.tcpInc).udp = c.udp := rfl
@[simp] theorem Cells.tcpInc_up1 (c : Cells) : (c.tcpInc).up1 = c.up1 := rfl
@[simp] theorem Cells.tcpInc_up2 (c : Cells) : (c.tcpInc).up2 = c.up2 := rfl
@[simp] theorem Cells.tcpInc_dn1 (c : Cells) : (c.tcpInc).dn1 = c.dn1 := rfl
@[simp] theorem Cells.tcpInc_dn2 (c : Cells) : (c.tcpInc).dn2 = c.dn2 := rfl
@[simp] theorem Cells.tcpInc_s3 (c : Cells) : (c.tcpInc).s3 = c.s3 := rfl
@[simp] theorem Cells.tcpInc_up3 (c : Cells) : (c.tcpInc).up3 = c.up3 := rfl
@[simp] theorem Cells.tcpInc_dn3 (c : Cells) : (c.tcpInc).dn3 = c.dn3 := rfl
@[simp] theorem Cells.tcpDec_s1 (c : Cells) : (c.tcpDec).s1 = c.s1 := rfl
@[simp] theorem Cells.tcpDec_s2 (c : Cells) : (c.tcpDec).s2 = c.s2 := rfl
@[simp] theorem Cells.tcpDec_udp (c : Cells) : (c.tcpDec).udp = c.udp := rfl
@[simp] theorem Cells.tcpDec_up1 (c : Cells) : (c.tcpDec).up1 = c.up1 := rfl
@[simp] theorem Cells.tcpDec_up2 (c : Cells) : (c.tcpDec).up2 = c.up2 := rfl
@[simp] theorem Cells.tcpDec_dn1 (c : Cells) : (c.tcpDec).dn1 = c.dn1 := rfl
@[simp] theorem Cells.tcpDec_dn2 (c : Cells) : (c.tcpDec).dn2 = c.dn2 := rfl
@[simp] theorem Cells.tcpDec_s3 (c : Cells) : (c.tcpDec).s3 = c.s3 := rfl
@[simp] theorem Cells.tcpDec_up3 (c : Cells) : (c.tcpDec).up3 = c.up3 := rfl
@[simp] theorem Cells.tcpDec_dn3 (c : Cells) : (c.tcpDec).dn3 = c.dn3 := rfl
@[simp] theorem Cells.addUp_s1 (c : Cells) (p : Proto) (n : Nat) : (c.addUp p n).s1 = c.s1 := by cases p <;> rfl
@[simp] theorem Cells.addUp_s2 (c : Cells) (p : Proto) (n : Nat) : (c.addUp p n).s2 = c.s2 := by cases p <;> rfl
@[simp] theorem Cells.addUp_tcp (c : Cells) (p : Proto) (n : Nat) : (c.addUp p n).tcp = c.tcp := by cases p <;> rfl
@[simp] theorem Cells.addUp_udp (c : Cells) (p : Proto) (n : Nat) : (c.addUp p n).udp = c.udp := by cases p <;> rfl
@[simp] theorem Cells.addUp_dn1 (c : Cells) (p : Proto) (n : Nat) : (c.addUp p n).dn1 = c.dn1 := by cases p <;> rfl
@[simp] theorem Cells.addUp_dn2 (c : Cells) (p : Proto) (n : Nat) : (c.addUp p n).dn2 = c.dn2 := by cases p <;> rfl
@[simp] theorem Cells.addUp_s3 (c : Cells) (p : Proto) (n : Nat) : (c.addUp p n).s3 = c.s3 := by cases p <;> rfl
@[simp] theorem Cells.addUp_dn3 (c : Cells) (p : Proto) (n : Nat) : (c.addUp p n).dn3 = c.dn3 := by cases p <;> rfl
@[simp] theorem Cells.addDn_s1 (c : Cells) (p : Proto) (n : Nat) : (c.addDn p n).s1 = c.s1 := by cases p <;> rfl
@[simp] theorem Cells.addDn_s2 (c : Cells) (p : Proto) (n : Nat) : (c.addDn p n).s2 = c.s2 := by cases p <;> rfl
@[simp] theorem Cells.addDn_tcp (c : Cells) (p : Proto) (n : Nat) : (c.addDn p n).tcp = c.tcp := by cases p <;> rfl
@[simp] theorem Cells.addDn_udp (c : Cells) (p : Proto) (n : Nat) : (c.addDn p n).udp = c.udp := by cases p <;> rfl
@[simp] theorem Cells.addDn_up1 (c : Cells) (p : Proto) (n : Nat) : (c.addDn p n).up1 = c.up1 := by cases p <;> rfl
@[simp] theorem Cells.addDn_up2 (c : Cells) (p : Proto) (n : Nat) : (c.addDn p n).up2 = c.up2 := by cases p <;> rfl
@[simp] theorem Cells.addDn_s3 (c : Cells) (p : Proto) (n : Nat) : (c.addDn p n).s3 = c.s3 := by cases p <;> rfl
@[simp] theorem Cells.addDn_up3 (c : Cells) (p : Proto) (n : Nat) : (c.addDn p n).up3 = c.up3 := by cases p <;> rfl
@[simp] theorem Cells.udpDelta_s1 (c : Cells) (a b : UdpFlows.St) : (c.udpDelta a b).s1 = c.s1 := rfl
@[simp] theorem Cells.udpDelta_s2 (c : Cells) (a b : UdpFlows.St) : (c.udpDelta a b).s2 = c.s2 := rfl
@[simp] theorem Cells.udpDelta_tcp (c : Cells) (a b : UdpFlows.St) : (c.udpDelta a b).tcp = c.tcp := rfl
@[simp] theorem Cells.udpDelta_up1 (c : Cells) (a b : UdpFlows.St) : (c.udpDelta a b).up1 = c.up1 := rfl
@[simp] theorem Cells.udpDelta_up2 (c : Cells) (a b : UdpFlows.St) : (c.udpDelta a b).up2 = c.up2 := rfl
@[simp] theorem Cells.udpDelta_dn1 (c : Cells) (a b : UdpFlows.St) : (c.udpDelta a b).dn1 = c.dn1 := rfl
@[simp] theorem Cells.udpDelta_dn2 (c : Cells) (a b : UdpFlows.St) : (c.udpDelta a b).dn2 = c.dn2 := rfl
@[simp] theorem Cells.udpDelta_s3 (c : Cells) (a b : UdpFlows.St) : (c.udpDelta a b).s3 = c.s3 := rfl
@[simp] theorem Cells.udpDelta_up3 (c : Cells) (a b : UdpFlows.St) : (c.udpDelta a b).up3 = c.up3 := rfl
@[simp] theorem Cells.udpDelta_dn3 (c : Cells) (a b : UdpFlows.St) : (c.udpDelta a b).dn3 = c.dn3 := rfl
@[simp] theorem Cells.tcpInc_tcp (c : Cells) : c.tcpInc.tcp = c.tcp + 1 := rfl
@[simp] theorem Cells.tcpDec_tcp (c : Cells) : c.tcpDec.tcp = c.tcp - 1 := rfl
@[simp] theorem Cells.udpDelta_udp (c : Cells) (a b : UdpFlows.St) :
    (c.udpDelta a b).udp = c.udp + (b.gauge : Int) - (a.gauge : Int) := rfl
theorem Cells.addUp_up1_le (c : Cells) (p : Proto) (n : Nat) : c.up1 ≤ (c.addUp p n).up1 := by
  cases p <;> simp [Cells.addUp]
theorem Cells.addUp_up2_le (c : Cells) (p : Proto) (n : Nat) : c.up2 ≤ (c.addUp p n).up2 := by
  cases p <;> simp [Cells.addUp]
theorem Cells.addUp_up3_le (c : Cells) (p : Proto) (n : Nat) : c.up3 ≤ (c.addUp p n).up3 := by
  cases p <;> simp [Cells.addUp]
theorem Cells.addDn_dn1_le (c : Cells) (p : Proto) (n : Nat) : c.dn1 ≤ (c.addDn p n).dn1 := by
  cases p <;> simp [Cells.addDn]
theorem Cells.addDn_dn2_le (c : Cells) (p : Proto) (n : Nat) : c.dn2 ≤ (c.addDn p n).dn2 := by
  cases p <;> simp [Cells.addDn]
theorem Cells.addDn_dn3_le (c : Cells) (p : Proto) (n : Nat) : c.dn3 ≤ (c.addDn p n).dn3 := by
  cases p <;> simp [Cells.addDn]

/-! ### basic facts about the state accessors -/

theorem default_tun_st : (default : Tun).st = .connecting 0 := rfl
theorem default_sess_alive : (default : Sess).alive = false := rfl

theorem aliveS_lt {s : St} {i : Nat} (h : aliveS s i = true) : i < s.sess.length := by
  apply Classical.byContradiction
  intro hn
  unfold aliveS at h
  rw [getD_ge _ _ (Nat.le_of_not_lt hn), default_sess_alive] at h
  cases h

theorem tun_lt_of_st_ne {s : St} {t : Nat} (h : (s.tuns.getD t default).st ≠ .connecting 0) :
    t < s.tuns.length := by
  apply Classical.byContradiction
  intro hn
  apply h
  rw [getD_ge _ _ (Nat.le_of_not_lt hn)]; rfl

theorem tun_lt_of_open {s : St} {t : Nat} {a b d} (h : (s.tuns.getD t default).st = .open a b d) :
    t < s.tuns.length := tun_lt_of_st_ne (by rw [h]; simp)
theorem tun_lt_of_mux {s : St} {t : Nat} {u} (h : (s.tuns.getD t default).st = .mux u) :
    t < s.tuns.length := tun_lt_of_st_ne (by rw [h]; simp)
theorem tun_lt_of_closed {s : St} {t : Nat} (h : (s.tuns.getD t default).st = .closed) :
    t < s.tuns.length := tun_lt_of_st_ne (by rw [h]; simp)
theorem tun_lt_of_imux {s : St} {t : Nat} (h : (s.tuns.getD t default).st = .imux) :
    t < s.tuns.length := tun_lt_of_st_ne (by rw [h]; simp)

theorem aliveS_congr {s s' : St} (h : s'.sess = s.sess) (i : Nat) : aliveS s' i = aliveS s i := by
  simp [aliveS, h]
theorem protoOf_congr {s s' : St} (h : s'.sess = s.sess) (i : Nat) : protoOf s' i = protoOf s i := by
  simp [protoOf, h]

/-! ### `setTun` -/

@[simp] theorem setTun_now (s : St) (t st) : (setTun s t st).now = s.now := rfl
@[simp] theorem setTun_sess (s : St) (t st) : (setTun s t st).sess = s.sess := rfl
@[simp] theorem setTun_cells (s : St) (t st) : (setTun s t st).cells = s.cells := rfl
@[simp] theorem setTun_length (s : St) (t st) : (setTun s t st).tuns.length = s.tuns.length := by
  simp [setTun]
theorem setTun_getD_ne (s : St) (t st) {j : Nat} (h : j ≠ t) :
    (setTun s t st).tuns.getD j default = s.tuns.getD j default := by
  simp [setTun, List.getD_eq_getElem?_getD, List.getElem?_set_ne (Ne.symm h)]
theorem setTun_getD_self (s : St) (t st) (h : t < s.tuns.length) :
    (setTun s t st).tuns.getD t default = { (s.tuns.getD t default) with st := st } := by
  simp [setTun, List.getD_eq_getElem?_getD, h]
theorem setTun_getD_sess (s : St) (t st) (j : Nat) :
    ((setTun s t st).tuns.getD j default).sess = (s.tuns.getD j default).sess := by
  by_cases h : j = t
  · subst h
    by_cases hl : j < s.tuns.length
    · rw [setTun_getD_self _ _ _ hl]
    · have hl' := Nat.le_of_not_lt hl
      rw [getD_ge _ _ hl', getD_ge _ _ (by simpa using hl')]
  · rw [setTun_getD_ne _ _ _ h]

theorem setTun_getD_self_ge (s : St) (t st) (h : s.tuns.length ≤ t) :
    (setTun s t st).tuns.getD t default = s.tuns.getD t default := by
  rw [getD_ge _ _ h, getD_ge _ _ (by simpa using h)]

attribute [-simp] List.getD_eq_getElem?_getD

/-! ### the common shape of the tunnel-local updates -/

/-- tunnel `t` gets state `st`, the cells become `cells` -/
def updTun (s : St) (t : Nat) (st : TunState) (cells : Cells) : St :=
  { setTun s t st with cells := cells }

theorem setTun_eq_upd (s : St) (t st) : setTun s t st = updTun s t st s.cells := rfl
theorem stepMux_eq_upd (c : Cfg) (s : St) (t u op) :
    stepMux c s t u op = updTun s t (.mux (UdpFlows.step c.udp u op).1)
      (((s.cells.udpDelta u (UdpFlows.step c.udp u op).1).addUp (protoOf s (s.tuns.getD t default).sess)
        ((UdpFlows.step c.udp u op).1.up - u.up)).addDn (protoOf s (s.tuns.getD t default).sess)
        ((UdpFlows.step c.udp u op).1.down - u.down)) := rfl

theorem closeTun_of_connecting {s : St} {t n} (h : (s.tuns.getD t default).st = .connecting n) :
    closeTun s t = updTun s t .closed s.cells.tcpDec := by
  unfold closeTun; rw [h]; rfl
theorem closeTun_of_open {s : St} {t a b d} (h : (s.tuns.getD t default).st = .open a b d) :
    closeTun s t = updTun s t .closed s.cells.tcpDec := by
  unfold closeTun; rw [h]; rfl
theorem closeTun_of_mux {s : St} {t u} (h : (s.tuns.getD t default).st = .mux u) :
    closeTun s t = updTun s t .closed (s.cells.udpDelta u { u with socks := [] }) := by
  unfold closeTun; rw [h]; rfl
theorem closeTun_of_closed {s : St} {t} (h : (s.tuns.getD t default).st = .closed) :
    closeTun s t = s := by
  unfold closeTun; rw [h]
theorem closeTun_of_imux {s : St} {t} (h : (s.tuns.getD t default).st = .imux) :
    closeTun s t = updTun s t .closed s.cells := by
  unfold closeTun; rw [h]; rfl

@[simp] theorem updTun_now (s : St) (t st cells) : (updTun s t st cells).now = s.now := rfl
@[simp] theorem updTun_sess (s : St) (t st cells) : (updTun s t st cells).sess = s.sess := rfl
@[simp] theorem updTun_cells (s : St) (t st cells) : (updTun s t st cells).cells = cells := rfl
@[simp] theorem updTun_tuns (s : St) (t st cells) : (updTun s t st cells).tuns = (setTun s t st).tuns := rfl
@[simp] theorem aliveS_updTun (s : St) (t st cells i) : aliveS (updTun s t st cells) i = aliveS s i := rfl
@[simp] theorem protoOf_updTun (s : St) (t st cells i) : protoOf (updTun s t st cells) i = protoOf s i := rfl

theorem updTun_getD (s : St) (t st cells) (j : Nat) :
    (updTun s t st cells).tuns.getD j default =
      if j = t ∧ t < s.tuns.length then { (s.tuns.getD t default) with st := st }
      else s.tuns.getD j default := by
  simp only [updTun_tuns]
  by_cases h : j = t
  · subst h
    by_cases hl : j < s.tuns.length
    · rw [setTun_getD_self _ _ _ hl, if_pos ⟨rfl, hl⟩]
    · rw [setTun_getD_self_ge _ _ _ (Nat.le_of_not_lt hl), if_neg (fun hh => hl hh.2)]
  · rw [setTun_getD_ne _ _ _ h, if_neg (fun hh => h hh.1)]

@[simp] theorem updTun_length (s : St) (t st cells) :
    (updTun s t st cells).tuns.length = s.tuns.length := by simp

/-! ### frame: what every transition below `step` keeps or only moves one way -/

structure Fr (s s' : St) : Prop where
  now : s'.now = s.now
  len : s'.tuns.length = s.tuns.length
  tsess : ∀ j, (s'.tuns.getD j default).sess = (s.tuns.getD j default).sess
  tcpw : ∀ j, tcpW (s'.tuns.getD j default) ≤ tcpW (s.tuns.getD j default)
  conn : ∀ j n, (s'.tuns.getD j default).st = .connecting n → (s.tuns.getD j default).st = .connecting n
  mux : ∀ j u, (s'.tuns.getD j default).st = .mux u → ∃ u0, (s.tuns.getD j default).st = .mux u0
  alive : ∀ i, aliveS s' i = true → aliveS s i = true
  ctcp : s'.cells.tcp ≤ s.cells.tcp
  up1 : s.cells.up1 ≤ s'.cells.up1
  up2 : s.cells.up2 ≤ s'.cells.up2
  up3 : s.cells.up3 ≤ s'.cells.up3
  dn1 : s.cells.dn1 ≤ s'.cells.dn1
  dn2 : s.cells.dn2 ≤ s'.cells.dn2
  dn3 : s.cells.dn3 ≤ s'.cells.dn3

theorem Fr.refl (s : St) : Fr s s :=
  ⟨rfl, rfl, fun _ => rfl, fun _ => Nat.le_refl _, fun _ _ h => h, fun _ u h => ⟨u, h⟩, fun _ h => h,
   Int.le_refl _, Nat.le_refl _, Nat.le_refl _, Nat.le_refl _, Nat.le_refl _, Nat.le_refl _, Nat.le_refl _⟩

theorem Fr.trans {a b d : St} (h1 : Fr a b) (h2 : Fr b d) : Fr a d where
  now := h2.now.trans h1.now
  len := h2.len.trans h1.len
  tsess j := (h2.tsess j).trans (h1.tsess j)
  tcpw j := Nat.le_trans (h2.tcpw j) (h1.tcpw j)
  conn j n h := h1.conn j n (h2.conn j n h)
  mux j u h := by obtain ⟨u0, h0⟩ := h2.mux j u h; exact h1.mux j u0 h0
  alive i h := h1.alive i (h2.alive i h)
  ctcp := Int.le_trans h2.ctcp h1.ctcp
  up1 := Nat.le_trans h1.up1 h2.up1
  up2 := Nat.le_trans h1.up2 h2.up2
  up3 := Nat.le_trans h1.up3 h2.up3
  dn1 := Nat.le_trans h1.dn1 h2.dn1
  dn2 := Nat.le_trans h1.dn2 h2.dn2
  dn3 := Nat.le_trans h1.dn3 h2.dn3

theorem Fr.upd (s : St) (t : Nat) (st : TunState) (cells : Cells)
    (hw : tcpW { (s.tuns.getD t default) with st := st } ≤ tcpW (s.tuns.getD t default))
    (hc : ∀ n, st = .connecting n → (s.tuns.getD t default).st = .connecting n)
    (hm : ∀ u, st = .mux u → ∃ u0, (s.tuns.getD t default).st = .mux u0)
    (h0 : cells.tcp ≤ s.cells.tcp) (h1 : s.cells.up1 ≤ cells.up1) (h2 : s.cells.up2 ≤ cells.up2)
    (h3 : s.cells.dn1 ≤ cells.dn1) (h4 : s.cells.dn2 ≤ cells.dn2)
    (h5 : s.cells.up3 ≤ cells.up3) (h6 : s.cells.dn3 ≤ cells.dn3) :
    Fr s (updTun s t st cells) where
  now := rfl
  len := by simp
  tsess j := by rw [updTun_getD]; split
                · next h => rw [h.1]
                · rfl
  tcpw j := by rw [updTun_getD]; split
               · next h => rw [h.1]; exact hw
               · exact Nat.le_refl _
  conn j n := by rw [updTun_getD]; split
                 · next h => rw [h.1]; exact hc n
                 · exact id
  mux j u := by rw [updTun_getD]; split
                · next h => rw [h.1]; exact hm u
                · exact fun h => ⟨u, h⟩
  alive i h := h
  ctcp := h0
  up1 := h1
  up2 := h2
  up3 := h5
  dn1 := h3
  dn2 := h4
  dn3 := h6

/-! ### the cells equal the object counts -/

structure Eq4 (s : St) : Prop where
  s1 : s.cells.s1 = ((s.sess.map (sessW .h1)).sum : Nat)
  s2 : s.cells.s2 = ((s.sess.map (sessW .h2)).sum : Nat)
  s3 : s.cells.s3 = ((s.sess.map (sessW .h3)).sum : Nat)
  tcp : s.cells.tcp = ((s.tuns.map tcpW).sum : Nat)
  udp : s.cells.udp = ((s.tuns.map udpW).sum : Nat)

theorem Eq4.upd {s : St} (h : Eq4 s) {t : Nat} (ht : t < s.tuns.length) (st : TunState) (cells : Cells)
    (h1 : cells.s1 = s.cells.s1) (h2 : cells.s2 = s.cells.s2)
    (h3 : cells.tcp + (tcpW (s.tuns.getD t default) : Nat)
            = s.cells.tcp + (tcpW { (s.tuns.getD t default) with st := st } : Nat))
    (h4 : cells.udp + (udpW (s.tuns.getD t default) : Nat)
            = s.cells.udp + (udpW { (s.tuns.getD t default) with st := st } : Nat))
    (h5 : cells.s3 = s.cells.s3) :
    Eq4 (updTun s t st cells) := by
  have e3 := sum_map_set tcpW s.tuns t { (s.tuns.getD t default) with st := st } default ht
  have e4 := sum_map_set udpW s.tuns t { (s.tuns.getD t default) with st := st } default ht
  obtain ⟨a1, a2, a5, a3, a4⟩ := h
  refine ⟨?_, ?_, ?_, ?_, ?_⟩
  · simpa [h1] using a1
  · simpa [h2] using a2
  · simpa [h5] using a5
  · show cells.tcp = (((s.tuns.set t _).map tcpW).sum : Nat); omega
  · show cells.udp = (((s.tuns.set t _).map udpW).sum : Nat); omega

/-! ### every multiplexer has a live client; pending connects are not from the future -/

def TunOk (ex : Nat → Prop) (e : Nat) (s : St) (tn : Tun) : Prop :=
  (∀ u, tn.st = .mux u → ¬ ex tn.sess → aliveS s tn.sess = true) ∧
  (∀ n, tn.st = .connecting n → n + e ≤ s.now)

def Inv2 (ex : Nat → Prop) (e : Nat) (s : St) : Prop :=
  ∀ j, j < s.tuns.length → TunOk ex e s (s.tuns.getD j default)

theorem Inv2.upd {ex e} {s : St} (h : Inv2 ex e s) (t : Nat) (st : TunState) (cells : Cells)
    (hc : ∀ n, st = .connecting n → (s.tuns.getD t default).st = .connecting n)
    (hm : ∀ u, st = .mux u → ∃ u0, (s.tuns.getD t default).st = .mux u0) :
    Inv2 ex e (updTun s t st cells) := by
  intro j hj
  have hj' : j < s.tuns.length := by simpa using hj
  rw [updTun_getD]
  split
  · next hh =>
    obtain ⟨rfl, _⟩ := hh
    refine ⟨fun u hu hx => ?_, fun n hn => ?_⟩
    · obtain ⟨u0, h0⟩ := hm u hu
      exact (h j hj').1 u0 h0 hx
    · exact (h j hj').2 n (hc n hn)
  · exact h j hj'

structure Pres (s s' : St) : Prop where
  fr : Fr s s'
  eq4 : Eq4 s → Eq4 s'
  inv2 : ∀ ex e, Inv2 ex e s → Inv2 ex e s'

theorem Pres.refl (s : St) : Pres s s := ⟨Fr.refl s, id, fun _ _ => id⟩
theorem Pres.trans {a b d : St} (h1 : Pres a b) (h2 : Pres b d) : Pres a d :=
  ⟨h1.fr.trans h2.fr, fun h => h2.eq4 (h1.eq4 h), fun ex e h => h2.inv2 ex e (h1.inv2 ex e h)⟩

theorem Pres.upd {s : St} {t : Nat} (ht : t < s.tuns.length) (st : TunState) (cells : Cells)
    (hw : tcpW { (s.tuns.getD t default) with st := st } ≤ tcpW (s.tuns.getD t default))
    (hc : ∀ n, st = .connecting n → (s.tuns.getD t default).st = .connecting n)
    (hm : ∀ u, st = .mux u → ∃ u0, (s.tuns.getD t default).st = .mux u0)
    (h0 : cells.tcp ≤ s.cells.tcp) (h1 : s.cells.up1 ≤ cells.up1) (h2 : s.cells.up2 ≤ cells.up2)
    (h3 : s.cells.dn1 ≤ cells.dn1) (h4 : s.cells.dn2 ≤ cells.dn2)
    (h5 : s.cells.up3 ≤ cells.up3) (h6 : s.cells.dn3 ≤ cells.dn3)
    (e1 : cells.s1 = s.cells.s1) (e2 : cells.s2 = s.cells.s2) (e5 : cells.s3 = s.cells.s3)
    (e3 : cells.tcp + (tcpW (s.tuns.getD t default) : Nat)
            = s.cells.tcp + (tcpW { (s.tuns.getD t default) with st := st } : Nat))
    (e4 : cells.udp + (udpW (s.tuns.getD t default) : Nat)
            = s.cells.udp + (udpW { (s.tuns.getD t default) with st := st } : Nat)) :
    Pres s (updTun s t st cells) :=
  ⟨Fr.upd s t st cells hw hc hm h0 h1 h2 h3 h4 h5 h6, fun h => h.upd ht st cells e1 e2 e3 e4 e5,
   fun _ _ h => h.upd t st cells hc hm⟩

theorem gauge_no_socks (u : UdpFlows.St) : ({ u with socks := [] } : UdpFlows.St).gauge = 0 := rfl

theorem Pres.of_closeTun (s : St) {t : Nat} (ht : t < s.tuns.length) : Pres s (closeTun s t) := by
  cases hst : (s.tuns.getD t default).st with
  | connecting n =>
    rw [closeTun_of_connecting hst]
    apply Pres.upd ht <;> simp [tcpW_of_connecting hst, udpW_of_connecting hst] <;> omega
  | «open» a b d =>
    rw [closeTun_of_open hst]
    apply Pres.upd ht <;> simp [tcpW_of_open hst, udpW_of_open hst] <;> omega
  | mux u =>
    rw [closeTun_of_mux hst]
    apply Pres.upd ht <;> simp [tcpW_of_mux hst, udpW_of_mux hst, gauge_no_socks]
  | imux =>
    rw [closeTun_of_imux hst]
    apply Pres.upd ht <;> simp [tcpW_of_imux hst, udpW_of_imux hst]
  | closed =>
    rw [closeTun_of_closed hst]; exact Pres.refl s

theorem Pres.of_setOpen (s : St) {t : Nat} {a b d : Bool} (h : (s.tuns.getD t default).st = .open a b d)
    (a' b' d' : Bool) : Pres s (setTun s t (.open a' b' d')) := by
  rw [setTun_eq_upd]
  apply Pres.upd (tun_lt_of_open h) <;> simp [tcpW_of_open h, udpW_of_open h]

theorem Pres.of_stepMux (c : Cfg) (s : St) {t : Nat} {u : UdpFlows.St}
    (h : (s.tuns.getD t default).st = .mux u) (op : UdpFlows.Op) : Pres s (stepMux c s t u op) := by
  rw [stepMux_eq_upd]
  apply Pres.upd (tun_lt_of_mux h)
  case hw => simp [tcpW_of_mux h]
  case hc => simp
  case hm => intro _ _; exact ⟨u, h⟩
  case h0 => simp
  case h1 => simpa using Cells.addUp_up1_le (s.cells.udpDelta u (UdpFlows.step c.udp u op).1) _ _
  case h2 => simpa using Cells.addUp_up2_le (s.cells.udpDelta u (UdpFlows.step c.udp u op).1) _ _
  case h3 => simpa using Cells.addDn_dn1_le ((s.cells.udpDelta u (UdpFlows.step c.udp u op).1).addUp _ _) _ _
  case h4 => simpa using Cells.addDn_dn2_le ((s.cells.udpDelta u (UdpFlows.step c.udp u op).1).addUp _ _) _ _
  case h5 => simpa using Cells.addUp_up3_le (s.cells.udpDelta u (UdpFlows.step c.udp u op).1) _ _
  case h6 => simpa using Cells.addDn_dn3_le ((s.cells.udpDelta u (UdpFlows.step c.udp u op).1).addUp _ _) _ _
  case e1 => simp
  case e2 => simp
  case e5 => simp
  case e3 => simp [tcpW_of_mux h]
  case e4 => simp [udpW_of_mux h]

/-! ### `clientGone` -/

def goneBody (i : Nat) (s : St) (t : Nat) : St :=
  let tn := s.tuns.getD t default
  if tn.sess = i then
    match tn.st with
    | .open _ _ true => closeTun s t
    | .open ce _ false => if protoOf s i = .h3 && !ce then closeTun s t else setTun s t (.open ce true false)
    | .mux _ | .imux => closeTun s t
    | _ => s
  else s

theorem clientGone_eq (s : St) (i : Nat) :
    clientGone s i = (List.range s.tuns.length).foldl (goneBody i) s := rfl

theorem Pres.of_goneBody (i : Nat) (s : St) (t : Nat) : Pres s (goneBody i s t) := by
  unfold goneBody
  simp only []
  split
  · split
    · next h => exact Pres.of_closeTun s (tun_lt_of_open h)
    · next ce o h =>
      split
      · exact Pres.of_closeTun s (tun_lt_of_open h)
      · exact Pres.of_setOpen s h _ _ _
    · next u h => exact Pres.of_closeTun s (tun_lt_of_mux h)
    · next h => exact Pres.of_closeTun s (tun_lt_of_imux h)
    · exact Pres.refl s
  · exact Pres.refl s

theorem Pres.of_clientGone (s : St) (i : Nat) : Pres s (clientGone s i) := by
  rw [clientGone_eq]
  exact foldl_inv (Pres s) (fun _ => True) (goneBody i)
    (fun s' t _ h => h.trans (Pres.of_goneBody i s' t)) _ (fun _ _ => trivial) s (Pres.refl s)

/-- tunnel `j`, if it belongs to session `i`, is not a multiplexer -/
def NoMux (i : Nat) (j : Nat) (s : St) : Prop :=
  (s.tuns.getD j default).sess = i → ∀ u, (s.tuns.getD j default).st ≠ .mux u

theorem NoMux.of_fr {i j : Nat} {s s' : St} (h : NoMux i j s) (f : Fr s s') : NoMux i j s' := by
  intro hs u hu
  obtain ⟨u0, h0⟩ := f.mux j u hu
  exact h ((f.tsess j).symm.trans hs) u0 h0

theorem goneBody_noMux (i : Nat) (s : St) (t : Nat) : NoMux i t (goneBody i s t) := by
  intro hs u hu
  have hs0 : (s.tuns.getD t default).sess = i := ((Pres.of_goneBody i s t).fr.tsess t).symm.trans hs
  unfold goneBody at hu
  simp only [hs0, if_true] at hu
  split at hu
  · next h =>
    rw [closeTun_of_open h, updTun_getD, if_pos ⟨rfl, tun_lt_of_open h⟩] at hu
    cases hu
  · next ce o h =>
    split at hu
    · rw [closeTun_of_open h, updTun_getD, if_pos ⟨rfl, tun_lt_of_open h⟩] at hu
      cases hu
    · rw [setTun_getD_self _ _ _ (tun_lt_of_open h)] at hu
      cases hu
  · next u0 h =>
    rw [closeTun_of_mux h, updTun_getD, if_pos ⟨rfl, tun_lt_of_mux h⟩] at hu
    cases hu
  · next h =>
    rw [closeTun_of_imux h, updTun_getD, if_pos ⟨rfl, tun_lt_of_imux h⟩] at hu
    cases hu
  · next h1 h2 h3 h4 => exact h3 u hu

theorem clientGone_noMux (s : St) (i j : Nat) : NoMux i j (clientGone s i) := by
  by_cases hj : j < s.tuns.length
  · rw [clientGone_eq]
    exact (foldl_range_all (goneBody i) (fun _ => True) (NoMux i) s.tuns.length
      (fun _ _ _ _ => trivial)
      (fun s' t j _ _ r => r.of_fr (Pres.of_goneBody i s' t).fr)
      (fun s' t _ _ => goneBody_noMux i s' t) s.tuns.length (Nat.le_refl _) s trivial).2 j hj
  · intro _ u hu
    have : (clientGone s i).tuns.length ≤ j := by
      rw [(Pres.of_clientGone s i).fr.len]; exact Nat.le_of_not_lt hj
    rw [getD_ge _ _ this] at hu
    cases hu

/-! ### `endSession` -/

@[simp] theorem endSession_tuns (s : St) (i : Nat) : (endSession s i).tuns = s.tuns := by
  unfold endSession; split <;> rfl
@[simp] theorem endSession_now (s : St) (i : Nat) : (endSession s i).now = s.now := by
  unfold endSession; split <;> rfl
@[simp] theorem endSession_tcp (s : St) (i : Nat) : (endSession s i).cells.tcp = s.cells.tcp := by
  unfold endSession; split <;> simp
@[simp] theorem endSession_udp (s : St) (i : Nat) : (endSession s i).cells.udp = s.cells.udp := by
  unfold endSession; split <;> simp
@[simp] theorem endSession_up1 (s : St) (i : Nat) : (endSession s i).cells.up1 = s.cells.up1 := by
  unfold endSession; split <;> simp
@[simp] theorem endSession_up2 (s : St) (i : Nat) : (endSession s i).cells.up2 = s.cells.up2 := by
  unfold endSession; split <;> simp
@[simp] theorem endSession_dn1 (s : St) (i : Nat) : (endSession s i).cells.dn1 = s.cells.dn1 := by
  unfold endSession; split <;> simp
@[simp] theorem endSession_dn2 (s : St) (i : Nat) : (endSession s i).cells.dn2 = s.cells.dn2 := by
  unfold endSession; split <;> simp
@[simp] theorem endSession_up3 (s : St) (i : Nat) : (endSession s i).cells.up3 = s.cells.up3 := by
  unfold endSession; split <;> simp
@[simp] theorem endSession_dn3 (s : St) (i : Nat) : (endSession s i).cells.dn3 = s.cells.dn3 := by
  unfold endSession; split <;> simp

theorem endSession_of_dead {s : St} {i : Nat} (h : aliveS s i = false) : endSession s i = s := by
  simp [endSession, h]

theorem aliveS_endSession (s : St) (i j : Nat) :
    aliveS (endSession s i) j = (aliveS s j && decide (j ≠ i)) := by
  unfold endSession
  split
  · next ha =>
    by_cases hj : j = i
    · subst hj
      simp [aliveS, getD_set_self _ _ _ (aliveS_lt ha)]
    · simp [aliveS, getD_set_ne _ _ _ hj, hj]
  · next ha =>
    by_cases hj : j = i
    · subst hj; simpa using ha
    · simp [hj]

theorem Fr.of_endSession (s : St) (i : Nat) : Fr s (endSession s i) where
  now := by simp
  len := by simp
  tsess j := by simp
  tcpw j := by simp
  conn j n := by simp
  mux j u h := ⟨u, by simpa using h⟩
  alive j h := by rw [aliveS_endSession] at h; simp at h; exact h.1
  ctcp := by simp
  up1 := by simp
  up2 := by simp
  up3 := by simp
  dn1 := by simp
  dn2 := by simp
  dn3 := by simp

theorem Eq4.of_endSession {s : St} (h : Eq4 s) (i : Nat) : Eq4 (endSession s i) := by
  unfold endSession
  split
  · next ha =>
    have hl := aliveS_lt ha
    have e1 := sum_map_set (sessW .h1) s.sess i { (s.sess.getD i default) with alive := false } default hl
    have e2 := sum_map_set (sessW .h2) s.sess i { (s.sess.getD i default) with alive := false } default hl
    have e3 := sum_map_set (sessW .h3) s.sess i { (s.sess.getD i default) with alive := false } default hl
    have ha' : (s.sess.getD i default).alive = true := ha
    obtain ⟨a1, a2, a5, a3, a4⟩ := h
    cases hp : (s.sess.getD i default).proto <;>
      simp [sessW, ha', hp] at e1 e2 e3 <;>
      refine ⟨?_, ?_, ?_, by simpa using a3, by simpa using a4⟩ <;>
      simp [protoOf, hp, Cells.sessDec, sessW] <;> omega
  · exact h

theorem Inv2.of_endSession {ex e} {s : St} (h : Inv2 ex e s) (i : Nat) :
    Inv2 (fun k => ex k ∨ k = i) e (endSession s i) := by
  intro j hj
  rw [endSession_tuns] at hj
  obtain ⟨m, c⟩ := h j hj
  unfold TunOk
  rw [endSession_tuns, endSession_now]
  refine ⟨fun u hu hx => ?_, c⟩
  rw [aliveS_endSession]
  have hx' : ¬ ex (s.tuns.getD j default).sess ∧ (s.tuns.getD j default).sess ≠ i := by
    constructor
    · exact fun h => hx (Or.inl h)
    · exact fun h => hx (Or.inr h)
  simp [m u hu hx'.1, hx'.2]

/-! ### a session ends and its tunnels with it -/

theorem Pres.of_endGone (s : St) (i : Nat) : Pres s (clientGone (endSession s i) i) where
  fr := (Fr.of_endSession s i).trans (Pres.of_clientGone _ i).fr
  eq4 h := (Pres.of_clientGone _ i).eq4 (h.of_endSession i)
  inv2 ex e h := by
    have h2 := (Pres.of_clientGone _ i).inv2 _ _ (h.of_endSession i)
    intro j hj
    obtain ⟨m, c⟩ := h2 j hj
    refine ⟨fun u hu hx => m u hu ?_, c⟩
    intro hor
    rcases hor with h' | h'
    · exact hx h'
    · exact clientGone_noMux (endSession s i) i j h' u hu

theorem endIfH1_eq (s : St) (i : Nat) :
    endIfH1 s i = if protoOf s i = .h1 then clientGone (endSession s i) i else s := rfl

theorem Pres.of_endIfH1 (s : St) (i : Nat) : Pres s (endIfH1 s i) := by
  rw [endIfH1_eq]; split
  · exact Pres.of_endGone s i
  · exact Pres.refl s

/-! ### the clock advances -/

def advBody (c : Cfg) (ms : Nat) (s : St) (t : Nat) : St :=
  let tn := s.tuns.getD t default
  match tn.st with
  | .connecting since =>
    if since + c.establish ≤ s.now then endIfH1 (closeTun s t) tn.sess else s
  | .open _ _ _ =>
    if 2 * c.tcpIdle ≤ ms then endIfH1 (closeTun s t) tn.sess else s
  | .mux u => stepMux c s t u (.adv ms)
  | .imux => s
  | .closed => s

theorem step_adv_eq (c : Cfg) (s : St) (ms : Nat) :
    step c s (.adv ms) =
      (List.range s.tuns.length).foldl (advBody c ms) { s with now := s.now + ms } := rfl

theorem Pres.of_advBody (c : Cfg) (ms : Nat) (s : St) {t : Nat} (ht : t < s.tuns.length) :
    Pres s (advBody c ms s t) := by
  unfold advBody
  simp only []
  split
  · split
    · exact (Pres.of_closeTun s ht).trans (Pres.of_endIfH1 _ _)
    · exact Pres.refl s
  · split
    · exact (Pres.of_closeTun s ht).trans (Pres.of_endIfH1 _ _)
    · exact Pres.refl s
  · next u h => exact Pres.of_stepMux c s h _
  · exact Pres.refl s
  · exact Pres.refl s

theorem Pres.of_advFold (c : Cfg) (ms : Nat) (s : St) (l : List Nat) (hl : ∀ t ∈ l, t < s.tuns.length) :
    Pres s (l.foldl (advBody c ms) s) :=
  foldl_inv (Pres s) (fun t => t < s.tuns.length) (advBody c ms)
    (fun s' t ht h => h.trans (Pres.of_advBody c ms s' (by rw [h.fr.len]; exact ht))) l hl s (Pres.refl s)

/-! ### one `step` -/

abbrev noEx : Nat → Prop := fun _ => False

structure StepOk (s s' : St) : Prop where
  eq4 : Eq4 s → Eq4 s'
  inv2 : Inv2 noEx 0 s → Inv2 noEx 0 s'
  up1 : s.cells.up1 ≤ s'.cells.up1
  up2 : s.cells.up2 ≤ s'.cells.up2
  up3 : s.cells.up3 ≤ s'.cells.up3
  dn1 : s.cells.dn1 ≤ s'.cells.dn1
  dn2 : s.cells.dn2 ≤ s'.cells.dn2
  dn3 : s.cells.dn3 ≤ s'.cells.dn3

theorem StepOk.refl (s : St) : StepOk s s :=
  ⟨id, id, Nat.le_refl _, Nat.le_refl _, Nat.le_refl _, Nat.le_refl _, Nat.le_refl _, Nat.le_refl _⟩

theorem StepOk.trans {a b d : St} (h1 : StepOk a b) (h2 : StepOk b d) : StepOk a d :=
  ⟨fun h => h2.eq4 (h1.eq4 h), fun h => h2.inv2 (h1.inv2 h), Nat.le_trans h1.up1 h2.up1,
   Nat.le_trans h1.up2 h2.up2, Nat.le_trans h1.up3 h2.up3, Nat.le_trans h1.dn1 h2.dn1,
   Nat.le_trans h1.dn2 h2.dn2, Nat.le_trans h1.dn3 h2.dn3⟩

theorem Pres.ok {s s' : St} (h : Pres s s') : StepOk s s' :=
  ⟨h.eq4, h.inv2 _ _, h.fr.up1, h.fr.up2, h.fr.up3, h.fr.dn1, h.fr.dn2, h.fr.dn3⟩

/-- only the byte counters change -/
theorem StepOk.cells (s : St) (cells : Cells) (e1 : cells.s1 = s.cells.s1) (e2 : cells.s2 = s.cells.s2)
    (e3 : cells.tcp = s.cells.tcp) (e4 : cells.udp = s.cells.udp)
    (h1 : s.cells.up1 ≤ cells.up1) (h2 : s.cells.up2 ≤ cells.up2)
    (h3 : s.cells.dn1 ≤ cells.dn1) (h4 : s.cells.dn2 ≤ cells.dn2)
    (e5 : cells.s3 = s.cells.s3) (h5 : s.cells.up3 ≤ cells.up3) (h6 : s.cells.dn3 ≤ cells.dn3) :
    StepOk s { s with cells := cells } :=
  ⟨fun h => ⟨e1.trans h.s1, e2.trans h.s2, e5.trans h.s3, e3.trans h.tcp, e4.trans h.udp⟩, fun h => h,
   h1, h2, h5, h3, h4, h6⟩

theorem getD_append_left {α : Type} (l : List α) (a d : α) {j : Nat} (h : j < l.length) :
    (l ++ [a]).getD j d = l.getD j d := by
  simp [List.getD_eq_getElem?_getD, List.getElem?_append_left h]

theorem getD_append_last {α : Type} (l : List α) (a d : α) : (l ++ [a]).getD l.length d = a := by
  simp [List.getD_eq_getElem?_getD]

/-- a tunnel is appended -/
theorem StepOk.append (s : St) (tn : Tun) (cells : Cells)
    (e1 : cells.s1 = s.cells.s1) (e2 : cells.s2 = s.cells.s2)
    (e3 : cells.tcp = s.cells.tcp + (tcpW tn : Nat)) (e4 : cells.udp = s.cells.udp + (udpW tn : Nat))
    (h1 : s.cells.up1 ≤ cells.up1) (h2 : s.cells.up2 ≤ cells.up2)
    (h3 : s.cells.dn1 ≤ cells.dn1) (h4 : s.cells.dn2 ≤ cells.dn2)
    (hok : TunOk noEx 0 s tn)
    (e5 : cells.s3 = s.cells.s3) (h5 : s.cells.up3 ≤ cells.up3) (h6 : s.cells.dn3 ≤ cells.dn3) :
    StepOk s { s with tuns := s.tuns ++ [tn], cells := cells } where
  eq4 h := by
    obtain ⟨a1, a2, a5, a3, a4⟩ := h
    refine ⟨e1.trans a1, e2.trans a2, e5.trans a5, ?_, ?_⟩
    · simp only [List.map_append, List.sum_append, List.map_cons, List.map_nil, List.sum_cons, List.sum_nil]
      omega
    · simp only [List.map_append, List.sum_append, List.map_cons, List.map_nil, List.sum_cons, List.sum_nil]
      omega
  inv2 h := by
    intro j hj
    simp only [List.length_append, List.length_cons, List.length_nil] at hj
    by_cases hjl : j < s.tuns.length
    · show TunOk noEx 0 _ ((s.tuns ++ [tn]).getD j default)
      rw [getD_append_left _ _ _ hjl]
      exact h j hjl
    · have : j = s.tuns.length := by omega
      subst this
      show TunOk noEx 0 _ ((s.tuns ++ [tn]).getD s.tuns.length default)
      rw [getD_append_last]
      exact hok
  up1 := h1
  up2 := h2
  up3 := h5
  dn1 := h3
  dn2 := h4
  dn3 := h6

theorem aliveS_sessOpen (s : St) (x : Sess) (cells : Cells) {i : Nat} (h : aliveS s i = true) :
    aliveS { s with sess := s.sess ++ [x], cells := cells } i = true := by
  have hl := aliveS_lt h
  unfold aliveS at h ⊢
  show ((s.sess ++ [x]).getD i default).alive = true
  rw [getD_append_left _ _ _ hl]; exact h

theorem StepOk.sessOpen (s : St) (p : Proto) :
    StepOk s { s with sess := s.sess ++ [{ proto := p, alive := true }], cells := s.cells.sessInc p } where
  eq4 h := by
    obtain ⟨a1, a2, a5, a3, a4⟩ := h
    refine ⟨?_, ?_, ?_, by simpa using a3, by simpa using a4⟩ <;>
      cases p <;> simp [Cells.sessInc, sessW] <;> omega
  inv2 h := by
    intro j hj
    obtain ⟨m, c⟩ := h j hj
    exact ⟨fun u hu hx => aliveS_sessOpen s _ _ (m u hu hx), c⟩
  up1 := by simp
  up2 := by simp
  up3 := by simp
  dn1 := by simp
  dn2 := by simp
  dn3 := by simp

theorem StepOk.now (s : St) (ms : Nat) : StepOk s { s with now := s.now + ms } where
  eq4 h := ⟨h.s1, h.s2, h.s3, h.tcp, h.udp⟩
  inv2 h := by
    intro j hj
    obtain ⟨m, c⟩ := h j hj
    exact ⟨m, fun n hn => Nat.le_trans (c n hn) (Nat.le_add_right _ _)⟩
  up1 := Nat.le_refl _
  up2 := Nat.le_refl _
  up3 := Nat.le_refl _
  dn1 := Nat.le_refl _
  dn2 := Nat.le_refl _
  dn3 := Nat.le_refl _

theorem TunOk.of_not (s : St) (tn : Tun) (h1 : ∀ u, tn.st ≠ .mux u) (h2 : ∀ n, tn.st ≠ .connecting n) :
    TunOk noEx 0 s tn :=
  And.intro (fun u hu => absurd hu (h1 u)) (fun n hn => absurd hn (h2 n))

theorem muxInit_gauge (c : Cfg) (now : Nat) : (muxInit c now).gauge = 0 := rfl

theorem step_ok (c : Cfg) (s : St) (op : Op) : StepOk s (step c s op) := by
  cases op with
  | sessOpen p => exact StepOk.sessOpen s p
  | sessClose i => exact (Pres.of_endGone s i).ok
  | tunOpen i k =>
    simp only [step]
    split
    · exact StepOk.append s _ s.cells rfl rfl (by simp) (by simp) (Nat.le_refl _) (Nat.le_refl _)
        (Nat.le_refl _) (Nat.le_refl _) (TunOk.of_not _ _ (fun u hu => nomatch hu) (fun n hn => nomatch hn)) rfl (Nat.le_refl _) (Nat.le_refl _)
    · next hcond =>
      have ha : aliveS s i = true := by
        cases h : aliveS s i
        · simp [h] at hcond
        · rfl
      cases k with
      | origin =>
        exact StepOk.append s _ _ rfl rfl (by simp) (by simp) (Nat.le_refl _) (Nat.le_refl _)
          (Nat.le_refl _) (Nat.le_refl _) (TunOk.of_not _ _ (fun u hu => nomatch hu) (fun n hn => nomatch hn)) rfl (Nat.le_refl _) (Nat.le_refl _)
      | dead =>
        exact (StepOk.append s { sess := i, st := .closed } s.cells rfl rfl (by simp) (by simp)
          (Nat.le_refl _) (Nat.le_refl _)
          (Nat.le_refl _) (Nat.le_refl _) (TunOk.of_not _ _ (fun u hu => nomatch hu) (fun n hn => nomatch hn)) rfl (Nat.le_refl _) (Nat.le_refl _)).trans
          (Pres.of_endIfH1 _ i).ok
      | hang =>
        exact StepOk.append s _ _ rfl rfl (by simp) (by simp) (Nat.le_refl _) (Nat.le_refl _)
          (Nat.le_refl _) (Nat.le_refl _)
          (And.intro (fun u hu => nomatch hu) (fun n hn => (by cases hn; exact Nat.le_refl _))) rfl (Nat.le_refl _) (Nat.le_refl _)
      | udp =>
        exact StepOk.append s _ s.cells rfl rfl (by simp) (by simp [muxInit_gauge]) (Nat.le_refl _)
          (Nat.le_refl _) (Nat.le_refl _) (Nat.le_refl _)
          (And.intro (fun u _ _ => ha) (fun n hn => nomatch hn)) rfl (Nat.le_refl _) (Nat.le_refl _)
      | icmp =>
        exact StepOk.append s _ s.cells rfl rfl (by simp) (by simp) (Nat.le_refl _)
          (Nat.le_refl _) (Nat.le_refl _) (Nat.le_refl _)
          (TunOk.of_not _ _ (fun u hu => nomatch hu) (fun n hn => nomatch hn)) rfl (Nat.le_refl _) (Nat.le_refl _)
  | up t n =>
    simp only [step]
    split
    · exact StepOk.cells s _ (by simp) (by simp) (by simp) (by simp) (Cells.addUp_up1_le _ _ _)
        (Cells.addUp_up2_le _ _ _) (by simp) (by simp) (by simp) (Cells.addUp_up3_le _ _ _) (by simp)
    · exact StepOk.refl s
  | down t n =>
    simp only [step]
    split
    · exact StepOk.cells s _ (by simp) (by simp) (by simp) (by simp) (by simp) (by simp)
        (Cells.addDn_dn1_le _ _ _) (Cells.addDn_dn2_le _ _ _) (by simp) (by simp) (Cells.addDn_dn3_le _ _ _)
    · next h => exact (Pres.of_closeTun s (tun_lt_of_open h)).ok
    · exact StepOk.refl s
    · exact StepOk.refl s
  | tunClose t how =>
    simp only [step]
    split
    · split
      · next h =>
        split
        · exact ((Pres.of_closeTun s (tun_lt_of_open h)).trans (Pres.of_endIfH1 _ _)).ok
        · exact (Pres.of_setOpen s h _ _ _).ok
      · exact StepOk.refl s
    · split
      · exact StepOk.refl s
      · split
        · exact (Pres.of_endGone s _).ok
        · split
          · split
            · next h => exact (Pres.of_closeTun s (tun_lt_of_open h)).ok
            · next h => exact (Pres.of_setOpen s h _ _ _).ok
            · next h => exact (Pres.of_closeTun s (tun_lt_of_mux h)).ok
            · next h => exact (Pres.of_closeTun s (tun_lt_of_imux h)).ok
            · exact StepOk.refl s
          · split
            · next h => exact (Pres.of_closeTun s (tun_lt_of_open h)).ok
            · next h => exact (Pres.of_closeTun s (tun_lt_of_mux h)).ok
            · next h => exact (Pres.of_closeTun s (tun_lt_of_imux h)).ok
            · next h => exact (Pres.of_closeTun s (tun_lt_of_open h)).ok
            · next h => exact (Pres.of_setOpen s h _ _ _).ok
            · exact StepOk.refl s
  | udpUp t m n =>
    simp only [step]
    split
    · next h => exact (Pres.of_stepMux c s h _).ok
    · exact StepOk.refl s
  | udpDown t m n =>
    simp only [step]
    split
    · next h => exact (Pres.of_stepMux c s h _).ok
    · exact StepOk.refl s
  | icmpEcho t answered n =>
    simp only [step]
    split
    · split
      · exact StepOk.cells s _ (by simp) (by simp) (by simp) (by simp)
          (by simpa using Cells.addUp_up1_le s.cells _ _)
          (by simpa using Cells.addUp_up2_le s.cells _ _)
          (by simpa using Cells.addDn_dn1_le (s.cells.addUp _ _) _ _)
          (by simpa using Cells.addDn_dn2_le (s.cells.addUp _ _) _ _)
          (by simp)
          (by simpa using Cells.addUp_up3_le s.cells _ _)
          (by simpa using Cells.addDn_dn3_le (s.cells.addUp _ _) _ _)
      · exact StepOk.refl s
    · exact StepOk.refl s
  | adv ms =>
    rw [step_adv_eq]
    exact (StepOk.now s ms).trans
      (Pres.of_advFold c ms _ _ (fun t ht => by simpa using ht)).ok

/-! ### histories -/

theorem run_snoc (c : Cfg) (s : St) (ops : List Op) (op : Op) :
    run c s (ops ++ [op]) = step c (run c s ops) op := by
  simp [run, List.foldl_append]

theorem run_append (c : Cfg) (s : St) (a b : List Op) : run c s (a ++ b) = run c (run c s a) b := by
  simp [run, List.foldl_append]

theorem run_inv (c : Cfg) (P : St → Prop) (hstep : ∀ s op, P s → P (step c s op)) (s : St) (h : P s)
    (ops : List Op) : P (run c s ops) := by
  induction ops generalizing s with
  | nil => exact h
  | cons op ops ih => exact ih _ (hstep s op h)

theorem eq4_init : Eq4 {} := ⟨rfl, rfl, rfl, rfl, rfl⟩
theorem inv2_init : Inv2 noEx 0 {} := fun j hj => absurd hj (Nat.not_lt_zero j)

theorem run_eq4 (c : Cfg) (ops : List Op) : Eq4 (run c {} ops) :=
  run_inv c Eq4 (fun s op h => (step_ok c s op).eq4 h) _ eq4_init ops

theorem run_inv2 (c : Cfg) (ops : List Op) : Inv2 noEx 0 (run c {} ops) :=
  run_inv c (Inv2 noEx 0) (fun s op h => (step_ok c s op).inv2 h) _ inv2_init ops

theorem Eq4.live {s : St} (h : Eq4 s) :
    s.cells.s1 = (liveSessions s .h1 : Int) ∧ s.cells.s2 = (liveSessions s .h2 : Int) ∧
    s.cells.s3 = (liveSessions s .h3 : Int) ∧
    s.cells.tcp = (liveTcp s : Int) ∧ s.cells.udp = (liveUdp s : Int) := by
  rw [liveSessions_eq, liveSessions_eq, liveSessions_eq, liveTcp_eq, liveUdp_eq]
  exact ⟨h.s1, h.s2, h.s3, h.tcp, h.udp⟩

/-! ### all clients gone -/

theorem sum_map_zero {α : Type} (f : α → Nat) (l : List α) (h : ∀ x ∈ l, f x = 0) : (l.map f).sum = 0 := by
  induction l with
  | nil => rfl
  | cons x xs ih =>
    simp only [List.map_cons, List.sum_cons]
    rw [h x List.mem_cons_self, ih (fun y hy => h y (List.mem_cons_of_mem _ hy))]

theorem mem_getD {α : Type} {l : List α} {x : α} (d : α) (h : x ∈ l) : ∃ j, j < l.length ∧ l.getD j d = x := by
  obtain ⟨j, hj, e⟩ := List.mem_iff_getElem.mp h
  exact ⟨j, hj, by simp [List.getD_eq_getElem?_getD, hj, e]⟩

def AllDead (s : St) : Prop := ∀ x ∈ s.sess, x.alive = false

theorem AllDead.not_alive {s : St} (h : AllDead s) (k : Nat) : aliveS s k = false := by
  by_cases hk : k < s.sess.length
  · unfold aliveS
    have : s.sess.getD k default = s.sess[k] := by simp [List.getD_eq_getElem?_getD, hk]
    rw [this]; exact h _ (List.getElem_mem hk)
  · cases hh : aliveS s k
    · rfl
    · exact absurd (aliveS_lt hh) hk

theorem AllDead.of_not_alive {s : St} (h : ∀ k, aliveS s k = false) : AllDead s := by
  intro x hx
  obtain ⟨j, _, e⟩ := mem_getD default hx
  have := h j
  unfold aliveS at this
  rw [e] at this; exact this

theorem AllDead.sess_zero {s : St} (h : AllDead s) (p : Proto) : (s.sess.map (sessW p)).sum = 0 :=
  sum_map_zero _ _ (fun x hx => by simp [sessW, h x hx])

theorem AllDead.udp_zero {s : St} (h : AllDead s) (hi : Inv2 noEx 0 s) : (s.tuns.map udpW).sum = 0 := by
  apply sum_map_zero
  intro tn htn
  obtain ⟨j, hj, e⟩ := mem_getD default htn
  have ok := hi j hj
  rw [e] at ok
  cases hst : tn.st with
  | mux u =>
    have := ok.1 u hst (fun hf => hf)
    rw [h.not_alive] at this
    cases this
  | connecting n => exact udpW_of_connecting hst
  | «open» a b d => exact udpW_of_open hst
  | imux => exact udpW_of_imux hst
  | closed => exact udpW_of_closed hst

theorem gone_sessions_udp_zero {s : St} (he : Eq4 s) (hi : Inv2 noEx 0 s) (h : AllDead s) :
    s.cells.s1 = 0 ∧ s.cells.s2 = 0 ∧ s.cells.s3 = 0 ∧ s.cells.udp = 0 := by
  refine ⟨?_, ?_, ?_, ?_⟩
  · rw [he.s1, h.sess_zero]; rfl
  · rw [he.s2, h.sess_zero]; rfl
  · rw [he.s3, h.sess_zero]; rfl
  · rw [he.udp, h.udp_zero hi]; rfl

theorem closeTun_getD_ne (s : St) (t : Nat) {j : Nat} (h : j ≠ t) :
    (closeTun s t).tuns.getD j default = s.tuns.getD j default := by
  cases hst : (s.tuns.getD t default).st with
  | connecting n => rw [closeTun_of_connecting hst, updTun_getD, if_neg (fun hh => h hh.1)]
  | «open» a b d => rw [closeTun_of_open hst, updTun_getD, if_neg (fun hh => h hh.1)]
  | mux u => rw [closeTun_of_mux hst, updTun_getD, if_neg (fun hh => h hh.1)]
  | imux => rw [closeTun_of_imux hst, updTun_getD, if_neg (fun hh => h hh.1)]
  | closed => rw [closeTun_of_closed hst]

theorem closeTun_tcpW_self (s : St) {t : Nat} (ht : t < s.tuns.length) :
    tcpW ((closeTun s t).tuns.getD t default) = 0 := by
  cases hst : (s.tuns.getD t default).st with
  | connecting n => rw [closeTun_of_connecting hst, updTun_getD, if_pos ⟨rfl, ht⟩]; rfl
  | «open» a b d => rw [closeTun_of_open hst, updTun_getD, if_pos ⟨rfl, ht⟩]; rfl
  | mux u => rw [closeTun_of_mux hst, updTun_getD, if_pos ⟨rfl, ht⟩]; rfl
  | imux => rw [closeTun_of_imux hst, updTun_getD, if_pos ⟨rfl, ht⟩]; rfl
  | closed => rw [closeTun_of_closed hst]; exact tcpW_of_closed hst

/-- after the timeouts ran out, tunnel `t` holds no TCP socket -/
theorem advBody_tcpW_self (c : Cfg) (ms : Nat) (s : St) {t : Nat} (ht : t < s.tuns.length)
    (hi : 2 * c.tcpIdle ≤ ms) (hc : Inv2 noEx c.establish s) :
    tcpW ((advBody c ms s t).tuns.getD t default) = 0 := by
  have closed : tcpW ((endIfH1 (closeTun s t) (s.tuns.getD t default).sess).tuns.getD t default) = 0 :=
    Nat.le_zero.mp (Nat.le_trans ((Pres.of_endIfH1 _ _).fr.tcpw t) (Nat.le_of_eq (closeTun_tcpW_self s ht)))
  unfold advBody
  simp only []
  split
  · next since h =>
    rw [if_pos ((hc t ht).2 since h)]; exact closed
  · rw [if_pos hi]; exact closed
  · next u h =>
    rw [stepMux_eq_upd, updTun_getD, if_pos ⟨rfl, ht⟩]; rfl
  · next h => exact tcpW_of_imux h
  · next h => exact tcpW_of_closed h

theorem adv_tcp_zero (c : Cfg) (ms : Nat) (s : St) (he : Eq4 s) (h2 : Inv2 noEx 0 s)
    (hi : 2 * c.tcpIdle ≤ ms) (hest : c.establish ≤ ms) : (step c s (.adv ms)).cells.tcp = 0 := by
  have e4 := (step_ok c s (.adv ms)).eq4 he
  rw [e4.tcp]
  suffices h : ((step c s (.adv ms)).tuns.map tcpW).sum = 0 by rw [h]; rfl
  rw [step_adv_eq]
  let s0 : St := { s with now := s.now + ms }
  have hs0 : Inv2 noEx c.establish s0 := fun j hj =>
    ⟨(h2 j hj).1, fun n hn => by have := (h2 j hj).2 n hn; show n + c.establish ≤ s.now + ms; omega⟩
  have key := foldl_range_all (advBody c ms)
    (fun s1 => Fr s0 s1 ∧ Inv2 noEx c.establish s1)
    (fun j s1 => tcpW (s1.tuns.getD j default) = 0) s0.tuns.length
    (fun s1 t ht p =>
      have pr := Pres.of_advBody c ms s1 (t := t) (by rw [p.1.len]; exact ht)
      ⟨p.1.trans pr.fr, pr.inv2 _ _ p.2⟩)
    (fun s1 t j ht p r =>
      have pr := Pres.of_advBody c ms s1 (t := t) (by rw [p.1.len]; exact ht)
      Nat.le_zero.mp (Nat.le_trans (pr.fr.tcpw j) (Nat.le_of_eq r)))
    (fun s1 t ht p => advBody_tcpW_self c ms s1 (by rw [p.1.len]; exact ht) hi p.2)
    s0.tuns.length (Nat.le_refl _) s0 ⟨Fr.refl s0, hs0⟩
  apply sum_map_zero
  intro tn htn
  obtain ⟨j, hj, e⟩ := mem_getD default htn
  rw [← e]
  exact key.2 j (by rw [← key.1.1.len]; exact hj)

/-! ### the TCP gauge through `clientGone` / `endIfH1` -/

theorem endIfH1_tcp_le (s : St) (i : Nat) : (endIfH1 s i).cells.tcp ≤ s.cells.tcp :=
  (Pres.of_endIfH1 s i).fr.ctcp

theorem foldl_fix {σ : Type} (f : σ → Nat → σ) (s : σ) (l : List Nat) (h : ∀ t ∈ l, f s t = s) :
    l.foldl f s = s := by
  induction l with
  | nil => rfl
  | cons t ts ih =>
    simp only [List.foldl_cons]
    rw [h t List.mem_cons_self]
    exact ih (fun t' ht' => h t' (List.mem_cons_of_mem _ ht'))

/-- a client none of whose tunnels holds anything leaves nothing to do -/
theorem clientGone_of_closed (s : St) (i : Nat)
    (h : ∀ j, j < s.tuns.length → (s.tuns.getD j default).sess = i → (s.tuns.getD j default).st = .closed) :
    clientGone s i = s := by
  rw [clientGone_eq]
  apply foldl_fix
  intro t ht
  have ht' := List.mem_range.mp ht
  unfold goneBody
  simp only []
  split
  · next hs => rw [h t ht' hs]
  · rfl

theorem step_dead_tcp (c : Cfg) (s : St) (i : Nat) :
    (step c s (.tunOpen i .dead)).cells.tcp = s.cells.tcp := by
  simp only [step]
  split
  · rfl
  · next hcond =>
    rw [endIfH1_eq]
    split
    · next hp =>
      have hp' : protoOf s i = .h1 := hp
      have hany : ∀ x ∈ s.tuns, ¬ x.sess = i := by
        have := hcond
        simp [hp'] at this
        exact this.2
      rw [clientGone_of_closed, endSession_tcp]
      intro j hj hs
      rw [endSession_tuns] at hj hs ⊢
      simp only [List.length_append, List.length_cons, List.length_nil] at hj
      by_cases hjl : j < s.tuns.length
      · exfalso
        rw [getD_append_left _ _ _ hjl] at hs
        obtain ⟨x, hx⟩ : ∃ x, s.tuns.getD j default = x ∧ x ∈ s.tuns :=
          ⟨s.tuns[j], by simp [List.getD_eq_getElem?_getD, hjl], List.getElem_mem hjl⟩
        rw [hx.1] at hs
        exact hany _ hx.2 hs
      · have : j = s.tuns.length := by omega
        subst this
        rw [getD_append_last]
    · rfl

/-! ### a multiplexed (HTTP/2 or HTTP/3) tunnel through the two half-closes -/

theorem closeTun_sess (s : St) (t : Nat) : (closeTun s t).sess = s.sess := by
  unfold closeTun; split <;> rfl

theorem endIfH1_of_h2 (s : St) (i : Nat) (h : protoOf s i ≠ .h1) : endIfH1 s i = s := by
  rw [endIfH1_eq, if_neg h]

theorem step_originClose_h2 (c : Cfg) (s : St) (t : Nat)
    (h : (s.tuns.getD t default).st = .open false false false)
    (hp : protoOf s (s.tuns.getD t default).sess ≠ .h1) :
    step c s (.tunClose t 's') = setTun s t (.open false false true) := by
  simp only [step, if_true]
  rw [h]
  simp [hp]

theorem step_originClose_h2_ended (c : Cfg) (s : St) (t : Nat) (o : Bool)
    (h : (s.tuns.getD t default).st = .open true o false)
    (hp : protoOf s (s.tuns.getD t default).sess ≠ .h1) :
    step c s (.tunClose t 's') = closeTun s t := by
  simp only [step, if_true]
  rw [h]
  simp only [Bool.or_true, Bool.true_or, if_true]
  exact endIfH1_of_h2 _ _ (by rw [protoOf_congr (closeTun_sess s t)]; exact hp)

theorem step_clientEnd_h2 (c : Cfg) (s : St) (t : Nat) (ce o : Bool)
    (h : (s.tuns.getD t default).st = .open ce o false)
    (hp : protoOf s (s.tuns.getD t default).sess ≠ .h1)
    (ha : aliveS s (s.tuns.getD t default).sess = true) :
    step c s (.tunClose t 'g') = setTun s t (.open true o false) := by
  simp only [step]
  rw [if_neg (by decide), ha, if_neg hp, h]
  simp

theorem step_clientEnd_h2_ended (c : Cfg) (s : St) (t : Nat) (ce o : Bool)
    (h : (s.tuns.getD t default).st = .open ce o true)
    (hp : protoOf s (s.tuns.getD t default).sess ≠ .h1)
    (ha : aliveS s (s.tuns.getD t default).sess = true) :
    step c s (.tunClose t 'g') = closeTun s t := by
  simp only [step]
  rw [if_neg (by decide), ha, if_neg hp, h]
  simp

theorem half_close_both (c : Cfg) (s : St) (t : Nat)
    (h : (s.tuns.getD t default).st = .open false false false)
    (hp : protoOf s (s.tuns.getD t default).sess ≠ .h1)
    (ha : aliveS s (s.tuns.getD t default).sess = true)
    (ht : t < s.tuns.length) :
    (step c s (.tunClose t 's')).cells.tcp = s.cells.tcp ∧
    (step c (step c s (.tunClose t 's')) (.tunClose t 'g')).cells.tcp = s.cells.tcp - 1 ∧
    (step c (step c s (.tunClose t 'g')) (.tunClose t 's')).cells.tcp = s.cells.tcp - 1 := by
  rw [step_originClose_h2 c s t h hp, step_clientEnd_h2 c s t _ _ h hp ha]
  refine ⟨rfl, ?_, ?_⟩
  · have e : ((setTun s t (.open false false true)).tuns.getD t default) =
        { (s.tuns.getD t default) with st := .open false false true } := setTun_getD_self _ _ _ ht
    have h' : ((setTun s t (.open false false true)).tuns.getD t default).st = .open false false true := by
      rw [e]
    rw [step_clientEnd_h2_ended c _ t _ _ h' (by rw [e]; exact hp) (by rw [e]; exact ha),
      closeTun_of_open h']
    rfl
  · have e : ((setTun s t (.open true false false)).tuns.getD t default) =
        { (s.tuns.getD t default) with st := .open true false false } := setTun_getD_self _ _ _ ht
    have h' : ((setTun s t (.open true false false)).tuns.getD t default).st = .open true false false := by
      rw [e]
    rw [step_originClose_h2_ended c _ t _ h' (by rw [e]; exact hp), closeTun_of_open h']
    rfl

/-! ### a pending connect is left alone by everything but its own timeout -/

theorem goneBody_conn (i : Nat) (s : St) (t : Nat) {j n : Nat}
    (h : (s.tuns.getD j default).st = .connecting n) :
    ((goneBody i s t).tuns.getD j default).st = .connecting n := by
  by_cases hjt : j = t
  · subst hjt
    unfold goneBody
    simp only []
    split
    · rw [h]; exact h
    · exact h
  · unfold goneBody
    simp only []
    split
    · split
      · rw [closeTun_getD_ne _ _ hjt]; exact h
      · split
        · rw [closeTun_getD_ne _ _ hjt]; exact h
        · rw [setTun_getD_ne _ _ _ hjt]; exact h
      · rw [closeTun_getD_ne _ _ hjt]; exact h
      · rw [closeTun_getD_ne _ _ hjt]; exact h
      · exact h
    · exact h

theorem clientGone_conn (s : St) (i : Nat) {j n : Nat} (h : (s.tuns.getD j default).st = .connecting n) :
    ((clientGone s i).tuns.getD j default).st = .connecting n := by
  rw [clientGone_eq]
  exact foldl_inv (fun s' => (s'.tuns.getD j default).st = .connecting n) (fun _ => True) (goneBody i)
    (fun s' t _ h' => goneBody_conn i s' t h') _ (fun _ _ => trivial) s h

theorem endIfH1_conn (s : St) (i : Nat) {j n : Nat} (h : (s.tuns.getD j default).st = .connecting n) :
    ((endIfH1 s i).tuns.getD j default).st = .connecting n := by
  rw [endIfH1_eq]; split
  · exact clientGone_conn _ i (by rw [endSession_tuns]; exact h)
  · exact h

theorem advBody_conn (c : Cfg) (ms : Nat) (s : St) {t j n : Nat} (hjt : j ≠ t)
    (h : (s.tuns.getD j default).st = .connecting n) :
    ((advBody c ms s t).tuns.getD j default).st = .connecting n := by
  unfold advBody
  simp only []
  split
  · split
    · exact endIfH1_conn _ _ (by rw [closeTun_getD_ne _ _ hjt]; exact h)
    · exact h
  · split
    · exact endIfH1_conn _ _ (by rw [closeTun_getD_ne _ _ hjt]; exact h)
    · exact h
  · rw [stepMux_eq_upd, updTun_getD, if_neg (fun hh => hjt hh.1)]; exact h
  · exact h
  · exact h

theorem advBody_of_conn_due (c : Cfg) (ms : Nat) (s : St) {t since : Nat}
    (h : (s.tuns.getD t default).st = .connecting since) (hd : since + c.establish ≤ s.now) :
    advBody c ms s t = endIfH1 (closeTun s t) (s.tuns.getD t default).sess := by
  unfold advBody
  simp only []
  rw [h]
  simp only []
  rw [if_pos hd]

theorem step_hang_eq (c : Cfg) (s : St) (i : Nat) (ha : aliveS s i = true)
    (hn : ¬ (protoOf s i = .h1 ∧ s.tuns.any (·.sess = i) = true)) :
    step c s (.tunOpen i .hang) =
      { s with tuns := s.tuns ++ [{ sess := i, st := .connecting s.now }], cells := s.cells.tcpInc } := by
  simp only [step]
  rw [if_neg]
  intro hcond
  apply hn
  simpa [ha] using hcond

theorem hang_released (c : Cfg) (s : St) (i ms : Nat) (ha : aliveS s i = true)
    (hn : ¬ (protoOf s i = .h1 ∧ s.tuns.any (·.sess = i) = true)) (he : c.establish ≤ ms) :
    (step c s (.tunOpen i .hang)).cells.tcp = s.cells.tcp + 1 ∧
    (step c (step c s (.tunOpen i .hang)) (.adv ms)).cells.tcp ≤ s.cells.tcp := by
  rw [step_hang_eq c s i ha hn]
  refine ⟨rfl, ?_⟩
  rw [step_adv_eq]
  simp only [List.length_append, List.length_cons, List.length_nil, Nat.zero_add, List.range_succ,
    List.foldl_append, List.foldl_cons, List.foldl_nil]
  generalize hs1 : (St.mk (s.now + ms) s.sess (s.tuns ++ [{ sess := i, st := TunState.connecting s.now }])
    s.cells.tcpInc) = s1
  have hlen : s1.tuns.length = s.tuns.length + 1 := by subst hs1; simp
  have hnow : s1.now = s.now + ms := by subst hs1; rfl
  have htcp : s1.cells.tcp = s.cells.tcp + 1 := by subst hs1; rfl
  have hconn : (s1.tuns.getD s.tuns.length default).st = .connecting s.now := by
    subst hs1; show ((s.tuns ++ [_]).getD s.tuns.length default).st = _
    rw [getD_append_last]
  generalize hs2 : (List.range s.tuns.length).foldl (advBody c ms) s1 = s2
  have pr : Pres s1 s2 := by
    rw [← hs2]
    exact Pres.of_advFold c ms s1 _ (fun t ht => by rw [hlen]; have := List.mem_range.mp ht; omega)
  have hconn2 : (s2.tuns.getD s.tuns.length default).st = .connecting s.now := by
    rw [← hs2]
    exact foldl_inv (fun s' => (s'.tuns.getD s.tuns.length default).st = .connecting s.now)
      (fun t => t ≠ s.tuns.length) (advBody c ms)
      (fun s' t ht h' => advBody_conn c ms s' (Ne.symm ht) h') (List.range s.tuns.length)
      (fun t ht => by have := List.mem_range.mp ht; omega) s1 hconn
  rw [advBody_of_conn_due c ms s2 hconn2 (by rw [pr.fr.now, hnow]; omega)]
  have h1 := endIfH1_tcp_le (closeTun s2 (s.tuns.length)) (s2.tuns.getD s.tuns.length default).sess
  rw [closeTun_of_connecting hconn2] at h1 ⊢
  have := pr.fr.ctcp
  simp only [updTun_cells, Cells.tcpDec_tcp] at h1
  omega

theorem adv_allDead (c : Cfg) (ms : Nat) (s : St) (h : AllDead s) : AllDead (step c s (.adv ms)) := by
  apply AllDead.of_not_alive
  intro k
  cases hk : aliveS (step c s (.adv ms)) k
  · rfl
  · rw [step_adv_eq] at hk
    have h1 := (Pres.of_advFold c ms _ _ (fun t ht => by simpa using ht)).fr.alive k hk
    have h0 : aliveS s k = false := h.not_alive k
    have h2 : aliveS s k = true := h1
    rw [h0] at h2; cases h2

theorem gone_everything_zero (c : Cfg) (ms : Nat) (s : St) (he : Eq4 s) (h2 : Inv2 noEx 0 s)
    (h : AllDead s) (hi : 2 * c.tcpIdle ≤ ms) (hest : c.establish ≤ ms) :
    (step c s (.adv ms)).cells.s1 = 0 ∧ (step c s (.adv ms)).cells.s2 = 0 ∧
    (step c s (.adv ms)).cells.s3 = 0 ∧
    (step c s (.adv ms)).cells.tcp = 0 ∧ (step c s (.adv ms)).cells.udp = 0 := by
  have ok := step_ok c s (.adv ms)
  obtain ⟨a, b, b3, d⟩ := gone_sessions_udp_zero (ok.eq4 he) (ok.inv2 h2) (adv_allDead c ms s h)
  exact ⟨a, b, b3, adv_tcp_zero c ms s he h2 hi hest, d⟩

end TT.Metrics
