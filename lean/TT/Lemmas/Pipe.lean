import TT.Model.Pipe
namespace TT.Pipe
open TT

def Inv (s : St) : Prop :=
  match s.phase with
  | .top => s.delivered ++ s.pending.getD [] = s.readSoFar ∧ s.consumed = s.delivered.length ∧
      s.metered = s.delivered.length
  | .gotData d => s.pending = none ∧ s.delivered ++ d = s.readSoFar ∧ s.consumed = s.delivered.length ∧
      s.metered = s.delivered.length
  | .wrote sent rest => s.pending = none ∧ s.delivered ++ rest = s.readSoFar ∧
      s.consumed + sent = s.delivered.length ∧ s.metered + sent = s.delivered.length
  | .metered sent rest => s.pending = none ∧ s.delivered ++ rest = s.readSoFar ∧
      s.consumed + sent = s.delivered.length ∧ s.metered = s.delivered.length
  | .eofing | .flushing | .finished => s.pending = none ∧ s.delivered = s.readSoFar ∧ s.sawEof = true ∧
      s.consumed = s.delivered.length ∧ s.metered = s.delivered.length
  | .failed => s.delivered <+: s.readSoFar ∧ s.consumed ≤ s.delivered.length ∧
      s.metered ≤ s.delivered.length

theorem inv_init : Inv {} := by simp [Inv]

theorem inv_weak {s : St} (h : Inv s) :
    s.delivered <+: s.readSoFar ∧ s.consumed ≤ s.delivered.length ∧ s.metered ≤ s.delivered.length := by
  unfold Inv at h
  split at h
  · obtain ⟨h1, h2, h3⟩ := h; exact ⟨⟨_, h1⟩, by omega, by omega⟩
  · obtain ⟨_, h1, h2, h3⟩ := h; exact ⟨⟨_, h1⟩, by omega, by omega⟩
  · obtain ⟨_, h1, h2, h3⟩ := h; exact ⟨⟨_, h1⟩, by omega, by omega⟩
  · obtain ⟨_, h1, h2, h3⟩ := h; exact ⟨⟨_, h1⟩, by omega, by omega⟩
  · obtain ⟨_, h1, _, h2, h3⟩ := h; exact ⟨h1 ▸ List.prefix_refl _, by omega, by omega⟩
  · obtain ⟨_, h1, _, h2, h3⟩ := h; exact ⟨h1 ▸ List.prefix_refl _, by omega, by omega⟩
  · obtain ⟨_, h1, _, h2, h3⟩ := h; exact ⟨h1 ▸ List.prefix_refl _, by omega, by omega⟩
  · exact h

theorem inv_fail {s : St} (h : Inv s) : Inv { s with phase := .failed } := by
  have := inv_weak h
  simpa [Inv] using this

theorem inv_feed {s : St} (r : Resp) (h : Inv s) : Inv (feed s r) := by
  have hf := inv_fail h
  cases hp : s.phase <;> cases r <;> simp only [feed, hp] <;> try exact hf
  all_goals simp only [Inv, hp] at h
  case top.chunk bs =>
    split
    · next hn =>
      simp only [Option.isNone_iff_eq_none] at hn
      simp [Inv, hn] at h ⊢
      simp [← h.1, h.2]
    · exact hf
  case top.eof =>
    split
    · next hn =>
      simp only [Option.isNone_iff_eq_none] at hn
      simp [Inv, hn] at h ⊢
      simp [h]
    · exact hf
  case top.unit =>
    split
    · next d hd => simp [Inv, hd] at h ⊢; exact h
    · exact hf
  case top.timeout => simpa [Inv, hp] using h
  case gotData.accepted d k =>
    split
    · next hk =>
      obtain ⟨h1, h2, h3, h4⟩ := h
      simp [Inv, h1, ← h2, List.length_take, Nat.min_eq_left hk]
      omega
    · exact hf
  case wrote.unit sent rest =>
    obtain ⟨h1, h2, h3, h4⟩ := h
    simp [Inv, h1, h2]; omega
  case metered.unit sent rest =>
    obtain ⟨h1, h2, h3, h4⟩ := h
    simp [Inv, ← h2]
    refine ⟨?_, by omega, by omega⟩
    cases rest <;> simp
  case eofing.unit => simpa [Inv] using h
  case flushing.unit => simpa [Inv] using h

theorem run_nil (s : St) : run s [] = s := rfl
theorem run_cons (s : St) (r : Resp) (rs : List Resp) : run s (r :: rs) = run (feed s r) rs := rfl
theorem run_append (s : St) (rs rs' : List Resp) : run s (rs ++ rs') = run (run s rs) rs' := by
  simp [run, List.foldl_append]
theorem run_snoc (s : St) (rs : List Resp) (r : Resp) : run s (rs ++ [r]) = feed (run s rs) r := by
  simp [run, List.foldl_append]

theorem inv_run {s : St} (rs : List Resp) (h : Inv s) : Inv (run s rs) := by
  induction rs generalizing s with
  | nil => exact h
  | cons r rs ih => exact ih (inv_feed r h)

theorem inv_reach (rs : List Resp) : Inv (run {} rs) := inv_run rs inv_init

/-! failure is absorbing -/

theorem feed_failed {s : St} (r : Resp) (h : s.phase = .failed) :
    (feed s r).phase = .failed ∧ (feed s r).delivered = s.delivered := by
  cases r <;> simp [feed, h]

theorem run_failed {s : St} (rs : List Resp) (h : s.phase = .failed) :
    (run s rs).phase = .failed ∧ (run s rs).delivered = s.delivered := by
  induction rs generalizing s with
  | nil => exact ⟨h, rfl⟩
  | cons r rs ih =>
    have := feed_failed r h
    rw [run_cons]
    exact ⟨(ih this.1).1, (ih this.1).2.trans this.2⟩

/-! call order -/

theorem calls_after_eof {s : St} (rs : List Resp)
    (h : s.phase = .flushing ∨ s.phase = .finished ∨ s.phase = .failed) :
    ∀ c ∈ calls s rs, c = Call.flush := by
  induction rs generalizing s with
  | nil => simp [calls]
  | cons r rs ih =>
    rcases h with h | h | h
    · have hn : next s = some .flush := by simp [next, h]
      simp only [calls, hn]
      intro c hc
      rcases List.mem_cons.1 hc with rfl | hc
      · rfl
      · refine ih ?_ c hc
        cases r <;> simp [feed, h]
    · simp [calls, next, h]
    · simp [calls, next, h]

theorem calls_split_eof {s : St} (rs : List Resp) (pre post : List Call)
    (h : calls s rs = pre ++ Call.sinkEof :: post) : ∀ c ∈ post, c = Call.flush := by
  induction rs generalizing s pre with
  | nil => simp [calls] at h
  | cons r rs ih =>
    simp only [calls] at h
    split at h
    · next c hn =>
      cases pre with
      | nil =>
        simp only [List.nil_append, List.cons.injEq] at h
        obtain ⟨rfl, h⟩ := h
        have hp : s.phase = .eofing := by
          simp only [next] at hn
          split at hn <;> simp_all
          split at hn <;> simp_all
        rw [← h]
        apply calls_after_eof
        cases r <;> simp [feed, hp]
      | cons p pre =>
        simp only [List.cons_append, List.cons.injEq] at h
        exact ih pre h.2
    · simp at h


/-! ### duplex arbitration -/

theorem drun_nil (d : Duplex) : drun d [] = d := rfl
theorem drun_cons (d : Duplex) (e : Dir × Resp) (evs) : drun d (e :: evs) = drun (dstep d e.1 e.2) evs := rfl
theorem drun_append (d : Duplex) (evs evs' : List (Dir × Resp)) :
    drun d (evs ++ evs') = drun (drun d evs) evs' := by
  simp [drun, List.foldl_append]
theorem drun_snoc (d : Duplex) (evs : List (Dir × Resp)) (e : Dir × Resp) :
    drun d (evs ++ [e]) = dstep (drun d evs) e.1 e.2 := by
  simp [drun, List.foldl_append]

theorem dstep_decided {d : Duplex} (who : Dir) (r : Resp) (h : d.outcome ≠ .running) : dstep d who r = d := by
  simp [dstep, h]

theorem drun_decided {d : Duplex} (evs : List (Dir × Resp)) (h : d.outcome ≠ .running) : drun d evs = d := by
  induction evs with
  | nil => rfl
  | cons e evs ih => rw [drun_cons, dstep_decided _ _ h, ih]

/-- the arbitration invariant -/
def DInv (d : Duplex) : Prop :=
  (d.outcome = .ok → d.left.phase = .finished ∧ d.right.phase = .finished) ∧
  (d.outcome = .running → d.left.phase ≠ .failed ∧ d.right.phase ≠ .failed) ∧
  (∃ l, d.left = run {} l) ∧ (∃ l, d.right = run {} l)

theorem dinv_init : DInv {} := by
  refine ⟨by simp, by simp, ⟨[], rfl⟩, ⟨[], rfl⟩⟩

theorem dinv_step {d : Duplex} (who : Dir) (r : Resp) (h : DInv d) : DInv (dstep d who r) := by
  obtain ⟨h1, h2, ⟨ll, h3⟩, ⟨lr, h4⟩⟩ := h
  unfold dstep
  split
  · exact ⟨h1, h2, ⟨ll, h3⟩, ⟨lr, h4⟩⟩
  next hr =>
  simp only [bne_iff_ne, ne_eq, Decidable.not_not] at hr
  have h2 := h2 hr
  have hL : ∃ l, feed d.left r = run {} l := ⟨ll ++ [r], by rw [run_snoc, ← h3]⟩
  have hR : ∃ l, feed d.right r = run {} l := ⟨lr ++ [r], by rw [run_snoc, ← h4]⟩
  cases who <;> simp only
  all_goals
    split
    · exact ⟨h1, fun _ => h2, ⟨ll, h3⟩, ⟨lr, h4⟩⟩
    split
    · exact ⟨by simp, by simp, ⟨ll, h3⟩, ⟨lr, h4⟩⟩
    split
    · refine ⟨by simp, by simp, ?_, ?_⟩ <;>
        first | exact ⟨ll, h3⟩ | exact ⟨lr, h4⟩ | exact hL | exact hR
    next hnf =>
    simp only [beq_iff_eq] at hnf
    split
    · next hfin =>
      simp only [Bool.and_eq_true, beq_iff_eq] at hfin
      refine ⟨fun _ => hfin, by simp, ?_, ?_⟩ <;>
        first | exact ⟨ll, h3⟩ | exact ⟨lr, h4⟩ | exact hL | exact hR
    · refine ⟨by simp [hr], fun _ => ?_, ?_, ?_⟩
      · first | exact ⟨hnf, h2.2⟩ | exact ⟨h2.1, hnf⟩
      all_goals first | exact ⟨ll, h3⟩ | exact ⟨lr, h4⟩ | exact hL | exact hR

theorem dinv_run {d : Duplex} (evs : List (Dir × Resp)) (h : DInv d) : DInv (drun d evs) := by
  induction evs generalizing d with
  | nil => exact h
  | cons e evs ih => exact ih (dinv_step e.1 e.2 h)

theorem dinv_reach (evs : List (Dir × Resp)) : DInv (drun {} evs) := dinv_run evs dinv_init


/-! ### idle timer -/

/-- `Timer.WF` of the property file, unfolded -/
def WFt (tm : Timer) : Prop := tm.laL ≤ tm.sL ∧ tm.laR ≤ tm.sR ∧ 0 < tm.T

/-- `Adm` of the property file -/
def AdmAll : Timer → List TEv → Prop
  | _, [] => True
  | tm, e :: es => admissible tm e = true ∧ AdmAll (tstep tm e) es

theorem trun_nil (tm : Timer) : trun tm [] = tm := rfl
theorem trun_cons (tm : Timer) (e : TEv) (es : List TEv) : trun tm (e :: es) = trun (tstep tm e) es := rfl
theorem trun_append (tm : Timer) (es es' : List TEv) : trun tm (es ++ es') = trun (trun tm es) es' := by
  simp [trun, List.foldl_append]

theorem tstep_expired {tm : Timer} (e : TEv) (h : tm.expired.isSome = true) : tstep tm e = tm := by
  simp [tstep, h]

theorem trun_expired {tm : Timer} (es : List TEv) (h : tm.expired.isSome = true) : trun tm es = tm := by
  induction es with
  | nil => rfl
  | cons e es ih => rw [trun_cons, tstep_expired e h, ih]

theorem tstep_T (tm : Timer) (e : TEv) : (tstep tm e).T = tm.T := by
  unfold tstep
  split
  · rfl
  · rcases e with ⟨_ | _, t⟩ | ⟨_ | _⟩ <;> simp only <;> first | rfl | (split <;> rfl)

theorem wft_step {tm : Timer} {e : TEv} (h : WFt tm) (ha : admissible tm e = true) : WFt (tstep tm e) := by
  obtain ⟨h1, h2, h3⟩ := h
  unfold tstep
  split
  · exact ⟨h1, h2, h3⟩
  · rcases e with ⟨_ | _, t⟩ | ⟨_ | _⟩ <;> simp only
    · exact ⟨Nat.le_refl _, h2, h3⟩
    · exact ⟨h1, Nat.le_refl _, h3⟩
    all_goals
      simp [admissible] at ha
      split
      · exact ⟨h1, h2, h3⟩
      · simp only [WFt]; omega

/-- one admissible step from an open state: either the state stays open, the `last_activity`
marks only grow (and a `progress` sets its direction's mark), or the step is a `fire` that closes
the tunnel strictly more than `T` after both marks -/
theorem tstep_open {tm : Timer} {e : TEv} (h0 : tm.expired = none) (hw : WFt tm)
    (ha : admissible tm e = true) :
    ((tstep tm e).expired = none ∧ tm.laL ≤ (tstep tm e).laL ∧ tm.laR ≤ (tstep tm e).laR ∧
      (∀ t, e = .progress .left t → (tstep tm e).laL = t) ∧
      (∀ t, e = .progress .right t → (tstep tm e).laR = t)) ∨
    (∃ c, (tstep tm e).expired = some c ∧ tm.laL + tm.T < c ∧ tm.laR + tm.T < c ∧
      ∀ d t, e ≠ .progress d t) := by
  obtain ⟨h1, h2, h3⟩ := hw
  cases e with
  | progress d t =>
    left
    cases d <;> simp [admissible] at ha <;> simp [tstep, h0] <;> omega
  | fire d =>
    cases d <;> simp only [tstep, h0, Option.isSome_none, Bool.false_eq_true, ↓reduceIte]
    all_goals
      split
      · next hc =>
        right
        simp only [Bool.and_eq_true, decide_eq_true_eq] at hc
        exact ⟨_, rfl, hc.1, hc.2, by simp⟩
      · left
        simp

theorem expiry_after_marks {tm : Timer} (es : List TEv) (h0 : tm.expired = none) (hw : WFt tm)
    (ha : AdmAll tm es) (c : Nat) (hc : (trun tm es).expired = some c) :
    tm.laL + tm.T < c ∧ tm.laR + tm.T < c := by
  induction es generalizing tm with
  | nil => simp [trun_nil, h0] at hc
  | cons e es ih =>
    obtain ⟨ha1, ha2⟩ := ha
    rw [trun_cons] at hc
    rcases tstep_open h0 hw ha1 with ⟨hn, hl, hr, -, -⟩ | ⟨c', he, hl, hr, -⟩
    · have := ih hn (wft_step hw ha1) ha2 hc
      rw [tstep_T] at this
      omega
    · rw [trun_expired _ (by simp [he]), he] at hc
      cases hc
      exact ⟨hl, hr⟩

/-- corrected form of "never early": every transfer recorded while the tunnel was still open
happened more than `T` before the closing time -/
theorem progress_before_expiry {tm : Timer} (es es' : List TEv) (h0 : tm.expired = none) (hw : WFt tm)
    (ha : AdmAll tm (es ++ es')) (hopen : (trun tm es).expired = none)
    (c : Nat) (hc : (trun tm (es ++ es')).expired = some c) :
    ∀ d t, TEv.progress d t ∈ es → t + tm.T < c := by
  induction es generalizing tm with
  | nil => simp
  | cons e es ih =>
    obtain ⟨ha1, ha2⟩ := ha
    rw [List.cons_append, trun_cons] at hc
    rw [trun_cons] at hopen
    rcases tstep_open h0 hw ha1 with ⟨hn, -, -, hpl, hpr⟩ | ⟨c', he, -⟩
    · intro d t hm
      rcases List.mem_cons.1 hm with rfl | hm
      · have := expiry_after_marks _ hn (wft_step hw ha1) ha2 c hc
        rw [tstep_T] at this
        cases d
        · rw [hpl t rfl] at this; exact this.1
        · rw [hpr t rfl] at this; exact this.2
      · have := ih hn (wft_step hw ha1) ha2 hopen hc d t hm
        rwa [tstep_T] at this
    · rw [trun_expired _ (by simp [he]), he] at hopen
      cases hopen


/-- one idle firing, fully spelled out -/
theorem idle_step (tm : Timer) (h0 : tm.expired = none) :
    tstep tm (idleFire tm) =
      (let c := min tm.sL tm.sR + tm.T
       if tm.laL + tm.T < c ∧ tm.laR + tm.T < c then { tm with expired := some c }
       else { tm with sL := c, sR := c }) := by
  unfold idleFire
  by_cases h : tm.sL ≤ tm.sR
  · simp [tstep, h0, h, Nat.min_eq_left h]
  · have h' : tm.sR ≤ tm.sL := by omega
    simp [tstep, h0, h, Nat.min_eq_right h']

theorem idle_bound (tm : Timer) (a : Nat) (h0 : tm.expired = none)
    (hw : tm.laL ≤ tm.sL ∧ tm.laR ≤ tm.sR ∧ 0 < tm.T)
    (ha : a = max tm.laL tm.laR)
    (hs : tm.sL ≤ a ∧ tm.sR ≤ a ∧ a ≤ tm.sL + tm.T ∧ a ≤ tm.sR + tm.T) :
    ∃ n c, n ≤ 3 ∧ (idleRun n tm).expired = some c ∧ a + tm.T < c ∧ c ≤ a + 2 * tm.T := by
  obtain ⟨w1, w2, w3⟩ := hw
  obtain ⟨s1, s2, s3, s4⟩ := hs
  have hm1 : min tm.sL tm.sR ≤ a := by omega
  have hm2 : a ≤ min tm.sL tm.sR + tm.T := by omega
  have hla : tm.laL ≤ a ∧ tm.laR ≤ a ∧ (tm.laL = a ∨ tm.laR = a) := by omega
  generalize hm : min tm.sL tm.sR = m at hm1 hm2
  -- the first firing never closes: it happens at `m + T ≤ a + T`
  have e1 : tstep tm (idleFire tm) = { tm with sL := m + tm.T, sR := m + tm.T } := by
    rw [idle_step tm h0, hm]
    simp only
    rw [if_neg (by omega)]
  by_cases hlt : a < m + tm.T
  · refine ⟨2, m + tm.T + tm.T, by omega, ?_, by omega, by omega⟩
    simp only [idleRun, e1]
    rw [idle_step { tm with sL := m + tm.T, sR := m + tm.T } h0]
    simp only [Nat.min_self]
    rw [if_pos (by omega)]
  · have hme : m + tm.T = a := by omega
    refine ⟨3, a + tm.T + tm.T, by omega, ?_, by omega, by omega⟩
    simp only [idleRun, e1, hme]
    rw [idle_step { tm with sL := a, sR := a } h0]
    simp only [Nat.min_self]
    rw [if_neg (by omega)]
    rw [idle_step { tm with sL := a + tm.T, sR := a + tm.T } h0]
    simp only [Nat.min_self]
    rw [if_pos (by omega)]

end TT.Pipe
