import TT.Model.Pipe
namespace TT.Pipe
end TT.Pipe
