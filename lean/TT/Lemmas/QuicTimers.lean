import TT.Model.QuicTimers
namespace TT.QuicTimers

theorem minDeadline_le : ∀ (d : List (Conn × Nat)) (m : Nat), minDeadline d = some m → ∀ e ∈ d, m ≤ e.2
  | [], m, h, e, he => by cases he
  | x :: rest, m, h, e, he => by
    simp only [minDeadline] at h
    cases hr : minDeadline rest with
    | none =>
      rw [hr] at h
      simp only [Option.some.injEq] at h
      have hnil : rest = [] := by
        cases rest with
        | nil => rfl
        | cons y ys =>
          simp only [minDeadline] at hr
          cases hy : minDeadline ys <;> rw [hy] at hr <;> cases hr
      subst hnil
      simp only [List.mem_cons, List.not_mem_nil, or_false] at he
      subst he
      omega
    | some m' =>
      rw [hr] at h
      simp only [Option.some.injEq] at h
      rcases List.mem_cons.1 he with he | he
      · subst he; omega
      · have := minDeadline_le rest m' hr e he
        omega

theorem minDeadline_isSome_of_mem : ∀ (d : List (Conn × Nat)) (e : Conn × Nat), e ∈ d → (minDeadline d).isSome = true
  | [], e, he => by cases he
  | x :: rest, e, _ => by
    simp only [minDeadline]
    cases minDeadline rest <;> rfl

theorem minDeadline_mem : ∀ (d : List (Conn × Nat)) (m : Nat), minDeadline d = some m → ∃ e ∈ d, e.2 = m
  | [], m, h => by cases h
  | x :: rest, m, h => by
    simp only [minDeadline] at h
    cases hr : minDeadline rest with
    | none =>
      rw [hr] at h
      simp only [Option.some.injEq] at h
      exact ⟨x, by simp, h⟩
    | some m' =>
      rw [hr] at h
      simp only [Option.some.injEq] at h
      by_cases hx : x.2 ≤ m'
      · exact ⟨x, by simp, by omega⟩
      · obtain ⟨e, he, hem⟩ := minDeadline_mem rest m' hr
        exact ⟨e, by simp [he], by omega⟩

theorem mem_put {d : List (Conn × Nat)} {c : Conn} {t : Nat} {e : Conn × Nat} (h : e ∈ put d c t) :
    (e ∈ d ∧ e.1 ≠ c) ∨ e = (c, t) := by
  unfold put at h
  rcases List.mem_append.1 h with h | h
  · left
    have := List.mem_filter.1 h
    exact ⟨this.1, by simpa using this.2⟩
  · right
    simpa using h

theorem mem_foldl_put : ∀ (rearm : List (Conn × Nat)) (d : List (Conn × Nat)) (e : Conn × Nat),
    e ∈ rearm.foldl (fun d x => put d x.1 x.2) d → e ∈ d ∨ e ∈ rearm
  | [], d, e, h => Or.inl h
  | r :: rs, d, e, h => by
    simp only [List.foldl_cons] at h
    rcases mem_foldl_put rs _ e h with h | h
    · rcases mem_put h with h | h
      · exact Or.inl h.1
      · right; rw [h]; simp
    · right; simp [h]

/-- `closest` is never later than any armed deadline (so it is `some` whenever one is armed) -/
def Inv (s : St) : Prop := ∀ e ∈ s.deadlines, ∃ c, s.closest = some c ∧ c ≤ e.2

theorem inv_init : Inv {} := by
  intro e he; cases he

theorem inv_step (s : St) (op : Op) (h : Inv s) : Inv (step s op) := by
  cases op with
  | arm c t =>
    intro e he
    simp only [step] at he ⊢
    rcases mem_put he with ⟨hm, _⟩ | rfl
    · obtain ⟨c0, hc0, hle⟩ := h e hm
      rw [hc0]
      by_cases ht : t < c0
      · exact ⟨t, by simp [ht], by omega⟩
      · exact ⟨c0, by simp [ht], hle⟩
    · cases hc : s.closest with
      | none => exact ⟨t, rfl, Nat.le_refl _⟩
      | some x =>
        by_cases ht : t < x
        · exact ⟨t, by simp [ht], Nat.le_refl _⟩
        · exact ⟨x, by simp [ht], by simp only; omega⟩
  | remove c =>
    intro e he
    simp only [step] at he ⊢
    exact h e (List.mem_filter.1 he).1
  | tick now rearm =>
    intro e he
    simp only [step] at he ⊢
    have hs := minDeadline_isSome_of_mem _ e he
    obtain ⟨m, hm⟩ := Option.isSome_iff_exists.1 hs
    exact ⟨m, hm, minDeadline_le _ m hm e he⟩

theorem inv_run (s : St) (ops : List Op) (h : Inv s) : Inv (run s ops) := by
  induction ops generalizing s with
  | nil => exact h
  | cons op ops ih => exact ih _ (inv_step s op h)

/-- the list stands for a `HashMap`: one entry per connection id -/
def Keyed (d : List (Conn × Nat)) : Prop := (d.map Prod.fst).Nodup

theorem keyed_filter (d : List (Conn × Nat)) (p : Conn × Nat → Bool) (h : Keyed d) : Keyed (d.filter p) := by
  unfold Keyed at *
  exact List.Nodup.sublist (List.Sublist.map _ List.filter_sublist) h

theorem keyed_put (d : List (Conn × Nat)) (c : Conn) (t : Nat) (h : Keyed d) : Keyed (put d c t) := by
  unfold Keyed put at *
  rw [List.map_append, List.nodup_append]
  refine ⟨List.Nodup.sublist (List.Sublist.map _ List.filter_sublist) h, by simp, ?_⟩
  intro a ha b hb
  simp only [List.map_cons, List.map_nil, List.mem_singleton] at hb
  subst hb
  obtain ⟨e, he, rfl⟩ := List.mem_map.1 ha
  have := (List.mem_filter.1 he).2
  simpa using this

theorem keyed_foldl_put : ∀ (rearm : List (Conn × Nat)) (d : List (Conn × Nat)), Keyed d →
    Keyed (rearm.foldl (fun d x => put d x.1 x.2) d)
  | [], _, h => h
  | r :: rs, d, h => by
    simp only [List.foldl_cons]
    exact keyed_foldl_put rs _ (keyed_put d r.1 r.2 h)

theorem keyed_step (s : St) (op : Op) (h : Keyed s.deadlines) : Keyed (step s op).deadlines := by
  cases op with
  | arm c t => exact keyed_put _ _ _ h
  | remove c => exact keyed_filter _ _ h
  | tick now rearm => exact keyed_foldl_put _ _ (keyed_filter _ _ h)

theorem keyed_run (s : St) (ops : List Op) (h : Keyed s.deadlines) : Keyed (run s ops).deadlines := by
  induction ops generalizing s with
  | nil => exact h
  | cons op ops ih => exact ih _ (keyed_step s op h)

/-- after `arm c t` the connection's (only) deadline is `t` -/
theorem mem_put_self (d : List (Conn × Nat)) (c : Conn) (t : Nat) : (c, t) ∈ put d c t := by
  simp [put]

theorem put_key_unique (d : List (Conn × Nat)) (c : Conn) (t u : Nat) (h : (c, u) ∈ put d c t) : u = t := by
  rcases mem_put h with ⟨_, hne⟩ | heq
  · exact absurd rfl hne
  · exact (Prod.mk.inj heq).2

end TT.QuicTimers
