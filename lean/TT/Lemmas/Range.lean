/-
Kernel-checkable exhaustive test of a Boolean function on an interval of naturals by binary
splitting (recursion depth logarithmic in the interval, so `decide +kernel` / `rfl` can
evaluate it for 2^16 points), with its soundness lemma.  Used to turn bit-mask tests on
`u16` values into interval statements without `native_decide` or `bv_decide`.
-/
namespace TT

def allRange (f : Nat → Bool) : (fuel : Nat) → (lo len : Nat) → Bool
  | 0, lo, len => if len = 0 then true else if len = 1 then f lo else false
  | k+1, lo, len =>
    if len = 0 then true else if len = 1 then f lo
    else allRange f k lo (len/2) && allRange f k (lo + len/2) (len - len/2)

theorem allRange_sound (f : Nat → Bool) : ∀ (fuel lo len : Nat), allRange f fuel lo len = true →
    ∀ x, lo ≤ x → x < lo + len → f x = true := by
  intro fuel
  induction fuel with
  | zero =>
    intro lo len h x h1 h2
    unfold allRange at h
    split at h
    · omega
    · split at h
      · have : x = lo := by omega
        subst this; exact h
      · cases h
  | succ k ih =>
    intro lo len h x h1 h2
    unfold allRange at h
    split at h
    · omega
    · split at h
      · have : x = lo := by omega
        subst this; exact h
      · rw [Bool.and_eq_true] at h
        by_cases hx : x < lo + len/2
        · exact ih lo (len/2) h.1 x h1 hx
        · exact ih (lo + len/2) (len - len/2) h.2 x (by omega) (by omega)

/-- every `x < n` satisfies `f` when the binary-splitting check evaluates to `true` -/
theorem forall_lt_of_allRange (f : Nat → Bool) (n fuel : Nat) (h : allRange f fuel 0 n = true) :
    ∀ x, x < n → f x = true := fun x hx => allRange_sound f fuel 0 n h x (Nat.zero_le _) (by omega)

end TT
