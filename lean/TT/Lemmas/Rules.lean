import TT.Model.Rules
namespace TT.Rules
open TT

theorem maskedEq_eq_all : ∀ (n : Nat) (r m p : Bytes), n ≤ r.length → n ≤ m.length → n ≤ p.length →
    maskedEq n r m p =
      (List.range n).all (fun i => (r.getD i 0 &&& m.getD i 0) == (p.getD i 0 &&& m.getD i 0)) := by
  intro n
  induction n with
  | zero => intro r m p _ _ _; simp [maskedEq]
  | succ k ih =>
    intro r m p hr hm hp
    match r, m, p, hr, hm, hp with
    | r0 :: rs, m0 :: ms, p0 :: ps, hr, hm, hp =>
      simp only [List.length_cons, Nat.add_le_add_iff_right] at hr hm hp
      rw [List.range_succ_eq_map]
      simp only [maskedEq, List.all_cons, List.all_map, List.getD_cons_zero]
      rw [ih rs ms ps hr hm hp]
      congr 1
end TT.Rules
