import TT.Model.Scrub
namespace TT.Scrub

/-- one iteration of the `foldl` of `scrubHeaders` -/
def step (name : String) (acc : Headers) : Headers :=
  if acc.any (fun h => h.1 == name) then insertReplace acc name placeholder else acc

theorem scrubHeaders_eq (hs : Headers) :
    scrubHeaders hs = step "cookie" (step "proxy-authorization" (step "authorization" hs)) := rfl

/-- names agree pointwise, values agree unless the name is in `S` -/
def Rel (S : List String) : Headers → Headers → Prop
  | [], [] => True
  | (n1, v1) :: r1, (n2, v2) :: r2 => n1 = n2 ∧ (n1 ∈ S ∨ v1 = v2) ∧ Rel S r1 r2
  | _, _ => False

theorem Rel_nil_eq : ∀ (a b : Headers), Rel [] a b → a = b
  | [], [], _ => rfl
  | [], _ :: _, h => by simp [Rel] at h
  | _ :: _, [], h => by simp [Rel] at h
  | (n1, v1) :: r1, (n2, v2) :: r2, h => by
    simp only [Rel, List.not_mem_nil, false_or] at h
    obtain ⟨hn, hv, hr⟩ := h
    rw [hn, hv, Rel_nil_eq r1 r2 hr]

theorem Rel_any (S : List String) (name : String) : ∀ (a b : Headers), Rel S a b →
    a.any (fun h => h.1 == name) = b.any (fun h => h.1 == name)
  | [], [], _ => rfl
  | [], _ :: _, h => by simp [Rel] at h
  | _ :: _, [], h => by simp [Rel] at h
  | (n1, v1) :: r1, (n2, v2) :: r2, h => by
    simp only [Rel] at h
    obtain ⟨hn, _, hr⟩ := h
    simp only [List.any_cons, hn, Rel_any S name r1 r2 hr]

theorem Rel_drop (S : List String) (name : String) : ∀ (a b : Headers), Rel (name :: S) a b →
    a.any (fun h => h.1 == name) = false → Rel S a b
  | [], [], _, _ => trivial
  | [], _ :: _, h, _ => by simp [Rel] at h
  | _ :: _, [], h, _ => by simp [Rel] at h
  | (n1, v1) :: r1, (n2, v2) :: r2, h, ha => by
    simp only [Rel, List.mem_cons] at h
    obtain ⟨hn, hv, hr⟩ := h
    simp only [List.any_cons, Bool.or_eq_false_iff, beq_eq_false_iff_ne, ne_eq] at ha
    refine ⟨hn, ?_, Rel_drop S name r1 r2 hr ha.2⟩
    rcases hv with (h | h) | h
    · exact absurd h ha.1
    · exact Or.inl h
    · exact Or.inr h

theorem Rel_go (S : List String) (name value : String) : ∀ (a b : Headers) (d : Bool),
    Rel (name :: S) a b → Rel S (insertReplace.go name value a d) (insertReplace.go name value b d)
  | [], [], _, _ => by simp [insertReplace.go, Rel]
  | [], _ :: _, _, h => by simp [Rel] at h
  | _ :: _, [], _, h => by simp [Rel] at h
  | (n1, v1) :: r1, (n2, v2) :: r2, d, h => by
    simp only [Rel, List.mem_cons] at h
    obtain ⟨hn, hv, hr⟩ := h
    subst hn
    simp only [insertReplace.go]
    by_cases hc : n1 = name
    · subst hc
      simp only [beq_self_eq_true, if_true]
      cases d
      · exact ⟨rfl, Or.inr rfl, Rel_go S _ value r1 r2 true hr⟩
      · exact Rel_go S _ value r1 r2 true hr
    · have : (n1 == name) = false := by simpa using hc
      simp only [this, Bool.false_eq_true, if_false]
      refine ⟨rfl, ?_, Rel_go S name value r1 r2 d hr⟩
      rcases hv with (h | h) | h
      · exact absurd h hc
      · exact Or.inl h
      · exact Or.inr h

theorem Rel_step (S : List String) (name : String) (a b : Headers) (h : Rel (name :: S) a b) :
    Rel S (step name a) (step name b) := by
  unfold step
  rw [← Rel_any _ name a b h]
  split
  · exact Rel_go S name placeholder a b false h
  · rename_i hh
    exact Rel_drop S name a b h (Bool.eq_false_iff.mpr hh)

/-! membership -/

theorem mem_go (name value : String) (x : String × String) : ∀ (l : Headers) (d : Bool),
    x ∈ insertReplace.go name value l d → (x.1 = name ∧ x.2 = value) ∨ (x.1 ≠ name ∧ x ∈ l)
  | [], _, h => by simp [insertReplace.go] at h
  | (n, v) :: r, d, h => by
    simp only [insertReplace.go] at h
    by_cases hc : n = name
    · subst hc
      simp only [beq_self_eq_true, if_true] at h
      cases d
      · simp only [Bool.false_eq_true, if_false, List.mem_cons] at h
        rcases h with h | h
        · left; subst h; exact ⟨rfl, rfl⟩
        · rcases mem_go _ value x r true h with h | h
          · exact Or.inl h
          · exact Or.inr ⟨h.1, List.mem_cons_of_mem _ h.2⟩
      · simp only [if_true] at h
        rcases mem_go _ value x r true h with h | h
        · exact Or.inl h
        · exact Or.inr ⟨h.1, List.mem_cons_of_mem _ h.2⟩
    · have : (n == name) = false := by simpa using hc
      simp only [this, Bool.false_eq_true, if_false, List.mem_cons] at h
      rcases h with h | h
      · right; subst h; exact ⟨hc, List.mem_cons_self⟩
      · rcases mem_go name value x r d h with h | h
        · exact Or.inl h
        · exact Or.inr ⟨h.1, List.mem_cons_of_mem _ h.2⟩

/-- all entries named `n` carry the placeholder -/
def AllPh (n : String) (l : Headers) : Prop := ∀ v, (n, v) ∈ l → v = placeholder

theorem AllPh_step_self (n : String) (l : Headers) : AllPh n (step n l) := by
  intro v hv
  unfold step at hv
  split at hv
  · rcases mem_go n placeholder (n, v) l false hv with h | h
    · exact h.2
    · exact absurd rfl h.1
  · rename_i hh
    exact absurd (List.any_eq_true.mpr ⟨(n, v), hv, by simp⟩) hh

theorem AllPh_step_other (n n' : String) (hne : n ≠ n') (l : Headers) (h : AllPh n l) :
    AllPh n (step n' l) := by
  intro v hv
  unfold step at hv
  split at hv
  · rcases mem_go n' placeholder (n, v) l false hv with h' | h'
    · exact absurd h'.1 hne
    · exact h v h'.2
  · exact h v hv

/-! filter -/

theorem filter_go (name value : String) (p : String × String → Bool)
    (hp : ∀ v, p (name, v) = false) : ∀ (l : Headers) (d : Bool),
    (insertReplace.go name value l d).filter p = l.filter p
  | [], _ => by simp [insertReplace.go]
  | (n, v) :: r, d => by
    simp only [insertReplace.go]
    by_cases hc : n = name
    · subst hc
      simp only [beq_self_eq_true, if_true]
      cases d
      · simp only [Bool.false_eq_true, if_false, List.filter_cons, hp, filter_go _ value p hp r true]
      · simp only [if_true, List.filter_cons, hp, Bool.false_eq_true, if_false, filter_go _ value p hp r true]
    · have : (n == name) = false := by simpa using hc
      simp only [this, Bool.false_eq_true, if_false, List.filter_cons, filter_go name value p hp r d]

theorem filter_step (name : String) (p : String × String → Bool)
    (hp : ∀ v, p (name, v) = false) (l : Headers) : (step name l).filter p = l.filter p := by
  unfold step
  split
  · exact filter_go name placeholder p hp l false
  · rfl

theorem step_eq_self (name : String) (l : Headers) (h : ∀ x ∈ l, x.1 ≠ name) : step name l = l := by
  unfold step
  rw [if_neg]
  simp only [List.any_eq_true, not_exists, not_and, beq_iff_eq]
  exact h

/-! SNI -/

theorem span_loop_label (host : List Char) : ∀ (c acc : List Char), '.' ∉ c →
    List.span.loop (· != '.') (c ++ '.' :: host) acc = (acc.reverse ++ c, '.' :: host)
  | [], acc, _ => by simp [List.span.loop]
  | x :: xs, acc, h => by
    simp only [List.mem_cons, not_or] at h
    have hx : (x != '.') = true := by
      simp only [bne_iff_ne, ne_eq]; exact fun e => h.1 e.symm
    simp only [List.cons_append, List.span.loop, hx, span_loop_label host xs (x :: acc) h.2,
      List.reverse_cons, List.append_assoc, List.nil_append]

theorem span_label (c host : List Char) (h : '.' ∉ c) :
    (c ++ '.' :: host).span (· != '.') = (c, '.' :: host) := by
  simp [List.span, span_loop_label host c [] h]

theorem scrubSni_label (c host : List Char) (h : '.' ∉ c) :
    scrubSni (c ++ '.' :: host) = placeholder.toList ++ '.' :: host := by
  unfold scrubSni
  rw [span_label c host h]

theorem metaDebug_some (sni c : List Char) (p ch : String) :
    metaDebug sni (some c) p ch =
  "ConnectionMeta { sni: \"".toList ++ scrubSni sni ++ "\", protocol: ".toList ++ p.toList ++ ", channel: ".toList ++
    ch.toList ++ ", sni_auth_creds: ".toList ++ "Some(\"scrubbed\")".toList ++ " }".toList := rfl

theorem sensitive_filtered_authorization (v : String) :
    (fun h : String × String => !sensitive.contains h.1) ("authorization", v) = false := by
  show (!sensitive.contains "authorization") = false
  decide

theorem sensitive_filtered_proxy (v : String) :
    (fun h : String × String => !sensitive.contains h.1) ("proxy-authorization", v) = false := by
  show (!sensitive.contains "proxy-authorization") = false
  decide

theorem sensitive_filtered_cookie (v : String) :
    (fun h : String × String => !sensitive.contains h.1) ("cookie", v) = false := by
  show (!sensitive.contains "cookie") = false
  decide

theorem span_loop_nodot : ∀ (c acc : List Char), '.' ∉ c →
    List.span.loop (· != '.') c acc = (acc.reverse ++ c, [])
  | [], acc, _ => by simp [List.span.loop]
  | x :: xs, acc, h => by
    simp only [List.mem_cons, not_or] at h
    have hx : (x != '.') = true := by
      simp only [bne_iff_ne, ne_eq]; exact fun e => h.1 e.symm
    simp only [List.span.loop, hx, span_loop_nodot xs (x :: acc) h.2,
      List.reverse_cons, List.append_assoc, List.cons_append, List.nil_append]

end TT.Scrub
