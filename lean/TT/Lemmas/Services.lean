import TT.Model.Services
/-!
Helper lemmas for C18 (speedtest parsers, countdown loops, reverse-proxy header insertion).
-/
namespace TT.Services


theorem digitsVal_snoc (a : List Char) (c : Char) :
    digitsVal (a ++ [c]) =
      (digitsVal a).bind (fun v => if '0' ≤ c ∧ c ≤ '9' then some (v * 10 + (c.toNat - 48)) else none) := by
  induction a with
  | nil =>
    simp only [List.nil_append, digitsVal]
    split <;> simp
  | cons x a ih =>
    simp only [List.cons_append, digitsVal, ih, List.length_append, List.length_cons, List.length_nil]
    by_cases hx : '0' ≤ x ∧ x ≤ '9'
    · simp only [hx, and_self, if_true]
      cases h : digitsVal a with
      | none => simp
      | some v =>
        simp only [Option.bind_some]
        by_cases hc : '0' ≤ c ∧ c ≤ '9'
        · simp only [hc, and_self, if_true]
          congr 1
          rw [Nat.pow_succ]
          simp [Nat.add_mul, Nat.mul_assoc, Nat.add_assoc]
        · simp [hc]
    · simp [hx]

theorem digit_char (d : Nat) (hd : d < 10) :
    (Char.ofNat (48 + d)).toNat = 48 + d ∧ '0' ≤ Char.ofNat (48 + d) ∧ Char.ofNat (48 + d) ≤ '9' := by
  have : ∀ d : Fin 10, (Char.ofNat (48 + d.val)).toNat = 48 + d.val ∧ '0' ≤ Char.ofNat (48 + d.val) ∧ Char.ofNat (48 + d.val) ≤ '9' := by
    decide
  exact this ⟨d, hd⟩


theorem speedSegment_eq : speedSegment = ['s','p','e','e','d'] := by decide
theorem mbbin_eq : "mb.bin".toList = ['m','b','.','b','i','n'] := by decide

theorem stripPrefix_slash (x : List Char) : stripPrefix ['/'] ('/' :: x) = some x := by
  simp [stripPrefix]

theorem stripPrefix_speed_digit (c : Char) (rest : List Char) (hc : '0' ≤ c ∧ c ≤ '9') :
    stripPrefix speedSegment (c :: rest) = none := by
  have : 's' ≠ c := by
    rintro rfl
    revert hc; decide
  simp [stripPrefix, speedSegment_eq, this]

theorem stripSuffix_append (suf a : List Char) : stripSuffix suf (a ++ suf) = some a := by
  simp [stripSuffix]

theorem parseU32_digits (c : Char) (rest : List Char) (v : Nat) (hc : '0' ≤ c ∧ c ≤ '9')
    (hv : digitsVal (c :: rest) = some v) :
    parseU32 (c :: rest) = if v < 4294967296 then some v else none := by
  have : c ≠ '+' := by
    rintro rfl
    revert hc; decide
  unfold parseU32
  split
  · rename_i h; simp at h; exact absurd h.1.symm (by simpa using this.symm) 
  · simp [hv]


theorem downloadLoop_sum (n : Nat) (quotas : List Nat) :
    (downloadLoop n quotas).1 + (downloadLoop n quotas).2 = n := by
  fun_induction downloadLoop n quotas with
  | case1 n => simp
  | case2 => simp
  | case3 n k ks offered acc sent rem h ih =>
    simp only [h] at ih
    simp only
    have : acc ≤ n + 1 := by simp only [acc, offered]; omega
    omega

theorem chunkSize_pos : 0 < chunkSize := by decide

theorem downloadLoop_complete (n : Nat) (quotas : List Nat) (hq : ∀ k ∈ quotas, 0 < k)
    (hl : n ≤ quotas.length) : downloadLoop n quotas = (n, 0) := by
  fun_induction downloadLoop n quotas with
  | case1 n => simp at hl; simp [hl]
  | case2 => rfl
  | case3 n k ks offered acc sent rem h ih =>
    have hk : 0 < k := hq k (by simp)
    have hc := chunkSize_pos
    have h1 : 1 ≤ acc := by simp only [acc, offered]; omega
    have h2 : acc ≤ n + 1 := by simp only [acc, offered]; omega
    have := ih (fun k hk => hq k (by simp [hk])) (by simp at hl; omega)
    rw [h] at this
    simp only [Prod.mk.injEq] at this ⊢
    omega

theorem uploadLoop_done (n : Nat) (chunks : List Nat) : (uploadLoop n chunks).2 = true := by
  fun_induction uploadLoop n chunks <;> simp_all

theorem uploadLoop_counts (n : Nat) (chunks : List Nat) (h : n ≤ chunks.sum) :
    (uploadLoop n chunks).1 = 0 := by
  fun_induction uploadLoop n chunks with
  | case1 => rfl
  | case2 n hn => simp at h; omega
  | case3 n c cs hn ih => apply ih; simp at h; omega

theorem mem_insertHeader (hs : List (String × String)) (n v : String) :
    (n, v) ∈ insertHeader hs n v := by
  unfold insertHeader
  split
  · rename_i h
    simp only [List.any_eq_true] at h
    obtain ⟨x, hx, hxn⟩ := h
    simp only [List.mem_map]
    exact ⟨x, hx, by simp [hxn]⟩
  · simp

theorem mem_insertHeader_of_ne (hs : List (String × String)) (n v : String) (h : String × String)
    (hh : h ∈ hs) (hne : h.1 ≠ n) : h ∈ insertHeader hs n v := by
  unfold insertHeader
  split
  · simp only [List.mem_map]
    exact ⟨h, hh, by simp [hne]⟩
  · simp [hh]

theorem upload_slash : stripPrefix ['/'] "/upload.html".toList = some "upload.html".toList := by decide
theorem upload_speed : stripPrefix speedSegment "upload.html".toList = none := by decide
theorem upload_bne : ("/upload.html".toList != "/upload.html".toList) = false := by decide

end TT.Services
