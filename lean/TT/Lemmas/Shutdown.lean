import TT.Model.Shutdown
namespace TT.Shutdown

/-! ### `run` compositionality -/

theorem run_nil_fst (s : St) : (run s []).1 = s := rfl

theorem run_cons_fst (s : St) (op : Op) (rest : List Op) :
    (run s (op :: rest)).1 = (run (step s op).1 rest).1 := rfl

theorem run_append_fst (s : St) (a b : List Op) :
    (run s (a ++ b)).1 = (run (run s a).1 b).1 := by
  induction a generalizing s with
  | nil => rfl
  | cons op rest ih => simp only [List.cons_append, run_cons_fst, ih]

theorem run_singleton_fst (s : St) (op : Op) : (run s [op]).1 = (step s op).1 := rfl

/-- invariants restricted to a class of operations -/
theorem run_invariant_of (P : St → Prop) (Q : Op → Prop)
    (hstep : ∀ s op, Q op → P s → P (step s op).1) :
    ∀ (ops : List Op) (s : St), (∀ op ∈ ops, Q op) → P s → P (run s ops).1 := by
  intro ops
  induction ops with
  | nil => intro s _ h; exact h
  | cons op rest ih =>
    intro s hq h
    rw [run_cons_fst]
    exact ih _ (fun o ho => hq o (List.mem_cons_of_mem _ ho))
      (hstep s op (hq op List.mem_cons_self) h)

theorem run_invariant (P : St → Prop) (hstep : ∀ s op, P s → P (step s op).1)
    (ops : List Op) (s : St) (h : P s) : P (run s ops).1 :=
  run_invariant_of P (fun _ => True) (fun s op _ => hstep s op) ops s (fun _ _ => trivial) h

/-! ### `setAt` -/

theorem length_setAt (l : List Part) (i : Nat) (f : Part → Part) :
    (setAt l i f).length = l.length := by
  simp [setAt]

theorem getElem?_setAt (l : List Part) (i j : Nat) (f : Part → Part) :
    (setAt l i f)[j]? = if j = i then l[j]?.map f else l[j]? := by
  simp only [setAt, List.getElem?_mapIdx]
  cases h : l[j]? with
  | none => simp
  | some p =>
    by_cases hji : j = i
    · simp [hji]
    · simp [hji]

theorem mem_setAt {l : List Part} {i : Nat} {f : Part → Part} {p : Part}
    (h : p ∈ setAt l i f) : p ∈ l ∨ ∃ q ∈ l, p = f q := by
  rw [List.mem_iff_getElem?] at h
  obtain ⟨j, hj⟩ := h
  rw [getElem?_setAt] at hj
  split at hj
  · cases hq : l[j]? with
    | none => simp [hq] at hj
    | some q =>
      simp [hq] at hj
      exact Or.inr ⟨q, List.mem_iff_getElem?.mpr ⟨j, hq⟩, hj.symm⟩
  · exact Or.inl (List.mem_iff_getElem?.mpr ⟨j, hj⟩)

/-! ### state-only step equations -/

@[simp] theorem step_register_parts (s : St) :
    (step s .register).1.parts = s.parts ++ [{ alive := true, unseen := false, guard := !s.completing }] := rfl
@[simp] theorem step_register_completing (s : St) :
    (step s .register).1.completing = s.completing := rfl
@[simp] theorem step_submit_parts (s : St) :
    (step s .submit).1.parts = s.parts.map (fun p => if p.alive then { p with unseen := true } else p) := rfl
@[simp] theorem step_submit_completing (s : St) :
    (step s .submit).1.completing = s.completing := rfl
@[simp] theorem step_finish_parts (s : St) (i : Nat) :
    (step s (.finish i)).1.parts = setAt s.parts i (fun _ => { alive := false, unseen := false, guard := false }) := rfl
@[simp] theorem step_finish_completing (s : St) (i : Nat) :
    (step s (.finish i)).1.completing = s.completing := rfl
@[simp] theorem step_completionPoll_parts (s : St) :
    (step s .completionPoll).1.parts = s.parts := by
  simp only [step]; split <;> rfl
@[simp] theorem step_completionPoll_completing (s : St) :
    (step s .completionPoll).1.completing = true := by
  simp only [step]; split <;> rfl

theorem step_waitPoll_completing (s : St) (i : Nat) :
    (step s (.waitPoll i)).1.completing = s.completing := by
  simp only [step]
  split
  · split <;> rfl
  · rfl

theorem step_waitPoll_parts (s : St) (i : Nat) :
    (step s (.waitPoll i)).1.parts = s.parts ∨
    (step s (.waitPoll i)).1.parts = setAt s.parts i (fun p => { p with unseen := false }) := by
  simp only [step]
  split
  · split
    · exact Or.inr rfl
    · exact Or.inl rfl
  · exact Or.inl rfl

theorem step_waitPoll_out (s : St) (i : Nat) :
    (step s (.waitPoll i)).2 = .ready ↔
      ∃ p, s.parts[i]? = some p ∧ p.alive = true ∧ p.unseen = true := by
  simp only [step]
  split
  · rename_i p hp
    split
    · rename_i h
      simp only [Bool.and_eq_true] at h
      simp [hp, h.1, h.2]
    · rename_i h
      simp only [Bool.and_eq_true] at h
      simp only [hp, Option.some.injEq, exists_eq_left', reduceCtorEq, false_iff]
      exact h
  · rename_i hp
    simp [hp]

theorem step_completionPoll_out (s : St) :
    (step s .completionPoll).2 = .done ↔ ∀ p ∈ s.parts, p.guard = false := by
  simp only [step]
  split
  · rename_i h
    simp only [List.all_eq_true, Bool.not_eq_true'] at h
    simp only [true_iff]; exact h
  · rename_i h
    simp only [List.all_eq_true, Bool.not_eq_true'] at h
    simp only [reduceCtorEq, false_iff]; exact h

/-! ### invariants -/

/-- participant `i` exists, is alive and has an unseen shutdown message -/
def AliveUnseen (i : Nat) (s : St) : Prop :=
  ∃ p, s.parts[i]? = some p ∧ p.alive = true ∧ p.unseen = true

/-- participant `i` exists and is alive -/
def AliveAt (i : Nat) (s : St) : Prop :=
  ∃ p, s.parts[i]? = some p ∧ p.alive = true

theorem getElem?_append_some {l : List Part} {i : Nat} {p : Part} (h : l[i]? = some p) (l' : List Part) :
    (l ++ l')[i]? = some p := by
  have hlt : i < l.length := by
    have := List.getElem?_eq_some_iff.mp h
    exact this.1
  rw [List.getElem?_append_left hlt]; exact h

theorem aliveUnseen_step (i : Nat) (s : St) (op : Op)
    (hop : op ≠ .waitPoll i ∧ op ≠ .finish i) (h : AliveUnseen i s) :
    AliveUnseen i (step s op).1 := by
  obtain ⟨p, hp, ha, hu⟩ := h
  cases op with
  | register =>
    exact ⟨p, by rw [step_register_parts]; exact getElem?_append_some hp _, ha, hu⟩
  | waitPoll j =>
    have hji : i ≠ j := by intro e; exact hop.1 (by rw [e])
    rcases step_waitPoll_parts s j with e | e
    · exact ⟨p, by rw [e]; exact hp, ha, hu⟩
    · exact ⟨p, by rw [e, getElem?_setAt, if_neg hji]; exact hp, ha, hu⟩
  | submit =>
    refine ⟨{ p with unseen := true }, ?_, ha, rfl⟩
    rw [step_submit_parts, List.getElem?_map, hp]
    simp [ha]
  | finish j =>
    have hji : i ≠ j := by intro e; exact hop.2 (by rw [e])
    exact ⟨p, by rw [step_finish_parts, getElem?_setAt, if_neg hji]; exact hp, ha, hu⟩
  | completionPoll =>
    exact ⟨p, by rw [step_completionPoll_parts]; exact hp, ha, hu⟩

theorem aliveAt_step (i : Nat) (s : St) (op : Op)
    (hop : op ≠ .finish i) (h : AliveAt i s) :
    AliveAt i (step s op).1 := by
  obtain ⟨p, hp, ha⟩ := h
  cases op with
  | register =>
    exact ⟨p, by rw [step_register_parts]; exact getElem?_append_some hp _, ha⟩
  | waitPoll j =>
    rcases step_waitPoll_parts s j with e | e
    · exact ⟨p, by rw [e]; exact hp, ha⟩
    · by_cases hji : i = j
      · exact ⟨{ p with unseen := false }, by rw [e, getElem?_setAt, if_pos hji, hp]; rfl, ha⟩
      · exact ⟨p, by rw [e, getElem?_setAt, if_neg hji]; exact hp, ha⟩
  | submit =>
    refine ⟨{ p with unseen := true }, ?_, ha⟩
    rw [step_submit_parts, List.getElem?_map, hp]
    simp [ha]
  | finish j =>
    have hji : i ≠ j := by intro e; exact hop (by rw [e])
    exact ⟨p, by rw [step_finish_parts, getElem?_setAt, if_neg hji]; exact hp, ha⟩
  | completionPoll =>
    exact ⟨p, by rw [step_completionPoll_parts]; exact hp, ha⟩

theorem aliveAt_submit (i : Nat) (s : St) (h : AliveAt i s) : AliveUnseen i (step s .submit).1 := by
  obtain ⟨p, hp, ha⟩ := h
  refine ⟨{ p with unseen := true }, ?_, ha, rfl⟩
  rw [step_submit_parts, List.getElem?_map, hp]
  simp [ha]

theorem aliveAt_register (s : St) : AliveAt s.parts.length (step s .register).1 := by
  refine ⟨{ alive := true, unseen := false, guard := !s.completing }, ?_, rfl⟩
  rw [step_register_parts]
  simp

/-- nobody has an unseen message -/
def NoUnseen (s : St) : Prop := ∀ p ∈ s.parts, p.unseen = false

theorem noUnseen_step (s : St) (op : Op) (hop : op ≠ .submit) (h : NoUnseen s) :
    NoUnseen (step s op).1 := by
  intro p hp
  cases op with
  | register =>
    rw [step_register_parts, List.mem_append] at hp
    rcases hp with hp | hp
    · exact h p hp
    · simp at hp; rw [hp]
  | waitPoll j =>
    rcases step_waitPoll_parts s j with e | e
    · rw [e] at hp; exact h p hp
    · rw [e] at hp
      rcases mem_setAt hp with hp | ⟨q, _, rfl⟩
      · exact h p hp
      · rfl
  | submit => exact absurd rfl hop
  | finish j =>
    rw [step_finish_parts] at hp
    rcases mem_setAt hp with hp | ⟨q, _, rfl⟩
    · exact h p hp
    · rfl
  | completionPoll =>
    rw [step_completionPoll_parts] at hp; exact h p hp

/-- a guard is only held by live participants -/
def GuardAlive (s : St) : Prop := ∀ p ∈ s.parts, p.guard = true → p.alive = true

theorem guardAlive_step (s : St) (op : Op) (h : GuardAlive s) : GuardAlive (step s op).1 := by
  intro p hp hg
  cases op with
  | register =>
    rw [step_register_parts, List.mem_append] at hp
    rcases hp with hp | hp
    · exact h p hp hg
    · simp at hp; rw [hp]
  | waitPoll j =>
    rcases step_waitPoll_parts s j with e | e
    · rw [e] at hp; exact h p hp hg
    · rw [e] at hp
      rcases mem_setAt hp with hp | ⟨q, hq, rfl⟩
      · exact h p hp hg
      · exact h q hq hg
  | submit =>
    rw [step_submit_parts, List.mem_map] at hp
    obtain ⟨q, hq, rfl⟩ := hp
    by_cases hqa : q.alive = true
    · simp [hqa]
    · simp only [hqa] at hg ⊢
      exact h q hq hg
  | finish j =>
    rw [step_finish_parts] at hp
    rcases mem_setAt hp with hp | ⟨q, _, rfl⟩
    · exact h p hp hg
    · simp at hg
  | completionPoll =>
    rw [step_completionPoll_parts] at hp; exact h p hp hg

theorem completing_step (s : St) (op : Op) (h : s.completing = true) :
    (step s op).1.completing = true := by
  cases op with
  | register => exact h
  | waitPoll j => rw [step_waitPoll_completing]; exact h
  | submit => exact h
  | finish j => exact h
  | completionPoll => exact step_completionPoll_completing s

/-- completion has started and no guard is outstanding -/
def Done (s : St) : Prop := s.completing = true ∧ ∀ p ∈ s.parts, p.guard = false

theorem done_step (s : St) (op : Op) (h : Done s) : Done (step s op).1 := by
  refine ⟨completing_step s op h.1, ?_⟩
  obtain ⟨hc, h⟩ := h
  intro p hp
  cases op with
  | register =>
    rw [step_register_parts, List.mem_append] at hp
    rcases hp with hp | hp
    · exact h p hp
    · simp at hp; rw [hp]; simp [hc]
  | waitPoll j =>
    rcases step_waitPoll_parts s j with e | e
    · rw [e] at hp; exact h p hp
    · rw [e] at hp
      rcases mem_setAt hp with hp | ⟨q, hq, rfl⟩
      · exact h p hp
      · exact h q hq
  | submit =>
    rw [step_submit_parts, List.mem_map] at hp
    obtain ⟨q, hq, rfl⟩ := hp
    by_cases hqa : q.alive = true
    · simp only [hqa, if_true]; exact h q hq
    · simp only [hqa]; exact h q hq
  | finish j =>
    rw [step_finish_parts] at hp
    rcases mem_setAt hp with hp | ⟨q, _, rfl⟩
    · exact h p hp
    · rfl
  | completionPoll =>
    rw [step_completionPoll_parts] at hp; exact h p hp

theorem completing_of_mem_run (ops : List Op) (h : Op.completionPoll ∈ ops) (s : St) :
    (run s ops).1.completing = true := by
  induction ops generalizing s with
  | nil => cases h
  | cons op rest ih =>
    rw [run_cons_fst]
    rcases List.mem_cons.mp h with e | hm
    · subst e
      exact run_invariant (fun s => s.completing = true) completing_step rest _
        (step_completionPoll_completing s)
    · exact ih hm _

/-- participant `i` holds a completion guard -/
def GuardAt (i : Nat) (s : St) : Prop := ∃ p, s.parts[i]? = some p ∧ p.guard = true

theorem guardAt_step (i : Nat) (s : St) (op : Op) (hop : op ≠ .finish i) (h : GuardAt i s) :
    GuardAt i (step s op).1 := by
  obtain ⟨p, hp, hg⟩ := h
  cases op with
  | register =>
    exact ⟨p, by rw [step_register_parts]; exact getElem?_append_some hp _, hg⟩
  | waitPoll j =>
    rcases step_waitPoll_parts s j with e | e
    · exact ⟨p, by rw [e]; exact hp, hg⟩
    · by_cases hji : i = j
      · exact ⟨{ p with unseen := false }, by rw [e, getElem?_setAt, if_pos hji, hp]; rfl, hg⟩
      · exact ⟨p, by rw [e, getElem?_setAt, if_neg hji]; exact hp, hg⟩
  | submit =>
    by_cases ha : p.alive = true
    · refine ⟨{ p with unseen := true }, ?_, hg⟩
      rw [step_submit_parts, List.getElem?_map, hp]
      simp [ha]
    · refine ⟨p, ?_, hg⟩
      rw [step_submit_parts, List.getElem?_map, hp]
      simp [ha]
  | finish j =>
    have hji : i ≠ j := by intro e; exact hop (by rw [e])
    exact ⟨p, by rw [step_finish_parts, getElem?_setAt, if_neg hji]; exact hp, hg⟩
  | completionPoll =>
    exact ⟨p, by rw [step_completionPoll_parts]; exact hp, hg⟩

theorem completing_false_of_not_mem_run (ops : List Op) (h : Op.completionPoll ∉ ops) (s : St)
    (hs : s.completing = false) : (run s ops).1.completing = false := by
  induction ops generalizing s with
  | nil => exact hs
  | cons op ops ih =>
    rw [run_cons_fst]
    apply ih (fun hm => h (by simp [hm]))
    cases op with
    | register => simpa using hs
    | waitPoll j => rw [step_waitPoll_completing]; exact hs
    | submit => simpa using hs
    | finish j => simpa using hs
    | completionPoll => exact absurd (by simp) h

end TT.Shutdown
