import TT.Model.Socks5
/-!
Helper lemmas for C15 (SOCKS5 dialogue).
-/
namespace TT.Socks
open TT TT.Bytes

theorem u16_rt (n : Nat) (h : n < 65536) : n / 256 % 256 * 256 + n % 256 = n := by omega

theorem splitFirstColon_append (u p : Bytes) (h : 0x3a ∉ u) :
    splitFirstColon (u ++ [0x3a] ++ p) = some (u, p) := by
  induction u with
  | nil => simp [splitFirstColon]
  | cons c u ih =>
    simp at h
    have hc : ¬ (c = 58) := fun e => h.1 e.symm
    simp at ih
    simp [splitFirstColon, hc, ih h.2]

theorem split_none (d : Bytes) (h : 0x3a ∉ d) : splitFirstColon d = none := by
  induction d with
  | nil => simp [splitFirstColon]
  | cons c d ih =>
    simp at h
    have hc : ¬ (c = 58) := fun e => h.1 e.symm
    simp [splitFirstColon, hc, ih h.2]

theorem length_ge_10 (pkt : Bytes) (h : ¬ pkt.length < 10) :
    ∃ r0 r1 frag atyp a b c d p0 p1 data, pkt = r0 :: r1 :: frag :: atyp :: a :: b :: c :: d :: p0 :: p1 :: data := by
  match pkt, h with
  | r0 :: r1 :: frag :: atyp :: a :: b :: c :: d :: p0 :: p1 :: data, _ => exact ⟨_, _, _, _, _, _, _, _, _, _, _, rfl⟩
  | [], h | [_], h | [_,_], h | [_,_,_], h | [_,_,_,_], h | [_,_,_,_,_], h | [_,_,_,_,_,_], h
  | [_,_,_,_,_,_,_], h | [_,_,_,_,_,_,_,_], h | [_,_,_,_,_,_,_,_,_], h => simp at h

/-- type code and payload of an extension value (the Props file's `extTlv`) -/
def tlvOf : ExtVal → Nat × Bytes
  | .domain s => (1, s)
  | .clientAddr ip => (2, ipBytes ip)
  | .userAgent s => (3, s)
  | .basicProxyAuth s => (4, s)
  | .sniAuth => (5, [])

theorem ipBytes_length (ip : Ip.Ip) : (ipBytes ip).length = 4 ∨ (ipBytes ip).length = 16 := by
  cases ip <;> simp [ipBytes, u16be]

/-- every successfully encoded value is `t :: u16be len ++ payload` with `t ≠ 0`, `len < 65536` -/
theorem encodeExtVal_shape (v : ExtVal) (a : Bytes) (h : encodeExtVal v = some a) :
    (tlvOf v).1 ≠ 0 ∧ (tlvOf v).2.length < 65536 ∧
    a = (tlvOf v).1 :: ((tlvOf v).2.length / 256 % 256) :: ((tlvOf v).2.length % 256) :: (tlvOf v).2 := by
  cases v with
  | domain s | userAgent s | basicProxyAuth s =>
    simp only [encodeExtVal] at h
    split at h
    · simp at h
    · simp at h
      subst h
      simp [tlvOf, u16be]; omega
  | clientAddr ip =>
    simp [encodeExtVal] at h
    subst h
    have := ipBytes_length ip
    simp [tlvOf, u16be]; omega
  | sniAuth =>
    simp [encodeExtVal] at h
    subst h
    simp [tlvOf]

theorem parse_tlv_step (fuel t : Nat) (p tail : Bytes) (ht : t ≠ 0) (hl : p.length < 65536)
    (vs : List (Nat × Bytes)) (r : Bytes) (hrec : rfcParseExtFuel fuel tail = some (vs, r)) :
    rfcParseExtFuel (fuel + 1) (t :: (p.length / 256 % 256) :: (p.length % 256) :: (p ++ tail)) =
      some ((t, p) :: vs, r) := by
  have hrt := u16_rt _ hl
  simp [rfcParseExtFuel, ht, hrt, hrec]

theorem parse_ext_vals (vals : List ExtVal) : ∀ (b tail : Bytes) (fuel : Nat),
    encodeExtVals vals = some b → vals.length < fuel →
    rfcParseExtFuel fuel (b ++ [0, 0, 0] ++ tail) = some (vals.map tlvOf, tail) := by
  induction vals with
  | nil =>
    intro b tail fuel h hf
    simp [encodeExtVals] at h
    subst h
    obtain ⟨f, rfl⟩ : ∃ f, fuel = f + 1 := ⟨fuel - 1, by simp at hf; omega⟩
    simp [rfcParseExtFuel]
  | cons v vs ih =>
    intro b tail fuel h hf
    obtain ⟨f, rfl⟩ : ∃ f, fuel = f + 1 := ⟨fuel - 1, by simp at hf; omega⟩
    simp only [encodeExtVals] at h
    split at h
    · rename_i a b' ha hb
      simp at h
      subst h
      obtain ⟨ht, hl, rfl⟩ := encodeExtVal_shape v a ha
      have := ih b' tail f hb (by simp at hf; omega)
      have step := parse_tlv_step f _ (tlvOf v).2 (b' ++ [0,0,0] ++ tail) ht hl _ _ this
      simpa using step
    · simp at h

theorem encodeExtVals_length (vals : List ExtVal) : ∀ b, encodeExtVals vals = some b → vals.length * 3 ≤ b.length := by
  induction vals with
  | nil => intro b h; simp
  | cons v vs ih =>
    intro b h
    simp only [encodeExtVals] at h
    split at h
    · rename_i a b' ha hb
      simp at h
      subst h
      obtain ⟨_, _, rfl⟩ := encodeExtVal_shape v a ha
      have := ih b' hb
      simp; omega
    · simp at h

/-- the request message of the dialogue -/
def reqMsg (req : Request) : Option Bytes :=
  match req with
  | .connect a p => encodeRequest 1 a p
  | .udpAssociate l => encodeRequest 3 (.ip l.ip) l.port

theorem connectRequest_none (sent : Bytes) (req : Request) (server : Bytes) (h : reqMsg req = none) :
    connectRequest sent req server = (sent, .error .protocol) := by
  cases req <;> simp only [reqMsg] at h <;> simp [connectRequest, h]

theorem connectRequest_fst (sent : Bytes) (req : Request) (server : Bytes) (msg : Bytes) (h : reqMsg req = some msg) :
    (connectRequest sent req server).1 = sent ++ msg := by
  cases req <;> simp only [reqMsg] at h <;> simp only [connectRequest, h] <;> repeat' split
  all_goals rfl

theorem connectRequest_err (sent : Bytes) (req : Request) (server : Bytes) (msg : Bytes) (h : reqMsg req = some msg)
    (e : RErr) (hr : readReply server = .err e) :
    (connectRequest sent req server).2 = .error e := by
  cases req <;> simp only [reqMsg] at h <;> simp [connectRequest, h, hr]

theorem connectRequest_nonzero (sent : Bytes) (req : Request) (server : Bytes) (msg : Bytes) (h : reqMsg req = some msg)
    (r : Reply) (rest : Bytes) (hr : readReply server = .ok r rest) (hc : r.code ≠ 0) :
    (connectRequest sent req server).2 = .failure r.code := by
  cases req <;> simp only [reqMsg] at h <;> simp [connectRequest, h, hr, hc]

/-- success of the request phase needs a parsed reply with code 0 -/
theorem connectRequest_success (sent : Bytes) (req : Request) (server : Bytes)
    (h : (connectRequest sent req server).2 = .tcp ∨ ∃ b, (connectRequest sent req server).2 = .udp b) :
    ∃ r rest', readReply server = .ok r rest' ∧ r.code = 0 := by
  cases hm : reqMsg req with
  | none => rw [connectRequest_none _ _ _ hm] at h; simp at h
  | some msg =>
    cases hr : readReply server with
    | err e => rw [connectRequest_err _ _ _ _ hm e hr] at h; simp at h
    | ok r rest =>
      by_cases hc : r.code = 0
      · exact ⟨r, rest, rfl, hc⟩
      · rw [connectRequest_nonzero _ _ _ _ hm r rest hr hc] at h; simp at h

theorem readSelection_ok (server : Bytes) (m : Nat) (rest : Bytes) (h : readSelection server = .ok m rest) :
    server = 5 :: m :: rest ∧ (m = 0 ∨ m = 2 ∨ m = 0x80 ∨ m = 0xff) := by
  match server, h with
  | [], h => simp [readSelection, readU8] at h
  | [a], h =>
    simp [readSelection, readU8] at h
    split at h <;> simp at h
  | a :: c :: r, h =>
    simp [readSelection, readU8] at h
    split at h
    · split at h
      · simp at h; obtain ⟨rfl, rfl⟩ := h; subst_vars; simp; omega
      · simp at h
    · simp at h

theorem readAuthResponse_ok (server : Bytes) (rest : Bytes) (h : readAuthResponse server = .ok () rest) :
    server = 1 :: 0 :: rest := by
  match server, h with
  | [], h => simp [readAuthResponse, readU8] at h
  | [a], h =>
    simp [readAuthResponse, readU8] at h
    split at h <;> simp at h
  | a :: c :: r, h =>
    simp [readAuthResponse, readU8] at h
    split at h
    · split at h
      · simp at h; subst_vars; rfl
      · simp at h
    · simp at h

theorem sent_aux (auth : Option Auth) (req : Request) (server : Bytes) :
    (connect auth req server).1 = encodeSelection auth ∨
    (∃ r, reqMsg req = some r ∧ (connect auth req server).1 = encodeSelection auth ++ r) ∨
    (∃ a m, auth = some a ∧ encodeAuth a = some m ∧
      ((connect auth req server).1 = encodeSelection auth ++ m ∨
       ∃ r, reqMsg req = some r ∧ (connect auth req server).1 = encodeSelection auth ++ m ++ r)) := by
  unfold connect
  cases hs : readSelection server with
  | err e => left; rfl
  | ok m server' =>
    simp only
    split
    · -- no auth
      cases hm : reqMsg req with
      | none => left; rw [connectRequest_none _ _ _ hm]
      | some r => right; left; exact ⟨r, rfl, connectRequest_fst _ _ _ _ hm⟩
    · split
      · cases auth with
        | none => left; rfl
        | some a =>
          simp only
          cases ha : encodeAuth a with
          | none => left; rfl
          | some msg =>
            simp only
            right; right
            refine ⟨a, msg, rfl, ha, ?_⟩
            cases hr : readAuthResponse server' with
            | err e => left; rfl
            | ok u server'' =>
              simp only
              cases hm : reqMsg req with
              | none => left; rw [connectRequest_none _ _ _ hm]
              | some r => right; exact ⟨r, rfl, connectRequest_fst _ _ _ _ hm⟩
      · left; rfl

theorem readReply_short (b : Bytes) (h : b.length < 4) (r : Reply) (rest : Bytes) : readReply b ≠ .ok r rest := by
  match b, h with
  | [], _ => simp [readReply, readU8]
  | [a], _ => simp [readReply, readU8]; split <;> simp
  | [a, c], _ => simp [readReply, readU8]; repeat' split
                 all_goals simp
  | [a, c, d], _ => simp [readReply, readU8]; repeat' split
                    all_goals simp

theorem readReply_hdr (v code rsv atyp : Nat) (body : Bytes) (r : Reply) (rest : Bytes)
    (h : readReply (v :: code :: rsv :: atyp :: body) = .ok r rest) : v = 5 ∧ code ≤ 8 ∧ rsv = 0 := by
  simp only [readReply, readU8] at h
  split at h
  · simp at h
  · split at h
    · simp at h
    · split at h
      · simp at h
      · simp_all

theorem readReply_v4_io (code : Nat) (body : Bytes) (hc : code ≤ 8) (hl : body.length < 6) :
    readReply (5 :: code :: 0 :: 1 :: body) = .err .io := by
  have hc' : ¬ (8 < code) := by omega
  simp only [readReply, readU8]
  by_cases h4 : body.length < 4
  · simp [hc', readExact, h4]
  · have : body.length - 4 < 2 := by omega
    simp [hc', readExact, h4, this]

theorem readReply_v4_ok (code : Nat) (body : Bytes) (r : Reply) (rest : Bytes)
    (h : readReply (5 :: code :: 0 :: 1 :: body) = .ok r rest) : rest.length + 6 = body.length := by
  have hc := (readReply_hdr _ _ _ _ _ _ _ h).2.1
  by_cases hl : body.length < 6
  · rw [readReply_v4_io code body hc hl] at h; simp at h
  · have hc' : ¬ (8 < code) := by omega
    have h4 : ¬ body.length < 4 := by omega
    have : ¬ body.length - 4 < 2 := by omega
    simp only [readReply, readU8] at h
    simp [hc', readExact, h4, this] at h
    rw [← h.2]; simp; omega

theorem readReply_v6_io (code : Nat) (body : Bytes) (hc : code ≤ 8) (hl : body.length < 18) :
    readReply (5 :: code :: 0 :: 4 :: body) = .err .io := by
  have hc' : ¬ (8 < code) := by omega
  simp only [readReply, readU8]
  by_cases h4 : body.length < 16
  · simp [hc', readExact, h4]
  · have : body.length - 16 < 2 := by omega
    simp [hc', readExact, h4, this]

theorem readReply_v6_ok (code : Nat) (body : Bytes) (r : Reply) (rest : Bytes)
    (h : readReply (5 :: code :: 0 :: 4 :: body) = .ok r rest) : rest.length + 18 = body.length := by
  have hc := (readReply_hdr _ _ _ _ _ _ _ h).2.1
  by_cases hl : body.length < 18
  · rw [readReply_v6_io code body hc hl] at h; simp at h
  · have hc' : ¬ (8 < code) := by omega
    have h4 : ¬ body.length < 16 := by omega
    have : ¬ body.length - 16 < 2 := by omega
    simp only [readReply, readU8] at h
    simp [hc', readExact, h4, this] at h
    rw [← h.2]; simp; omega

theorem readReply_dom_nil (code : Nat) (hc : code ≤ 8) :
    readReply [5, code, 0, 3] = .err .io := by
  have hc' : ¬ (8 < code) := by omega
  simp [readReply, readU8, hc']

theorem readReply_dom_io (code ln : Nat) (tl : Bytes) (hc : code ≤ 8) (hl : tl.length < ln + 2)
    (hv : ln ≤ tl.length → validUtf8 (tl.take ln) = true) :
    readReply (5 :: code :: 0 :: 3 :: ln :: tl) = .err .io := by
  have hc' : ¬ (8 < code) := by omega
  simp only [readReply, readU8]
  by_cases h4 : tl.length < ln
  · simp [hc', readExact, h4]
  · have : tl.length - ln < 2 := by omega
    simp [hc', readExact, h4, this, hv (by omega)]

theorem readReply_dom_ok (code : Nat) (body : Bytes) (r : Reply) (rest : Bytes)
    (h : readReply (5 :: code :: 0 :: 3 :: body) = .ok r rest) :
    ∃ ln tl, body = ln :: tl ∧ rest.length + ln + 2 = tl.length ∧ validUtf8 (tl.take ln) = true := by
  have hc := (readReply_hdr _ _ _ _ _ _ _ h).2.1
  match body, h with
  | [], h => rw [readReply_dom_nil code hc] at h; simp at h
  | ln :: tl, h =>
    refine ⟨ln, tl, rfl, ?_⟩
    have hc' : ¬ (8 < code) := by omega
    simp only [readReply, readU8] at h
    by_cases h4 : tl.length < ln
    · simp [hc', readExact, h4] at h
    · cases hv : validUtf8 (tl.take ln) with
      | false => simp [hc', readExact, h4, hv] at h
      | true =>
        by_cases h2 : tl.length - ln < 2
        · simp [hc', readExact, h4, hv, h2] at h
        · simp [hc', readExact, h4, hv, h2] at h
          rw [← h.2]; simp; omega

theorem readReply_other (code atyp : Nat) (body : Bytes) (r : Reply) (rest : Bytes)
    (h1 : atyp ≠ 1) (h4 : atyp ≠ 4) (h3 : atyp ≠ 3) : readReply (5 :: code :: 0 :: atyp :: body) ≠ .ok r rest := by
  simp only [readReply, readU8]
  split
  · simp
  · split
    · simp
    · split
      · simp
      · simp [h1, h4, h3]

end TT.Socks
