import TT.Model.UdpCodec
namespace TT.Udp
end TT.Udp
