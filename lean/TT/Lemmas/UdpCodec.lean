import TT.Model.UdpCodec
/-! Helper lemmas for C06 (UDP codec). -/
namespace TT.Udp
open TT TT.Bytes TT.Icmp

theorem br_cases (buffer input : Bytes) (cap : Nat) (h : buffer.length < cap ∨ (cap = 0 ∧ buffer = [])) :
    (buffer.length + input.length < cap ∧ bufferedRead buffer input cap = .need (buffer ++ input)) ∨
    (cap ≤ buffer.length + input.length ∧ ∃ field tail, bufferedRead buffer input cap = .got field tail ∧ field.length = cap ∧
       buffer ++ input = field ++ tail ∧ tail.length ≤ input.length ∧
       (input ≠ [] → cap ≠ 0 → tail.length < input.length)) := by
  by_cases hlt : buffer.length + input.length < cap
  · left
    refine ⟨hlt, ?_⟩
    have h1 : buffer.length < cap := by omega
    have h2 : min input.length (cap - buffer.length) = input.length := by omega
    simp [bufferedRead, h1, h2, hlt]
  · right
    refine ⟨by omega, buffer ++ input.take (cap - buffer.length), input.drop (cap - buffer.length), ?_, ?_, ?_, ?_, ?_⟩
    · have h2 : min input.length (cap - buffer.length) = cap - buffer.length := by omega
      have h3 : ¬ (cap ≤ buffer.length ∧ ¬ cap = 0) := by omega
      have h4 : ¬ (buffer.length + min (cap - buffer.length) input.length < cap) := by omega
      simp [bufferedRead, h2]
      rw [if_neg h3, if_neg h4]
    · rcases h with h | ⟨h, hb⟩
      · simp; omega
      · simp [h, hb]
    · simp
    · simp
    · intro hi hc
      have : input.length ≠ 0 := by simpa using hi
      simp; omega

theorem getU32_len4 (f : Bytes) (h : f.length = 4) :
    ∃ t, getU32 f = .ok (t, []) ∧ ∀ x, getU32 (f ++ x) = .ok (t, x) := by
  match f, h with
  | [a, b, c, d], _ => exact ⟨_, rfl, fun _ => rfl⟩


theorem parseSock_ok (h : Bytes) (hl : 18 ≤ h.length) :
    ∃ v r, parseSock h = .ok (v, r) ∧ r.length + 18 = h.length ∧ r = h.drop 18 ∧
      ∀ x, parseSock (h ++ x) = .ok (v, r ++ x) := by
  have e : h = h.take 16 ++ h.drop 16 := by simp
  have hp : (h.take 16).length = 16 := by simp; omega
  have hq : (h.drop 16).length + 16 = h.length := by simp; omega
  generalize h.take 16 = p at e hp
  generalize h.drop 16 = q at e hq
  subst e
  match q, hq with
  | a :: b :: r, hq =>
    refine ⟨⟨fixedIpOf p, a * 256 + b⟩, r, ?_, ?_, ?_, ?_⟩
    · simp [parseSock, getFixedIp, splitTo, hp, getU16]
    · simp at hl hq ⊢; omega
    · have : p.drop 18 = [] := by simp; omega
      simp [List.drop_append, this, hp]
    · intro x
      simp [parseSock, getFixedIp, splitTo, hp, getU16]
  | [_], hq => simp at hl hq; omega
  | [], hq => simp at hl hq; omega


theorem getU32_rest_length {s : Bytes} {len : Nat} {rest : Bytes} (h : getU32 s = .ok (len, rest)) :
    rest.length + 4 = s.length := by
  match s, h with
  | a :: b :: c :: d :: r, h =>
    simp [getU32] at h
    rw [← h.2]; simp

theorem specDecode_fuel_irrel : ∀ (F G : Nat) (s : Bytes), s.length < F → s.length < G →
    specDecode F s = specDecode G s := by
  intro F
  induction F with
  | zero => intro G s h; omega
  | succ F ih =>
    intro G s hF hG
    match G, hG with
    | G+1, hG =>
      unfold specDecode
      split
      · rfl
      · next len rest hget =>
        have := getU32_rest_length hget
        split
        · rfl
        · have hl : (rest.drop len).length < F := by simp; omega
          have hl' : (rest.drop len).length < G := by simp; omega
          rw [ih G _ hl hl']

/-- fuel-free reference decoder -/
def spec (s : Bytes) : List Datagram := specDecode (s.length + 1) s

theorem specDecode_eq_spec (F : Nat) (s : Bytes) (h : s.length < F) : specDecode F s = spec s :=
  specDecode_fuel_irrel _ _ _ h (by omega)

theorem spec_unfold (s : Bytes) : spec s =
    match getU32 s with
    | .panic => []
    | .ok (len, rest) =>
      if rest.length < len then [] else
      (specRecord len (rest.take len)).toList ++ spec (rest.drop len) := by
  rw [spec, specDecode]
  cases hget : getU32 s with
  | panic => rfl
  | ok p =>
    obtain ⟨len, rest⟩ := p
    have := getU32_rest_length hget
    simp only []
    split
    · rfl
    · rw [specDecode_eq_spec _ _ (by simp; omega)]
      split <;> simp [*]


theorem header_parse (header : Bytes) (h : header.length = hdrNoLen) :
    ∃ src dst l r1, parseSock header = .ok (src, r1) ∧ parseSock r1 = .ok (dst, [l]) ∧ l ∈ header ∧
      ∀ Y, parseSock (header ++ Y) = .ok (src, r1 ++ Y) ∧ parseSock (r1 ++ Y) = .ok (dst, l :: Y) := by
  simp only [hdrNoLen] at h
  obtain ⟨src, r1, h1, hl1, hd1, h1'⟩ := parseSock_ok header (by omega)
  obtain ⟨dst, r2, h2, hl2, hd2, h2'⟩ := parseSock_ok r1 (by omega)
  match r2, hl2, hd2, h2, h2' with
  | [l], _, hd2, h2, h2' =>
    refine ⟨src, dst, l, r1, h1, h2, ?_, fun Y => ⟨h1' Y, by simpa using h2' Y⟩⟩
    rw [hd1, List.drop_drop] at hd2
    exact List.mem_of_mem_drop (hd2 ▸ List.mem_singleton_self l)
  | [], hl2, _, _, _ => simp at hl2; omega
  | _ :: _ :: _, hl2, _, _, _ => simp at hl2; omega

theorem specRecord_header {header r1 : Bytes} {src dst : Ip.Sock} {l : Nat} (total : Nat) (Y : Bytes)
    (ht : hdrNoLen ≤ total)
    (h1 : parseSock (header ++ Y) = .ok (src, r1 ++ Y)) (h2 : parseSock (r1 ++ Y) = .ok (dst, l :: Y)) :
    specRecord total (header ++ Y) =
      if total > maxIn - l then none else if total < hdrNoLen + l then none else
      if validUtf8 (Y.take l) then some ⟨src, dst, Y.take l, (Y.drop l).take (total - hdrNoLen - l)⟩ else none := by
  simp only [specRecord, h1, h2]
  rw [if_neg (by omega)]


/-- zero-consumption steps still ahead in a state -/
def w : RecvState → Nat
  | .appName 0 => 2
  | .payload 0 => 1
  | .dropping 0 => 1
  | _ => 0

@[simp] theorem w_length : w .length = 0 := rfl
@[simp] theorem w_fixedHeader : w .fixedHeader = 0 := rfl
theorem w_le (st : RecvState) : w st ≤ 2 := by
  unfold w; split <;> omega
theorem w_dropping_le (k : Nat) : w (.dropping k) ≤ 1 := by
  unfold w; split <;> simp_all
theorem w_payload_le (k : Nat) : w (.payload k) ≤ 1 := by
  unfold w; split <;> simp_all

/-- invariant used by the simulation -/
def SInv (d : Dec) : Prop :=
  match d.st with
  | .length => d.buffer.length < 4
  | .fixedHeader => d.buffer.length < hdrNoLen ∧ hdrNoLen ≤ d.total
  | .appName l => (d.buffer.length < l ∨ (l = 0 ∧ d.buffer = [])) ∧ hdrNoLen + l ≤ d.total ∧ d.src.isSome ∧ d.dst.isSome
  | .payload n => (d.buffer.length < n ∨ d.buffer = []) ∧ d.src.isSome ∧ d.dst.isSome
  | .dropping _ => d.buffer = []

/-- what the reference decoder yields for the rest of the stream, resumed from a decoder state -/
def specFrom (d : Dec) (s : Bytes) : List Datagram :=
  match d.st with
  | .length => spec (d.buffer ++ s)
  | .fixedHeader =>
    if (d.buffer ++ s).length < d.total then [] else
      (specRecord d.total ((d.buffer ++ s).take d.total)).toList ++ spec ((d.buffer ++ s).drop d.total)
  | .appName l =>
    if (d.buffer ++ s).length < d.total - hdrNoLen then [] else
      (match d.src, d.dst with
       | some a, some b =>
         if validUtf8 ((d.buffer ++ s).take l) then
           [⟨a, b, (d.buffer ++ s).take l, ((d.buffer ++ s).drop l).take (d.total - hdrNoLen - l)⟩] else []
       | _, _ => []) ++ spec ((d.buffer ++ s).drop (d.total - hdrNoLen))
  | .payload n =>
    if (d.buffer ++ s).length < n then [] else
      (match d.src, d.dst with
       | some a, some b => [⟨a, b, d.app.getD [], (d.buffer ++ s).take n⟩]
       | _, _ => []) ++ spec ((d.buffer ++ s).drop n)
  | .dropping k => if s.length < k then [] else spec (s.drop k)

def StepOK (d : Dec) (data : Bytes) : Prop :=
  ∃ d' out tail, decodeOnce d data = .next d' out tail ∧ SInv d' ∧
    3 * tail.length + w d'.st < 3 * data.length + w d.st ∧
    (out.isSome → d'.st = .length) ∧
    ∀ s, specFrom d (data ++ s) = out.toList ++ specFrom d' (tail ++ s)

theorem step_length (d : Dec) (data : Bytes) (hst : d.st = .length) (hI : SInv d) (hne : data ≠ []) :
    StepOK d data := by
  obtain ⟨st, total, buffer, src, dst, app⟩ := d
  simp only at hst; subst hst
  simp only [SInv] at hI
  have hdl : data.length ≠ 0 := by simpa using hne
  rcases br_cases buffer data 4 (Or.inl hI) with ⟨hlt, hbr⟩ | ⟨hge, field, tail, hbr, hfl, happ, htl, htl'⟩
  · refine ⟨_, none, [], by simp only [decodeOnce, hbr]; rfl, ?_, ?_, ?_, ?_⟩
    · simpa [SInv] using hlt
    · simp [w]; omega
    · simp
    · intro s; simp [specFrom]
  · obtain ⟨t, ht, ht'⟩ := getU32_len4 field hfl
    have htl'' := htl' hne (by omega)
    by_cases hT : t ≥ hdrNoLen
    · refine ⟨_, none, tail, by simp only [decodeOnce, hbr, ht, if_pos hT]; rfl, ?_, ?_, ?_, ?_⟩
      · simp [SInv, hdrNoLen] at hT ⊢; omega
      · simp [w]; omega
      · simp
      · intro s
        simp only [specFrom, List.nil_append]
        rw [← List.append_assoc, happ, List.append_assoc, spec_unfold, ht']
        simp
    · refine ⟨_, none, tail, by simp only [decodeOnce, hbr, ht, if_neg hT]; rfl, ?_, ?_, ?_, ?_⟩
      · simp [SInv]
      · have := w_dropping_le t; simp only [w_length]; omega
      · simp
      · intro s
        simp only [specFrom]
        rw [← List.append_assoc, happ, List.append_assoc, spec_unfold, ht']
        have : specRecord t (List.take t (tail ++ s)) = none := by
          simp only [specRecord]; rw [if_pos (by omega)]
        simp [this]


theorem ite_iff_congr {α : Type} {p q : Prop} [Decidable p] [Decidable q] (h : p ↔ q) (a b : α) :
    (if p then a else b) = if q then a else b := by
  by_cases hp : p
  · rw [if_pos hp, if_pos (h.1 hp)]
  · rw [if_neg hp, if_neg (fun hq => hp (h.2 hq))]

theorem w_appName_pos {l : Nat} (h : l ≠ 0) : w (.appName l) = 0 := by
  unfold w; split <;> simp_all
theorem w_payload_pos {l : Nat} (h : l ≠ 0) : w (.payload l) = 0 := by
  unfold w; split <;> simp_all
theorem w_dropping_pos {l : Nat} (h : l ≠ 0) : w (.dropping l) = 0 := by
  unfold w; split <;> simp_all
@[simp] theorem w_appName_zero : w (.appName 0) = 2 := rfl
@[simp] theorem w_payload_zero : w (.payload 0) = 1 := rfl
@[simp] theorem w_dropping_zero : w (.dropping 0) = 1 := rfl

theorem pendingEmpty_appName (l : Nat) : pendingEmpty (.appName l) = true ↔ l = 0 := by
  cases l <;> simp [pendingEmpty]
theorem pendingEmpty_payload (l : Nat) : pendingEmpty (.payload l) = true ↔ l = 0 := by
  cases l <;> simp [pendingEmpty]

theorem step_fixedHeader (d : Dec) (data : Bytes) (hst : d.st = .fixedHeader) (hI : SInv d) (hne : data ≠ []) :
    StepOK d data := by
  obtain ⟨st, total, buffer, src, dst, app⟩ := d
  simp only at hst; subst hst
  simp only [SInv] at hI
  obtain ⟨hI, hT⟩ := hI
  have hdl : data.length ≠ 0 := by simpa using hne
  have h37 : hdrNoLen = 37 := rfl
  rcases br_cases buffer data hdrNoLen (Or.inl hI) with ⟨hlt, hbr⟩ | ⟨hge, header, tail, hbr, hfl, happ, htl, htl'⟩
  · refine ⟨_, none, [], by simp only [decodeOnce, hbr]; rfl, ?_, ?_, ?_, ?_⟩
    · simpa [SInv, hT] using hlt
    · simp [w]; omega
    · simp
    · intro s; simp [specFrom]
  · obtain ⟨src', dst', l, r1, h1, h2, _, hY⟩ := header_parse header hfl
    have htl'' := htl' hne (by simp [hdrNoLen])
    have hsim : ∀ s : Bytes, (buffer ++ (data ++ s)) = header ++ (tail ++ s) := by
      intro s; rw [← List.append_assoc, happ, List.append_assoc]
    have hlen : ∀ s : Bytes, (header ++ (tail ++ s)).length = hdrNoLen + (tail ++ s).length := by
      intro s; rw [List.length_append, hfl]
    have htake : ∀ X : Bytes, (header ++ X).take total = header ++ X.take (total - hdrNoLen) := by
      intro X; rw [List.take_append, hfl, List.take_of_length_le (by omega)]
    have hdrop : ∀ X : Bytes, (header ++ X).drop total = X.drop (total - hdrNoLen) := by
      intro X; rw [List.drop_append, hfl, List.drop_of_length_le (by omega)]; rfl
    have hrec := fun Y => specRecord_header total Y hT (hY Y).1 (hY Y).2
    by_cases hA : total > maxIn - l
    · refine ⟨_, none, tail, by simp only [decodeOnce, hbr, h1, h2, getU8, if_pos hA]; rfl, ?_, ?_, ?_, ?_⟩
      · simp [SInv]
      · have := w_dropping_le (total - hdrNoLen); simp only [w_fixedHeader]; omega
      · simp
      · intro s
        simp only [specFrom, hsim, hlen, htake, hdrop, hrec, if_pos hA]
        simp [-List.length_append]
        exact ite_iff_congr (by omega) _ _
    · by_cases hB : total ≥ hdrNoLen + l
      · refine ⟨_, none, tail, by simp only [decodeOnce, hbr, h1, h2, getU8, if_neg hA, if_pos hB]; rfl, ?_, ?_, ?_, ?_⟩
        · simp [SInv]; omega
        · have := w_le (.appName l); simp only [w_fixedHeader]; omega
        · simp
        · intro s
          simp only [specFrom, hsim, hlen, htake, hdrop, hrec, if_neg hA]
          rw [if_neg (show ¬ total < hdrNoLen + l by omega)]
          simp only [List.nil_append, Option.toList_none]
          generalize tail ++ s = X
          rw [ite_iff_congr (show (hdrNoLen + X.length < total ↔ X.length < total - hdrNoLen) by omega)]
          rw [List.take_take, List.drop_take, List.take_take,
            show min l (total - hdrNoLen) = l by omega,
            show min (total - hdrNoLen - l) (total - hdrNoLen - l) = total - hdrNoLen - l by omega]
          split
          · rfl
          · split <;> rfl
      · refine ⟨_, none, tail, by simp only [decodeOnce, hbr, h1, h2, getU8, if_neg hA, if_neg hB]; rfl, ?_, ?_, ?_, ?_⟩
        · simp [SInv]
        · have := w_dropping_le (total - hdrNoLen); simp only [w_fixedHeader]; omega
        · simp
        · intro s
          simp only [specFrom, hsim, hlen, htake, hdrop, hrec, if_neg hA]
          rw [if_pos (show total < hdrNoLen + l by omega)]
          simp [-List.length_append]
          exact ite_iff_congr (by omega) _ _

theorem step_appName (d : Dec) (data : Bytes) (l : Nat) (hst : d.st = .appName l) (hI : SInv d)
    (hgo : data ≠ [] ∨ pendingEmpty d.st = true) :
    StepOK d data := by
  obtain ⟨st, total, buffer, src, dst, app⟩ := d
  simp only at hst; subst hst
  simp only [SInv] at hI
  obtain ⟨hI, hT, hs, hd⟩ := hI
  obtain ⟨a, rfl⟩ := Option.isSome_iff_exists.1 hs
  obtain ⟨b, rfl⟩ := Option.isSome_iff_exists.1 hd
  simp only [pendingEmpty_appName] at hgo
  have hdl : data ≠ [] → data.length ≠ 0 := by simp
  have h37 : hdrNoLen = 37 := rfl
  rcases br_cases buffer data l hI with ⟨hlt, hbr⟩ | ⟨hge, name, tail, hbr, hfl, happ, htl, htl'⟩
  · have hl0 : l ≠ 0 := by omega
    have hne : data ≠ [] := by rcases hgo with h | h; exact h; omega
    have := hdl hne
    refine ⟨_, none, [], by simp only [decodeOnce, hbr]; rfl, ?_, ?_, ?_, ?_⟩
    · simp [SInv]; omega
    · simp [w_appName_pos hl0]; omega
    · simp
    · intro s; simp [specFrom]
  · have hsim : ∀ s : Bytes, (buffer ++ (data ++ s)) = name ++ (tail ++ s) := by
      intro s; rw [← List.append_assoc, happ, List.append_assoc]
    have hlen : ∀ X : Bytes, (name ++ X).length = l + X.length := by
      intro s; rw [List.length_append, hfl]
    have htake : ∀ X : Bytes, (name ++ X).take l = name := by
      intro X; rw [List.take_append, hfl, List.take_of_length_le (by omega)]; simp
    have hdrop : ∀ X : Bytes, (name ++ X).drop l = X := by
      intro X; rw [List.drop_append, hfl, List.drop_of_length_le (by omega)]; simp
    have hdrop2 : ∀ X : Bytes, (name ++ X).drop (total - hdrNoLen) = X.drop (total - hdrNoLen - l) := by
      intro X; rw [List.drop_append, hfl, List.drop_of_length_le (by omega)]; simp
    have hmeas : ∀ k, w k ≤ 1 → 3 * tail.length + w k < 3 * data.length + w (.appName l) := by
      intro k hk
      by_cases hl0 : l = 0
      · subst hl0; simp; omega
      · have hne : data ≠ [] := by rcases hgo with h | h; exact h; omega
        have := htl' hne hl0
        omega
    by_cases hV : validUtf8 name = true
    · refine ⟨_, none, tail, by simp only [decodeOnce, hbr, if_pos hV]; rfl, ?_, ?_, ?_, ?_⟩
      · simp [SInv]
      · exact hmeas _ (w_payload_le _)
      · simp
      · intro s
        simp only [specFrom, hsim, hlen, htake, hdrop, hdrop2, if_pos hV, List.nil_append, Option.toList_none,
          Option.getD_some]
        exact ite_iff_congr (by omega) _ _
    · refine ⟨_, none, tail, by simp only [decodeOnce, hbr, if_neg hV]; rfl, ?_, ?_, ?_, ?_⟩
      · simp [SInv]
      · exact hmeas _ (w_dropping_le _)
      · simp
      · intro s
        simp only [specFrom, hsim, hlen, htake, hdrop, hdrop2, if_neg hV, List.nil_append, Option.toList_none]
        exact ite_iff_congr (by omega) _ _

theorem step_payload (d : Dec) (data : Bytes) (n : Nat) (hst : d.st = .payload n) (hI : SInv d)
    (hgo : data ≠ [] ∨ pendingEmpty d.st = true) :
    StepOK d data := by
  obtain ⟨st, total, buffer, src, dst, app⟩ := d
  simp only at hst; subst hst
  simp only [SInv] at hI
  obtain ⟨hI, hs, hd⟩ := hI
  obtain ⟨a, rfl⟩ := Option.isSome_iff_exists.1 hs
  obtain ⟨b, rfl⟩ := Option.isSome_iff_exists.1 hd
  simp only [pendingEmpty_payload] at hgo
  have hdl : data ≠ [] → data.length ≠ 0 := by simp
  have hmeas : n ≠ 0 → data ≠ [] := by
    intro h; rcases hgo with h' | h'; exact h'; omega
  by_cases hA : buffer = [] ∧ n ≤ data.length
  · obtain ⟨rfl, hn⟩ := hA
    refine ⟨_, some _, data.drop n, by simp only [decodeOnce, List.isEmpty_nil, Bool.true_and, ge_iff_le, decide_eq_true hn, if_true]; rfl, ?_, ?_, ?_, ?_⟩
    · simp [SInv]
    · by_cases h0 : n = 0
      · subst h0; simp
      · simp [w_payload_pos h0]; omega
    · simp
    · intro s
      simp only [specFrom, List.nil_append, List.take_append_of_le_length hn, List.drop_append_of_le_length hn]
      rw [if_neg (by simp; omega)]
      simp
  · have hcond : (buffer.isEmpty && decide (data.length ≥ n)) = false := by
      by_cases hb : buffer = []
      · subst hb; simp at hA ⊢; omega
      · simp [hb]
    by_cases hB : buffer.length + data.length < n
    · have hmin : min data.length (n - buffer.length) = data.length := by omega
      have hn0 : n ≠ 0 := by omega
      have := hdl (hmeas hn0)
      refine ⟨_, none, [], by simp only [decodeOnce, hcond, hmin, List.take_length, List.drop_length, List.length_append, if_pos hB]; rfl, ?_, ?_, ?_, ?_⟩
      · simp [SInv]; omega
      · simp [w_payload_pos hn0]; omega
      · simp
      · intro s; simp [specFrom]
    · have hbl : buffer.length < n := by
        rcases hI with h | h
        · exact h
        · subst h; simp at hA hB; omega
      have hbne : buffer ≠ [] := by
        intro h; subst h; simp at hA hB; omega
      have hn0 : n ≠ 0 := by omega
      have hmin : min data.length (n - buffer.length) = n - buffer.length := by omega
      have hlen : ¬ (buffer ++ data.take (n - buffer.length)).length < n := by simp; omega
      have := hdl (hmeas hn0)
      refine ⟨_, some _, data.drop (n - buffer.length), by simp only [decodeOnce, hcond, hmin, if_neg hlen]; rfl, ?_, ?_, ?_, ?_⟩
      · simp [SInv]
      · simp [w_payload_pos hn0]; omega
      · simp
      · intro s
        simp only [specFrom, List.nil_append]
        rw [if_neg (by simp; omega)]
        have h1 : (buffer ++ (data ++ s)).take n = buffer ++ data.take (n - buffer.length) := by
          rw [List.take_append, List.take_of_length_le (by omega), List.take_append_of_le_length (by omega)]
        have h2 : (buffer ++ (data ++ s)).drop n = data.drop (n - buffer.length) ++ s := by
          rw [List.drop_append, List.drop_of_length_le (by omega), List.drop_append_of_le_length (by omega)]; simp
        rw [h1, h2]; simp

theorem step_dropping (d : Dec) (data : Bytes) (r : Nat) (hst : d.st = .dropping r) (hI : SInv d)
    (hne : data ≠ []) :
    StepOK d data := by
  obtain ⟨st, total, buffer, src, dst, app⟩ := d
  simp only at hst; subst hst
  simp only [SInv] at hI
  subst hI
  have hdl : data.length ≠ 0 := by simpa using hne
  by_cases hr : r ≤ data.length
  · have hmin : min r data.length = r := by omega
    refine ⟨_, none, data.drop r, by simp only [decodeOnce, hmin, Nat.le_refl, if_true]; rfl, ?_, ?_, ?_, ?_⟩
    · simp [SInv]
    · by_cases h0 : r = 0
      · subst h0; simp
      · simp [w_dropping_pos h0]; omega
    · simp
    · intro s
      simp only [specFrom, List.nil_append, Option.toList_none, List.drop_append_of_le_length hr]
      rw [if_neg (by simp; omega)]
  · have hmin : min r data.length = data.length := by omega
    have h0 : r ≠ 0 := by omega
    refine ⟨_, none, [], by simp only [decodeOnce, hmin, if_neg hr, List.drop_length]; rfl, ?_, ?_, ?_, ?_⟩
    · simp [SInv]
    · have := w_dropping_le (r - data.length); simp [w_dropping_pos h0]; omega
    · simp
    · intro s
      simp only [specFrom, List.nil_append, Option.toList_none]
      rw [List.drop_append, List.drop_of_length_le (by omega), List.nil_append]
      exact ite_iff_congr (by simp; omega) _ _


theorem step_ok (d : Dec) (data : Bytes) (hI : SInv d) (hgo : data ≠ [] ∨ pendingEmpty d.st = true) :
    StepOK d data := by
  cases hst : d.st with
  | length => exact step_length d data hst hI (by simpa [hst, pendingEmpty] using hgo)
  | fixedHeader => exact step_fixedHeader d data hst hI (by simpa [hst, pendingEmpty] using hgo)
  | appName l => exact step_appName d data l hst hI hgo
  | payload n => exact step_payload d data n hst hI hgo
  | dropping r => exact step_dropping d data r hst hI (by simpa [hst, pendingEmpty] using hgo)

/-- postcondition of `decodeChunk` -/
def ChunkPost (d : Dec) (data : Bytes) : Chunk → Prop
  | .panic => False
  | .wantMore d' => SInv d' ∧ pendingEmpty d'.st = false ∧ ∀ s, specFrom d (data ++ s) = specFrom d' s
  | .complete d' dg tail => SInv d' ∧ d'.st = .length ∧ 3 * tail.length < 3 * data.length + w d.st ∧
      ∀ s, specFrom d (data ++ s) = dg :: specFrom d' (tail ++ s)

theorem chunk_ok : ∀ (fuel : Nat) (d : Dec) (data : Bytes), SInv d → 3 * data.length + w d.st + 1 ≤ fuel →
    ChunkPost d data (decodeChunk fuel d data) := by
  intro fuel
  induction fuel with
  | zero => intro d data _ h; omega
  | succ fuel ih =>
    intro d data hI hf
    unfold decodeChunk
    by_cases hstop : (data.isEmpty && !pendingEmpty d.st) = true
    · rw [if_pos hstop]
      simp only [Bool.and_eq_true, List.isEmpty_iff, Bool.not_eq_true'] at hstop
      obtain ⟨rfl, hp⟩ := hstop
      exact ⟨hI, hp, fun s => rfl⟩
    · rw [if_neg hstop]
      have hgo : data ≠ [] ∨ pendingEmpty d.st = true := by
        by_cases hd : data = []
        · right; subst hd; simpa using hstop
        · left; exact hd
      obtain ⟨d', out, tail, hstep, hI', hm, hout, hsim⟩ := step_ok d data hI hgo
      rw [hstep]
      cases out with
      | some dg =>
        refine ⟨hI', hout rfl, ?_, fun s => by simpa using hsim s⟩
        have := hout rfl
        rw [this] at hm; simpa using hm
      | none =>
        have := ih d' tail hI' (by omega)
        simp only
        generalize decodeChunk fuel d' tail = r at this
        cases r with
        | panic => exact this
        | wantMore d'' =>
          obtain ⟨h1, h2, h3⟩ := this
          exact ⟨h1, h2, fun s => by rw [hsim s, h3 s]; rfl⟩
        | complete d'' dg t2 =>
          obtain ⟨h1, h2, h3, h4⟩ := this
          exact ⟨h1, h2, by omega, fun s => by rw [hsim s, h4 s]; rfl⟩

theorem specFrom_nil (d : Dec) (hI : SInv d) (hp : pendingEmpty d.st = false) : specFrom d [] = [] := by
  obtain ⟨st, total, buffer, src, dst, app⟩ := d
  cases st with
  | length =>
    simp only [SInv] at hI
    simp only [specFrom, List.append_nil]
    rw [spec_unfold]
    match buffer, hI with
    | [], _ => rfl
    | [_], _ => rfl
    | [_, _], _ => rfl
    | [_, _, _], _ => rfl
  | fixedHeader =>
    simp only [SInv] at hI
    simp only [specFrom, List.append_nil]
    rw [if_pos (by omega)]
  | appName l =>
    simp only [SInv] at hI
    have hl : l ≠ 0 := by
      intro h; subst h; simp [pendingEmpty] at hp
    simp only [specFrom, List.append_nil]
    rw [if_pos (by omega)]
  | payload n =>
    simp only [SInv] at hI
    have hl : n ≠ 0 := by
      intro h; subst h; simp [pendingEmpty] at hp
    simp only [specFrom, List.append_nil]
    rw [if_pos ?_]
    rcases hI.1 with h | h
    · exact h
    · subst h; simp; omega
  | dropping r =>
    simp only [specFrom]
    split
    · rfl
    · simp; rw [spec_unfold]; rfl

def nu (st : RecvState) : Nat := if w st > 0 then 1 else 0

theorem stream_ok : ∀ (fuel : Nat) (d : Dec) (chunks : List Bytes) (acc : List Datagram), SInv d →
    pendingEmpty d.st = false →
    2 * chunks.length + 2 * chunks.flatten.length + nu d.st ≤ fuel →
    ∃ d', decodeStream fuel d chunks acc = some (acc.reverse ++ specFrom d chunks.flatten, d') := by
  intro fuel
  induction fuel with
  | zero =>
    intro d chunks acc hI hp hf
    have : chunks = [] := by
      cases chunks with
      | nil => rfl
      | cons _ _ => simp at hf
    subst this
    exact ⟨d, by simp [decodeStream, specFrom_nil d hI hp]⟩
  | succ fuel ih =>
    intro d chunks acc hI hp hf
    cases chunks with
    | nil => exact ⟨d, by simp [decodeStream, specFrom_nil d hI hp]⟩
    | cons chunk rest =>
      have hc := chunk_ok (chunkFuel chunk) d chunk hI (by have := w_le d.st; simp only [chunkFuel]; omega)
      simp only [decodeStream]
      simp only [List.length_cons, List.flatten_cons, List.length_append] at hf
      generalize decodeChunk (chunkFuel chunk) d chunk = r at hc
      cases r with
      | panic => exact hc.elim
      | wantMore d' =>
        obtain ⟨h1, h2, h3⟩ := hc
        have hnu : nu d'.st ≤ 1 := by unfold nu; split <;> omega
        obtain ⟨d'', hd''⟩ := ih d' rest acc h1 h2 (by omega)
        exact ⟨d'', by simp only [hd'', List.flatten_cons, h3]⟩
      | complete d' dg tail =>
        obtain ⟨h1, h2, h3, h4⟩ := hc
        have hnu : nu d'.st = 0 := by rw [h2]; rfl
        have hp' : pendingEmpty d'.st = false := by rw [h2]; rfl
        have hnud : 3 * tail.length < 3 * chunk.length + w d.st → tail.length < chunk.length ∨ (tail.length = chunk.length ∧ nu d.st = 1) := by
          intro h; have := w_le d.st; unfold nu; split <;> omega
        have hflat : (if tail.isEmpty then rest else tail :: rest).flatten = tail ++ rest.flatten := by
          split
          · next h => simp at h; subst h; rfl
          · rfl
        have hlen : tail ≠ [] → (if tail.isEmpty then rest else tail :: rest).length = rest.length + 1 := by
          intro h; simp [h]
        have hlen0 : tail = [] → (if tail.isEmpty then rest else tail :: rest).length = rest.length := by
          intro h; simp [h]
        obtain ⟨d'', hd''⟩ := ih d' (if tail.isEmpty then rest else tail :: rest) (dg :: acc) h1 hp' (by
          rw [hflat, hnu, List.length_append]
          by_cases ht : tail = []
          · rw [hlen0 ht]; subst ht; simp only [List.length_nil]; omega
          · rw [hlen ht]
            have := hnud h3
            omega)
        exact ⟨d'', by simp only [hd'', List.flatten_cons, h4, hflat]; simp⟩


/-- address well-formedness: octets/hextets in range and, for IPv6, not in the range that the
16-byte form reserves for zero-padded IPv4 -/
def IpWF (ip : Ip.Ip) : Prop :=
  match ip with
  | .v4 a b c d => a < 256 ∧ b < 256 ∧ c < 256 ∧ d < 256
  | .v6 x => x.s0 < 65536 ∧ x.s1 < 65536 ∧ x.s2 < 65536 ∧ x.s3 < 65536 ∧ x.s4 < 65536 ∧ x.s5 < 65536 ∧
      x.s6 < 65536 ∧ x.s7 < 65536 ∧ ¬ (x.s0 = 0 ∧ x.s1 = 0 ∧ x.s2 = 0 ∧ x.s3 = 0 ∧ x.s4 = 0 ∧ x.s5 = 0)

theorem putFixedIp_length (ip : Ip.Ip) : (putFixedIp ip).length = 16 := by
  cases ip <;> simp [putFixedIp, u16be]

theorem fixedIpOf_put (ip : Ip.Ip) (h : IpWF ip) : fixedIpOf (putFixedIp ip) = ip := by
  cases ip with
  | v4 a b c d => simp [putFixedIp, fixedIpOf]
  | v6 x =>
    obtain ⟨s0, s1, s2, s3, s4, s5, s6, s7⟩ := x
    simp only [IpWF] at h
    simp only [putFixedIp, u16be, List.cons_append, List.nil_append, fixedIpOf]
    rw [if_neg]
    · congr 2 <;> omega
    · simp only [Bool.and_eq_true, beq_iff_eq]
      omega

theorem getU16_u16be (n : Nat) (h : n < 65536) (r : Bytes) : getU16 (u16be n ++ r) = .ok (n, r) := by
  simp only [u16be, List.cons_append, List.nil_append, getU16]
  congr 2; omega

theorem getU32_u32be (n : Nat) (h : n < 4294967296) (r : Bytes) : getU32 (u32be n ++ r) = .ok (n, r) := by
  simp only [u32be, List.cons_append, List.nil_append, getU32]
  congr 2; omega

theorem parseSock_put (s : Ip.Sock) (hp : s.port < 65536) (hip : IpWF s.ip) (r : Bytes) :
    parseSock (putFixedIp s.ip ++ u16be s.port ++ r) = .ok (s, r) := by
  have hl := putFixedIp_length s.ip
  simp only [parseSock, getFixedIp, splitTo, List.append_assoc]
  rw [if_pos (by simp; omega)]
  simp only [List.take_append_of_le_length (Nat.le_of_eq hl.symm), List.take_of_length_le (Nat.le_of_eq hl),
    List.drop_append_of_le_length (Nat.le_of_eq hl.symm), List.drop_of_length_le (Nat.le_of_eq hl), List.nil_append,
    getU16_u16be _ hp, fixedIpOf_put _ hip]


theorem parseSock_put' (s : Ip.Sock) (hp : s.port < 65536) (hip : IpWF s.ip) (r : Bytes) :
    parseSock (putFixedIp s.ip ++ (u16be s.port ++ r)) = .ok (s, r) := by
  rw [← List.append_assoc]; exact parseSock_put s hp hip r

/-- the record body the client writes after the length field -/
def encBody (dg : Datagram) : Bytes :=
  putFixedIp dg.src.ip ++ (u16be dg.src.port ++ (putFixedIp dg.dst.ip ++ (u16be dg.dst.port ++
    (dg.app.length :: (dg.app ++ dg.payload)))))

theorem encodeIn_eq (dg : Datagram) :
    encodeIn dg = u32be (hdrNoLen + dg.app.length + dg.payload.length) ++ encBody dg := by
  simp [encodeIn, encBody]

theorem encBody_length (dg : Datagram) : (encBody dg).length = hdrNoLen + dg.app.length + dg.payload.length := by
  simp [encBody, putFixedIp_length, u16be, hdrNoLen]; omega

theorem specRecord_encBody (dg : Datagram) (hsp : dg.src.port < 65536) (hsi : IpWF dg.src.ip)
    (hdp : dg.dst.port < 65536) (hdi : IpWF dg.dst.ip) (hu : validUtf8 dg.app = true)
    (hl : hdrNoLen + dg.app.length + dg.payload.length ≤ maxIn - dg.app.length) :
    specRecord (hdrNoLen + dg.app.length + dg.payload.length) (encBody dg) = some dg := by
  simp only [specRecord, encBody, parseSock_put' _ hsp hsi, parseSock_put' _ hdp hdi]
  rw [if_neg (by omega), if_neg (by omega), if_neg (by omega)]
  have h1 : (dg.app ++ dg.payload).take dg.app.length = dg.app := by simp
  have h2 : (dg.app ++ dg.payload).drop dg.app.length = dg.payload := by simp
  rw [h1, h2, if_pos hu]
  have h3 : hdrNoLen + dg.app.length + dg.payload.length - hdrNoLen - dg.app.length = dg.payload.length := by omega
  rw [h3, List.take_length]

theorem specDecode_record (len : Nat) (hl : len < 4294967296) (body rest : Bytes) (hb : body.length = len)
    (fuel : Nat) :
    specDecode (fuel + 1) (u32be len ++ body ++ rest) =
      (specRecord len body).toList ++ specDecode fuel rest := by
  rw [specDecode, List.append_assoc, getU32_u32be len hl]
  simp only
  rw [if_neg (by simp; omega), List.take_append_of_le_length (by omega), List.take_of_length_le (by omega),
    List.drop_append_of_le_length (by omega), List.drop_of_length_le (by omega)]
  cases specRecord len body <;> simp


theorem encodeIn_flatten_length (dgs : List Datagram) : dgs.length ≤ (dgs.map encodeIn).flatten.length := by
  induction dgs with
  | nil => simp
  | cons dg dgs ih =>
    simp only [List.map_cons, List.flatten_cons, List.length_cons, List.length_append, encodeIn_eq, u32be]
    omega


/-- the bounded-buffering invariant of C06 (`Dec.Inv` in `TT/Props/C06.lean` unfolds to this) -/
def FullInv (d : Dec) : Prop :=
  match d.st with
  | .length => d.buffer.length < 4
  | .fixedHeader => d.buffer.length < hdrNoLen ∧ hdrNoLen ≤ d.total
  | .appName l => (d.buffer.length < l ∨ d.buffer = []) ∧ l ≤ 255 ∧ hdrNoLen + l ≤ d.total ∧ d.total ≤ maxIn - l ∧ d.src.isSome ∧ d.dst.isSome
  | .payload n => (d.buffer.length < n ∨ d.buffer = []) ∧ n ≤ maxIn ∧ d.src.isSome ∧ d.dst.isSome
  | .dropping _ => d.buffer = []

theorem fullInv_step (d : Dec) (data : Bytes) (h : FullInv d) (hw : ∀ x ∈ data, x < 256)
    (hbw : ∀ x ∈ d.buffer, x < 256) :
    ∃ d' out tail, decodeOnce d data = .next d' out tail ∧ FullInv d' := by
  obtain ⟨st, total, buffer, src, dst, app⟩ := d
  have h37 : hdrNoLen = 37 := rfl
  have hmax : maxIn = 65471 := rfl
  cases st with
  | length =>
    simp only [FullInv] at h
    rcases br_cases buffer data 4 (Or.inl h) with ⟨hlt, hbr⟩ | ⟨hge, field, tail, hbr, hfl, happ, htl, htl'⟩
    · exact ⟨_, none, [], by simp only [decodeOnce, hbr]; rfl, by simpa [FullInv] using hlt⟩
    · obtain ⟨t, ht, ht'⟩ := getU32_len4 field hfl
      by_cases hT : t ≥ hdrNoLen
      · exact ⟨_, none, tail, by simp only [decodeOnce, hbr, ht, if_pos hT]; rfl, by simp [FullInv]; omega⟩
      · exact ⟨_, none, tail, by simp only [decodeOnce, hbr, ht, if_neg hT]; rfl, by simp [FullInv]⟩
  | fixedHeader =>
    simp only [FullInv] at h
    obtain ⟨hI, hT⟩ := h
    rcases br_cases buffer data hdrNoLen (Or.inl hI) with ⟨hlt, hbr⟩ | ⟨hge, header, tail, hbr, hfl, happ, htl, htl'⟩
    · exact ⟨_, none, [], by simp only [decodeOnce, hbr]; rfl, by simpa [FullInv, hT] using hlt⟩
    · obtain ⟨src', dst', l, r1, h1, h2, hmem, hY⟩ := header_parse header hfl
      have hl : l < 256 := by
        have : l ∈ buffer ++ data := by rw [happ]; exact List.mem_append_left _ hmem
        rcases List.mem_append.1 this with h | h
        · exact hbw l h
        · exact hw l h
      by_cases hA : total > maxIn - l
      · exact ⟨_, none, tail, by simp only [decodeOnce, hbr, h1, h2, getU8, if_pos hA]; rfl, by simp [FullInv]⟩
      · by_cases hB : total ≥ hdrNoLen + l
        · exact ⟨_, none, tail, by simp only [decodeOnce, hbr, h1, h2, getU8, if_neg hA, if_pos hB]; rfl,
            by simp [FullInv]; omega⟩
        · exact ⟨_, none, tail, by simp only [decodeOnce, hbr, h1, h2, getU8, if_neg hA, if_neg hB]; rfl,
            by simp [FullInv]⟩
  | appName l =>
    simp only [FullInv] at h
    obtain ⟨hI, hl, hT, hM, hs, hd⟩ := h
    have hI' : buffer.length < l ∨ (l = 0 ∧ buffer = []) := by
      rcases hI with h | h
      · exact Or.inl h
      · subst h
        by_cases h0 : l = 0
        · exact Or.inr ⟨h0, rfl⟩
        · left; simp; omega
    rcases br_cases buffer data l hI' with ⟨hlt, hbr⟩ | ⟨hge, name, tail, hbr, hfl, happ, htl, htl'⟩
    · exact ⟨_, none, [], by simp only [decodeOnce, hbr]; rfl, by
        simp only [FullInv]; exact ⟨Or.inl (by simpa using hlt), hl, hT, hM, hs, hd⟩⟩
    · by_cases hV : validUtf8 name = true
      · exact ⟨_, none, tail, by simp only [decodeOnce, hbr, if_pos hV]; rfl, by
          show ((([] : Bytes).length < total - hdrNoLen - l ∨ ([] : Bytes) = []) ∧ total - hdrNoLen - l ≤ maxIn ∧ _ ∧ _); exact ⟨Or.inr rfl, by omega, hs, hd⟩⟩
      · exact ⟨_, none, tail, by simp only [decodeOnce, hbr, if_neg hV]; rfl, by simp [FullInv]⟩
  | payload n =>
    simp only [FullInv] at h
    obtain ⟨hI, hn, hs, hd⟩ := h
    obtain ⟨a, rfl⟩ := Option.isSome_iff_exists.1 hs
    obtain ⟨b, rfl⟩ := Option.isSome_iff_exists.1 hd
    by_cases hA : (buffer.isEmpty && decide (data.length ≥ n)) = true
    · exact ⟨_, some _, data.drop n, by simp only [decodeOnce, if_pos hA]; rfl, by simp [FullInv]⟩
    · by_cases hB : (buffer ++ data.take (min data.length (n - buffer.length))).length < n
      · exact ⟨_, none, _, by simp only [decodeOnce, if_neg hA, if_pos hB]; rfl, by
          simp only [FullInv]; exact ⟨Or.inl hB, hn, rfl, rfl⟩⟩
      · exact ⟨_, some _, _, by simp only [decodeOnce, if_neg hA, if_neg hB]; rfl, by simp [FullInv]⟩
  | dropping r =>
    simp only [FullInv] at h
    subst h
    refine ⟨_, none, _, by simp only [decodeOnce]; rfl, ?_⟩
    by_cases hr : r ≤ min r data.length
    · simp only [if_pos hr, FullInv]; simp
    · simp only [if_neg hr, FullInv]

theorem fullInv_buffer_bounded (d : Dec) (h : FullInv d) : d.buffer.length ≤ maxIn := by
  obtain ⟨st, total, buffer, src, dst, app⟩ := d
  have h37 : hdrNoLen = 37 := rfl
  have hmax : maxIn = 65471 := rfl
  cases st <;> simp only [FullInv] at h ⊢
  · omega
  · omega
  · rcases h.1 with h' | h'
    · omega
    · simp [h']
  · rcases h.1 with h' | h'
    · omega
    · simp [h']
  · simp [h]

end TT.Udp
