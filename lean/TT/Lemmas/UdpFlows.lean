import TT.Model.UdpFlows
namespace TT.UdpFlows
set_option linter.unusedSimpArgs false

/-! ## generic list facts -/

section ListFacts
variable {α : Type} {κ : Type} [DecidableEq κ]

theorem find?_filter_key_ne (key : α → κ) (l : List α) {m m' : κ} (h : m' ≠ m) :
    (l.filter (fun x => key x != m)).find? (fun x => key x == m') = l.find? (fun x => key x == m') := by
  induction l with
  | nil => rfl
  | cons a l ih =>
    by_cases h1 : key a = m
    · subst h1
      have : key a ≠ m' := fun e => h e.symm
      simp [List.filter_cons, this, ih]
    · by_cases h2 : key a = m'
      · subst h2
        simp [List.filter_cons, h1]
      · simp [List.filter_cons, h1, h2, ih]

theorem find?_filter_key_self (key : α → κ) (l : List α) (m : κ) :
    (l.filter (fun x => key x != m)).find? (fun x => key x == m) = none := by
  induction l with
  | nil => rfl
  | cons a l ih =>
    by_cases h1 : key a = m <;> simp [List.filter_cons, h1, ih]

theorem any_filter_key_self (key : α → κ) (l : List α) (m : κ) :
    (l.filter (fun x => key x != m)).any (fun x => key x == m) = false := by
  induction l with
  | nil => rfl
  | cons a l ih =>
    by_cases h1 : key a = m <;> simp [List.filter_cons, h1, ih]

/-- mapping with a key-preserving function that is the identity off key `m` -/
theorem find?_map_key_other (key : α → κ) (g : α → α) (l : List α) {m m' : κ} (h : m' ≠ m)
    (hk : ∀ x, key (g x) = key x) (hid : ∀ x, key x ≠ m → g x = x) :
    (l.map g).find? (fun x => key x == m') = l.find? (fun x => key x == m') := by
  induction l with
  | nil => rfl
  | cons a l ih =>
    by_cases h2 : key a = m'
    · have : g a = a := hid a (by rw [h2]; exact h)
      simp [h2, this]
    · simp [hk, h2, ih]

theorem find?_map_key_self (key : α → κ) (g : α → α) (l : List α) {m : κ} {e : α}
    (hk : ∀ x, key (g x) = key x) (he : l.find? (fun x => key x == m) = some e) :
    (l.map g).find? (fun x => key x == m) = some (g e) := by
  induction l with
  | nil => simp at he
  | cons a l ih =>
    by_cases h2 : key a = m
    · simp [h2] at he
      subst he
      simp [List.find?_cons, hk, h2]
    · simp [h2] at he
      simp [List.find?_cons, hk, h2, ih he]

theorem any_key_eq_find? (key : α → κ) (l : List α) (m : κ) :
    l.any (fun x => key x == m) = (l.find? (fun x => key x == m)).isSome := by
  induction l with
  | nil => rfl
  | cons a l ih =>
    by_cases h2 : key a = m <;> simp [h2, ih]

theorem any_key_eq_mem (key : α → κ) (l : List α) (m : κ) :
    l.any (fun x => key x == m) = true ↔ m ∈ l.map key := by
  simp only [List.any_eq_true, List.mem_map, beq_iff_eq]

theorem find?_key_of_mem_nodup (key : α → κ) (l : List α) (hn : (l.map key).Nodup) {e : α}
    (he : e ∈ l) : l.find? (fun x => key x == key e) = some e := by
  induction l with
  | nil => simp at he
  | cons a l ih =>
    simp only [List.map_cons, List.nodup_cons] at hn
    rcases List.mem_cons.1 he with rfl | h
    · simp
    · have : key a ≠ key e := fun h' => hn.1 (h' ▸ List.mem_map_of_mem h)
      simp [this, ih hn.2 h]

theorem find?_key_some (key : α → κ) {l : List α} {m : κ} {e : α}
    (h : l.find? (fun x => key x == m) = some e) : e ∈ l ∧ key e = m := by
  have h1 := List.mem_of_find?_eq_some h
  have h2 := List.find?_some h
  exact ⟨h1, by simpa using h2⟩

theorem filter_key_ne_length (key : α → κ) (l : List α) (hn : (l.map key).Nodup) {e : α}
    (he : e ∈ l) : (l.filter (fun x => key x != key e)).length + 1 = l.length := by
  induction l with
  | nil => simp at he
  | cons a l ih =>
    simp only [List.map_cons, List.nodup_cons] at hn
    rcases List.mem_cons.1 he with rfl | h
    · have : l.filter (fun x => key x != key e) = l := by
        apply List.filter_eq_self.2
        intro x hx
        have : key x ≠ key e := fun h' => hn.1 (h' ▸ List.mem_map_of_mem hx)
        simpa using this
      simp [List.filter_cons, this]
    · have : key a ≠ key e := fun h' => hn.1 (h' ▸ List.mem_map_of_mem h)
      simp [List.filter_cons, this, ih hn.2 h]

theorem eq_of_nodup_map (key : α → κ) {l : List α} (hn : (l.map key).Nodup) {a b : α}
    (ha : a ∈ l) (hb : b ∈ l) (h : key a = key b) : a = b := by
  have h1 := find?_key_of_mem_nodup key l hn ha
  have h2 := find?_key_of_mem_nodup key l hn hb
  rw [h, h2] at h1
  exact (Option.some.inj h1).symm

end ListFacts

/-! ## the invariant -/

structure Core (c : Cfg) (s : St) : Prop where
  keys : s.socks.map (·.key) = s.pipe.map (·.key)
  nodupK : (s.pipe.map (·.key)).Nodup
  nodupId : (s.socks.map (·.id)).Nodup
  sock : ∀ k ∈ s.socks, k.dest = k.key.dst ∧ k.id < s.nextId ∧ c.kind k.dest ≠ .unconn
  peerLt : ∀ p ∈ s.peers, p.2 < s.nextId
  peerKey : ∀ p ∈ s.peers, ∀ k ∈ s.socks, k.id = p.2 → k.key = p.1
  pend : ∀ e ∈ s.pipe, e.pending.isSome → c.kind e.key.dst = .dns
  tick : s.nextTick ≤ s.now + c.timeout / 4
  last : ∀ e ∈ s.pipe, e.last ≤ s.now
  fin : s.finished = true → s.pipe = [] ∧ s.socks = []

/-- every socket towards a listening destination is the one its server knows for the flow
(except possibly the flow `ex`, in the middle of `stepDg`) -/
def Known (c : Cfg) (s : St) (ex : Option Meta) : Prop :=
  ∀ k ∈ s.socks, some k.key ≠ ex → (c.kind k.dest = .live ∨ c.kind k.dest = .dns) →
    s.peers.find? (·.1 == k.key) = some (k.key, k.id)

structure Inv (c : Cfg) (s : St) : Prop where
  core : Core c s
  known : Known c s none

theorem Core.nodupSK {c s} (h : Core c s) : (s.socks.map (·.key)).Nodup := h.keys ▸ h.nodupK

theorem hasPipe_iff {s : St} {m : Meta} : hasPipe s m = true ↔ m ∈ s.pipe.map (·.key) :=
  any_key_eq_mem PipeEntry.key s.pipe m

theorem findSock_isSome_iff {s : St} {m : Meta} :
    (findSock s m).isSome = true ↔ m ∈ s.socks.map (·.key) := by
  unfold findSock
  rw [← any_key_eq_find? Sock.key s.socks m]
  exact any_key_eq_mem Sock.key s.socks m

theorem Core.coupled {c s} (h : Core c s) (m : Meta) : hasPipe s m = (findSock s m).isSome := by
  rw [Bool.eq_iff_iff, hasPipe_iff, findSock_isSome_iff, h.keys]

theorem findSock_some {s : St} {m : Meta} {k : Sock} (h : findSock s m = some k) :
    k ∈ s.socks ∧ k.key = m := find?_key_some Sock.key h

theorem pipeFind_some {s : St} {m : Meta} {e : PipeEntry} (h : s.pipe.find? (·.key == m) = some e) :
    e ∈ s.pipe ∧ e.key = m := find?_key_some PipeEntry.key h

/-! ### restriction of both tables to a set of keys -/

def keep (s : St) (q : Meta → Bool) : St :=
  { s with pipe := s.pipe.filter (fun e => q e.key), socks := s.socks.filter (fun k => q k.key) }

theorem remove_eq (s : St) (m : Meta) : removeSock (removePipe s m) m = keep s (· != m) := rfl

theorem Core.restrict {c s} (h : Core c s) (q : Meta → Bool) : Core c (keep s q) where
  keys := by
    show (s.socks.filter (q ∘ (·.key))).map (·.key) = (s.pipe.filter (q ∘ (·.key))).map (·.key)
    rw [← List.filter_map, ← List.filter_map, h.keys]
  nodupK := (List.filter_sublist.map _).nodup h.nodupK
  nodupId := (List.filter_sublist.map _).nodup h.nodupId
  sock := fun k hk => h.sock k ((List.mem_filter.1 hk).1)
  peerLt := h.peerLt
  peerKey := fun p hp k hk => h.peerKey p hp k ((List.mem_filter.1 hk).1)
  pend := fun e he => h.pend e ((List.mem_filter.1 he).1)
  tick := h.tick
  last := fun e he => h.last e ((List.mem_filter.1 he).1)
  fin := fun hf => by
    have := h.fin hf
    simp [keep, this.1, this.2]

theorem Known.restrict {c s ex} (h : Known c s ex) (q : Meta → Bool) : Known c (keep s q) ex :=
  fun k hk => h k ((List.mem_filter.1 hk).1)

theorem Known.weaken {c s ex} (h : Known c s none) : Known c s ex :=
  fun k hk _ => h k hk (by simp)

theorem Inv.restrict {c s} (h : Inv c s) (q : Meta → Bool) : Inv c (keep s q) :=
  ⟨h.core.restrict q, h.known.restrict q⟩

/-! ### mapping the tables with functions that keep the identifying fields -/

theorem Core.mapSocks {c s} (h : Core c s) (g : Sock → Sock)
    (hg : ∀ x, (g x).key = x.key ∧ (g x).id = x.id ∧ (g x).dest = x.dest) :
    Core c { s with socks := s.socks.map g } where
  keys := by
    have : (fun x : Sock => x.key) ∘ g = (fun x => x.key) := funext fun x => (hg x).1
    simp only [List.map_map, this]; exact h.keys
  nodupK := h.nodupK
  nodupId := by
    have : (fun x : Sock => x.id) ∘ g = (fun x => x.id) := funext fun x => (hg x).2.1
    simp only [List.map_map, this]; exact h.nodupId
  sock := fun k hk => by
    obtain ⟨k0, hk0, rfl⟩ := List.mem_map.1 hk
    have := h.sock k0 hk0
    rw [(hg k0).1, (hg k0).2.1, (hg k0).2.2]; exact this
  peerLt := h.peerLt
  peerKey := fun p hp k hk => by
    obtain ⟨k0, hk0, rfl⟩ := List.mem_map.1 hk
    have := h.peerKey p hp k0 hk0
    rw [(hg k0).1, (hg k0).2.1]; exact this
  pend := h.pend
  tick := h.tick
  last := h.last
  fin := fun hf => by
    have := h.fin hf
    simp [this.1, this.2]

theorem Known.mapSocks {c s ex} (h : Known c s ex) (g : Sock → Sock)
    (hg : ∀ x, (g x).key = x.key ∧ (g x).id = x.id ∧ (g x).dest = x.dest) :
    Known c { s with socks := s.socks.map g } ex := fun k hk => by
  obtain ⟨k0, hk0, rfl⟩ := List.mem_map.1 hk
  have := h k0 hk0
  rw [(hg k0).1, (hg k0).2.1, (hg k0).2.2]; exact this

theorem Core.mapPipe {c s} (h : Core c s) (g : PipeEntry → PipeEntry)
    (hg : ∀ x ∈ s.pipe, (g x).key = x.key ∧ (g x).last ≤ s.now ∧
      ((g x).pending.isSome → c.kind x.key.dst = .dns)) :
    Core c { s with pipe := s.pipe.map g } where
  keys := by
    have : s.pipe.map ((fun x : PipeEntry => x.key) ∘ g) = s.pipe.map (fun x => x.key) :=
      List.map_congr_left fun x hx => (hg x hx).1
    simp only [List.map_map, this]; exact h.keys
  nodupK := by
    have : s.pipe.map ((fun x : PipeEntry => x.key) ∘ g) = s.pipe.map (fun x => x.key) :=
      List.map_congr_left fun x hx => (hg x hx).1
    simp only [List.map_map, this]; exact h.nodupK
  nodupId := h.nodupId
  sock := h.sock
  peerLt := h.peerLt
  peerKey := h.peerKey
  pend := fun e he => by
    obtain ⟨e0, he0, rfl⟩ := List.mem_map.1 he
    rw [(hg e0 he0).1]; exact (hg e0 he0).2.2
  tick := h.tick
  last := fun e he => by
    obtain ⟨e0, he0, rfl⟩ := List.mem_map.1 he
    exact (hg e0 he0).2.1
  fin := fun hf => by
    have := h.fin hf
    simp [this.1, this.2]

/-! ### field updates that the invariant does not look at, or only monotonically -/

theorem Core.setUp {c s} (h : Core c s) (u : Nat) : Core c { s with up := u } :=
  ⟨h.keys, h.nodupK, h.nodupId, h.sock, h.peerLt, h.peerKey, h.pend, h.tick, h.last, h.fin⟩

theorem Core.setDown {c s} (h : Core c s) (d : Nat) : Core c { s with down := d } :=
  ⟨h.keys, h.nodupK, h.nodupId, h.sock, h.peerLt, h.peerKey, h.pend, h.tick, h.last, h.fin⟩

theorem Inv.setDown {c s} (h : Inv c s) (d : Nat) : Inv c { s with down := d } :=
  ⟨h.core.setDown d, h.known⟩

theorem Core.setTick {c s} (h : Core c s) (t : Nat) (ht : t ≤ s.now + c.timeout / 4) :
    Core c { s with nextTick := t } :=
  ⟨h.keys, h.nodupK, h.nodupId, h.sock, h.peerLt, h.peerKey, h.pend, ht, h.last, h.fin⟩

theorem Core.setNow {c s} (h : Core c s) (t : Nat) (ht : s.now ≤ t) : Core c { s with now := t } :=
  ⟨h.keys, h.nodupK, h.nodupId, h.sock, h.peerLt, h.peerKey, h.pend,
    Nat.le_trans h.tick (Nat.add_le_add_right ht _), fun e he => Nat.le_trans (h.last e he) ht, h.fin⟩

/-! ### `setPeer` -/

theorem find?_setPeer_self (ps : List (Meta × Nat)) (m : Meta) (id : Nat) :
    (setPeer ps m id).find? (·.1 == m) = some (m, id) := by
  simp [setPeer]

theorem find?_setPeer_other (ps : List (Meta × Nat)) {m m' : Meta} (h : m' ≠ m) (id : Nat) :
    (setPeer ps m id).find? (·.1 == m') = ps.find? (·.1 == m') := by
  unfold setPeer
  rw [List.find?_cons_of_neg (by simpa using fun e => h e.symm)]
  exact find?_filter_key_ne Prod.fst ps h

theorem setPeer_inv {c s m k} (hc : Core c s) (hk : Known c s (some m)) (hs : findSock s m = some k)
    (u : Nat) : Inv c { s with up := u, peers := setPeer s.peers m k.id } := by
  obtain ⟨hkm, hkk⟩ := findSock_some hs
  refine ⟨⟨hc.keys, hc.nodupK, hc.nodupId, hc.sock, ?_, ?_, hc.pend, hc.tick, hc.last, hc.fin⟩, ?_⟩
  · intro p hp
    rcases List.mem_cons.1 hp with rfl | hp
    · exact (hc.sock k hkm).2.1
    · exact hc.peerLt p (List.mem_filter.1 hp).1
  · intro p hp k' hk' hid
    rcases List.mem_cons.1 hp with rfl | hp
    · have : k' = k := eq_of_nodup_map Sock.id hc.nodupId hk' hkm hid
      rw [this]; exact hkk
    · exact hc.peerKey p (List.mem_filter.1 hp).1 k' hk' hid
  · intro k' hk' _ hkind
    by_cases hkey : k'.key = m
    · have : k' = k := eq_of_nodup_map Sock.key hc.nodupSK hk' hkm (hkey.trans hkk.symm)
      subst this
      show (setPeer s.peers m k'.id).find? (·.1 == k'.key) = _
      rw [hkey]; exact find?_setPeer_self _ _ _
    · show (setPeer s.peers m k.id).find? (·.1 == k'.key) = _
      rw [find?_setPeer_other _ hkey]
      exact hk k' hk' (by simpa using hkey) hkind

theorem Known.of_except {c s m} (h : Known c s (some m))
    (hm : ∀ k ∈ s.socks, k.key = m → ¬(c.kind k.dest = .live ∨ c.kind k.dest = .dns)) :
    Known c s none := fun k hk _ hkind => by
  by_cases hkm : k.key = m
  · exact absurd hkind (hm k hk hkm)
  · exact h k hk (by simpa using hkm) hkind

theorem Known.restrict_ne {c s m} (h : Known c s (some m)) :
    Known c (keep s (· != m)) none := fun k hk _ hkind => by
  have := List.mem_filter.1 hk
  exact h k this.1 (by simpa using this.2) hkind

/-! ### `sinkWrite` -/

theorem sinkWrite_inv {c s m len} (hc : Core c s) (hk : Known c s (some m)) :
    Inv c (sinkWrite c s m len).1 := by
  unfold sinkWrite
  split
  · dsimp only; rw [remove_eq]; exact ⟨hc.restrict _, hk.restrict_ne⟩
  · next k hs =>
    obtain ⟨hkm, hkk⟩ := findSock_some hs
    split
    · dsimp only; rw [remove_eq]; exact ⟨hc.restrict _, hk.restrict_ne⟩
    · have hone : ∀ k' ∈ s.socks, k'.key = m → k' = k := fun k' hk' h' =>
        eq_of_nodup_map Sock.key hc.nodupSK hk' hkm (h'.trans hkk.symm)
      split
      · exact setPeer_inv hc hk hs _
      · exact setPeer_inv hc hk hs _
      · next hkind =>
        dsimp only
        refine ⟨(hc.setUp (s.up + len)).mapSocks
          (fun x => if x.key == m then { x with poisoned := true } else x) ?_, ?_⟩
        · intro x; split <;> simp
        · apply Known.of_except
          · apply Known.mapSocks (s := { s with up := s.up + len }) hk
            intro x; split <;> simp
          · intro k' hk' h'
            obtain ⟨k0, hk0, rfl⟩ := List.mem_map.1 hk'
            have e : (if k0.key == m then { k0 with poisoned := true } else k0).dest = k0.dest := by
              split <;> rfl
            have e2 : (if k0.key == m then { k0 with poisoned := true } else k0).key = k0.key := by
              split <;> rfl
            rw [e]; rw [e2] at h'
            rw [hone k0 hk0 h', hkind]; simp
      · next hkind =>
        dsimp only
        refine ⟨hc.setUp _, Known.of_except (s := { s with up := s.up + len }) hk ?_⟩
        intro k' hk' h'
        rw [hone k' hk' h', hkind]; simp

/-! ### `stepDg` -/

theorem touchOut_key (now : Nat) (e : PipeEntry) : (touchOut now e).key = e.key := rfl
theorem touchOut_last (now : Nat) (e : PipeEntry) : (touchOut now e).last = now := rfl
theorem touchOut_pending (now : Nat) (e : PipeEntry) :
    (touchOut now e).pending = e.pending.map (· + 1) := rfl

theorem Core.touch {c s} (h : Core c s) (m : Meta) :
    Core c { s with pipe := s.pipe.map fun e => if e.key == m then touchOut s.now e else e } := by
  apply h.mapPipe
  intro x hx
  split
  · refine ⟨rfl, Nat.le_refl _, fun hp => h.pend x hx ?_⟩
    simpa [touchOut_pending] using hp
  · exact ⟨rfl, h.last x hx, h.pend x hx⟩

theorem Core.insert {c s} (h : Core c s) (hf : s.finished = false) (m : Meta) (hn : hasPipe s m = false)
    (hu : c.kind m.dst ≠ .unconn) (e : PipeEntry) (hek : e.key = m) (hel : e.last ≤ s.now)
    (hep : e.pending.isSome → c.kind m.dst = .dns) :
    Core c { s with pipe := e :: s.pipe,
                    socks := { key := m, id := s.nextId, dest := m.dst, poisoned := false } :: s.socks,
                    nextId := s.nextId + 1 } where
  keys := by simp [hek, h.keys]
  nodupK := by
    have : m ∉ s.pipe.map (·.key) := fun hm => by simp [hasPipe_iff.2 hm] at hn
    simp only [List.map_cons, List.nodup_cons, hek]
    exact ⟨this, h.nodupK⟩
  nodupId := by
    simp only [List.map_cons, List.nodup_cons]
    refine ⟨fun hm => ?_, h.nodupId⟩
    obtain ⟨k, hk, hid⟩ := List.mem_map.1 hm
    have := (h.sock k hk).2.1
    omega
  sock := fun k hk => by
    rcases List.mem_cons.1 hk with rfl | hk
    · exact ⟨rfl, Nat.lt_succ_self _, hu⟩
    · have := h.sock k hk
      exact ⟨this.1, Nat.lt_succ_of_lt this.2.1, this.2.2⟩
  peerLt := fun p hp => Nat.lt_succ_of_lt (h.peerLt p hp)
  peerKey := fun p hp k hk hid => by
    rcases List.mem_cons.1 hk with rfl | hk
    · have := h.peerLt p hp
      simp only at hid; omega
    · exact h.peerKey p hp k hk hid
  pend := fun e' he' hp => by
    rcases List.mem_cons.1 he' with rfl | he'
    · rw [hek]; exact hep hp
    · exact h.pend e' he' hp
  tick := h.tick
  last := fun e' he' => by
    rcases List.mem_cons.1 he' with rfl | he'
    · exact hel
    · exact h.last e' he'
  fin := fun hf' => by simp [hf] at hf'

theorem Known.insert {c s} (h : Known c s none) (m : Meta) (e : PipeEntry) (sk : Sock) (hsk : sk.key = m)
    (n : Nat) : Known c { s with pipe := e :: s.pipe, socks := sk :: s.socks, nextId := n } (some m) :=
  fun k hk hne hkind => by
    rcases List.mem_cons.1 hk with rfl | hk
    · simp [hsk] at hne
    · exact h k hk (by simp) hkind

theorem stepDg_inv {c s m len} (h : Inv c s) (hf : s.finished = false) :
    Inv c (stepDg c s m len).1 := by
  unfold stepDg
  split
  · exact sinkWrite_inv (h.core.touch m) h.known.weaken
  · next hn =>
    have hn : hasPipe s m = false := by simpa using hn
    split
    · exact h
    · split
      · exact h
      · next hu =>
        apply sinkWrite_inv
        · apply h.core.insert hf m hn (by simpa using hu) _ rfl (Nat.le_refl _)
          intro hp
          by_cases hd : c.kind m.dst = .dns
          · exact hd
          · simp [touchOut_pending, hd] at hp
        · exact h.known.insert m _ _ rfl _

/-! ### `stepReply` -/

/-- the part of `stepReply` after the reply has found an open socket of a listening server -/
def replyCore (s : St) (k : Sock) (m : Meta) (len : Nat) : St × Obs :=
  let s := { s with down := s.down + len }
  let obs : Obs := { cli := [(k.key, m, len)] }
  match s.pipe.find? (·.key == k.key) with
  | none => (s, obs)
  | some e =>
    let (e', done) := touchIn s.now e
    if done then
      (removeSock (removePipe s k.key) k.key, obs)
    else
      ({ s with pipe := s.pipe.map fun x => if x.key == k.key then e' else x }, obs)

theorem stepReply_cases (c : Cfg) (s : St) (m : Meta) (len : Nat) :
    stepReply c s m len = (s, {}) ∨
    ∃ p k, s.peers.find? (·.1 == m) = some p ∧ s.socks.find? (·.id == p.2) = some k ∧
      (c.kind k.dest = .live ∨ c.kind k.dest = .dns) ∧ stepReply c s m len = replyCore s k m len := by
  unfold stepReply
  split
  · exact .inl rfl
  · next m' id hp =>
    split
    · exact .inl rfl
    · next k hk =>
      split
      · next hkind => exact .inr ⟨_, k, hp, hk, .inl hkind, rfl⟩
      · next hkind => exact .inr ⟨_, k, hp, hk, .inr hkind, rfl⟩
      · exact .inl rfl

theorem reply_sock_key {c s m} (h : Inv c s) {p : Meta × Nat} {k : Sock}
    (hp : s.peers.find? (·.1 == m) = some p) (hk : s.socks.find? (·.id == p.2) = some k) :
    k ∈ s.socks ∧ k.key = m := by
  obtain ⟨hp1, hp2⟩ := find?_key_some Prod.fst hp
  obtain ⟨hk1, hk2⟩ := find?_key_some Sock.id hk
  exact ⟨hk1, (h.core.peerKey p hp1 k hk1 hk2).trans hp2⟩

theorem stepReply_live {c s m k} (h : Inv c s) (hs : findSock s m = some k)
    (hkind : c.kind k.dest = .live ∨ c.kind k.dest = .dns) (len : Nat) :
    stepReply c s m len = replyCore s k m len := by
  obtain ⟨hkm, hkk⟩ := findSock_some hs
  have hp := h.known k hkm (by simp) hkind
  rw [hkk] at hp
  have hk : s.socks.find? (·.id == k.id) = some k := find?_key_of_mem_nodup Sock.id _ h.core.nodupId hkm
  unfold stepReply
  rw [hp]; simp only []; rw [hk]; simp only []
  rcases hkind with h' | h' <;> rw [h'] <;> rfl

theorem touchIn_key (now : Nat) (e : PipeEntry) : (touchIn now e).1.key = e.key := by
  unfold touchIn; split <;> rfl
theorem touchIn_last (now : Nat) (e : PipeEntry) : (touchIn now e).1.last = now := by
  unfold touchIn; split <;> rfl
theorem touchIn_pending (now : Nat) (e : PipeEntry) :
    (touchIn now e).1.pending.isSome → e.pending.isSome := by
  unfold touchIn; split <;> simp_all

theorem replyCore_inv {c s k m len} (h : Inv c s) : Inv c (replyCore s k m len).1 := by
  unfold replyCore
  simp only []
  split
  · exact h.setDown _
  · next e he =>
    obtain ⟨he1, he2⟩ := pipeFind_some (s := s) he
    split
    · dsimp only; rw [remove_eq]; exact (h.setDown _).restrict _
    · dsimp only
      refine ⟨(h.core.setDown (s.down + len)).mapPipe
        (fun x => if x.key == k.key then (touchIn s.now e).1 else x) ?_, h.known⟩
      intro x hx
      split
      · next hxk =>
        have hxk : x.key = k.key := by simpa using hxk
        refine ⟨by rw [touchIn_key, he2, hxk], by rw [touchIn_last]; exact Nat.le_refl _, fun hp => ?_⟩
        rw [hxk, ← he2]
        exact h.core.pend e he1 (touchIn_pending _ _ hp)
      · exact ⟨rfl, h.core.last x hx, h.core.pend x hx⟩

theorem stepReply_inv {c s m len} (h : Inv c s) : Inv c (stepReply c s m len).1 := by
  rcases stepReply_cases c s m len with e | ⟨p, k, _, _, _, e⟩
  · rw [e]; exact h
  · rw [e]; exact replyCore_inv h

/-! ### `stepAdv` -/

theorem Inv.keep_setTick {c s} (h : Inv c s) (q : Meta → Bool) (t : Nat)
    (ht : t ≤ s.now + c.timeout / 4) : Inv c { keep s q with nextTick := t } :=
  ⟨(h.core.restrict q).setTick t ht, h.known.restrict q⟩


theorem expire_eq {c s} (hn : (s.pipe.map (·.key)).Nodup) :
    expire c s = keep s (fun key =>
      !((s.pipe.filter fun e => e.last + c.timeout < s.now).map (·.key)).contains key) := by
  unfold expire keep
  dsimp only
  congr 1
  apply List.filter_congr
  intro e he
  congr 1
  rw [Bool.eq_iff_iff]
  simp only [decide_eq_true_eq, List.contains_iff_mem, List.mem_map, List.mem_filter]
  constructor
  · intro hx; exact ⟨e, ⟨he, hx⟩, rfl⟩
  · rintro ⟨e', ⟨he', hx⟩, hk⟩
    rw [← eq_of_nodup_map PipeEntry.key hn he' he hk]; exact hx

theorem stepAdv_inv {c s ms} (h : Inv c s) : Inv c (stepAdv c s ms) := by
  unfold stepAdv
  have h1 : Inv c { s with now := s.now + ms } := ⟨h.core.setNow _ (Nat.le_add_right _ _), h.known⟩
  simp only []
  split
  · rw [expire_eq h1.core.nodupK]
    exact h1.keep_setTick _ _ (Nat.le_refl _)
  · exact h1

/-! ### `step`, `run` -/

theorem inv_init (c : Cfg) : Inv c (init c) := by
  refine ⟨⟨rfl, List.nodup_nil, List.nodup_nil, ?_, ?_, ?_, ?_, ?_, ?_, ?_⟩, ?_⟩ <;>
    simp [init, Known]

theorem step_inv {c s} (h : Inv c s) (op : Op) : Inv c (step c s op).1 := by
  unfold step
  split
  · exact h
  · next hf =>
    have hf : s.finished = false := by simpa using hf
    cases op with
    | dg m len => exact stepDg_inv h hf
    | reply m len => exact stepReply_inv h
    | adv ms => exact stepAdv_inv h
    | close =>
      refine ⟨⟨rfl, List.nodup_nil, List.nodup_nil, ?_, h.core.peerLt, ?_, ?_, h.core.tick, ?_, ?_⟩, ?_⟩ <;>
        simp [Known]

theorem run_inv {c s} (h : Inv c s) (ops : List Op) : Inv c (run c s ops).1 := by
  induction ops generalizing s with
  | nil => exact h
  | cons op ops ih => exact ih (step_inv h op)

theorem run_append_fst (c : Cfg) (s : St) (a b : List Op) :
    (run c s (a ++ b)).1 = (run c (run c s a).1 b).1 := by
  induction a generalizing s with
  | nil => rfl
  | cons op a ih => exact ih _

theorem run_append_snd (c : Cfg) (s : St) (a b : List Op) :
    (run c s (a ++ b)).2 = (run c s a).2 ++ (run c (run c s a).1 b).2 := by
  induction a generalizing s with
  | nil => rfl
  | cons op a ih => simp [run, ih]

theorem run_snoc_fst (c : Cfg) (s : St) (a : List Op) (op : Op) :
    (run c s (a ++ [op])).1 = (step c (run c s a).1 op).1 := by
  rw [run_append_fst]; rfl

theorem runFrom_inv (c : Cfg) (ops : List Op) : Inv c (runFrom c ops).1 := run_inv (inv_init c) ops

theorem Inv.not_finished_of_pipe {c s} (h : Inv c s) {e : PipeEntry} (he : e ∈ s.pipe) :
    s.finished = false := by
  cases hf : s.finished with
  | false => rfl
  | true => rw [(h.core.fin hf).1] at he; simp at he

theorem Inv.not_finished_of_sock {c s} (h : Inv c s) {k : Sock} (hk : k ∈ s.socks) :
    s.finished = false := by
  cases hf : s.finished with
  | false => rfl
  | true => rw [(h.core.fin hf).2] at hk; simp at hk

theorem step_of_not_finished {c s} (hf : s.finished = false) (op : Op) :
    step c s op = match op with
      | .dg m len => stepDg c s m len
      | .reply m len => stepReply c s m len
      | .adv ms => (stepAdv c s ms, {})
      | .close => ({ s with finished := true, pipe := [], socks := [] }, {}) := by
  unfold step
  rw [if_neg (by simp [hf])]
  cases op <;> rfl

theorem step_of_finished {c s} (hf : s.finished = true) (op : Op) : step c s op = (s, {}) := by
  simp [step, hf]

/-! ## frame: what the operations leave alone -/

structure Frame (s' s : St) : Prop where
  now : s'.now = s.now
  nextTick : s'.nextTick = s.nextTick
  finished : s'.finished = s.finished

theorem Frame.rfl' (s : St) : Frame s s := ⟨rfl, rfl, rfl⟩

theorem sinkWrite_frame (c : Cfg) (s : St) (m : Meta) (len : Nat) :
    Frame (sinkWrite c s m len).1 s ∧ (sinkWrite c s m len).1.down = s.down ∧
      (sinkWrite c s m len).2.cli = [] := by
  unfold sinkWrite
  split
  · exact ⟨⟨rfl, rfl, rfl⟩, rfl, rfl⟩
  · split
    · exact ⟨⟨rfl, rfl, rfl⟩, rfl, rfl⟩
    · split <;> exact ⟨⟨rfl, rfl, rfl⟩, rfl, rfl⟩

theorem sinkWrite_frame' (c : Cfg) (s s0 : St) (m : Meta) (len : Nat) (h0 : Frame s s0)
    (hd : s.down = s0.down) :
    Frame (sinkWrite c s m len).1 s0 ∧ (sinkWrite c s m len).1.down = s0.down ∧
      (sinkWrite c s m len).2.cli = [] := by
  obtain ⟨f, d, cl⟩ := sinkWrite_frame c s m len
  exact ⟨⟨f.now.trans h0.now, f.nextTick.trans h0.nextTick, f.finished.trans h0.finished⟩,
    d.trans hd, cl⟩

theorem stepDg_frame (c : Cfg) (s : St) (m : Meta) (len : Nat) :
    Frame (stepDg c s m len).1 s ∧ (stepDg c s m len).1.down = s.down ∧
      (stepDg c s m len).2.cli = [] := by
  unfold stepDg
  split
  · exact sinkWrite_frame' c _ s m len ⟨rfl, rfl, rfl⟩ rfl
  · split
    · exact ⟨⟨rfl, rfl, rfl⟩, rfl, rfl⟩
    · split
      · exact ⟨⟨rfl, rfl, rfl⟩, rfl, rfl⟩
      · exact sinkWrite_frame' c _ s m len ⟨rfl, rfl, rfl⟩ rfl

theorem replyCore_frame (s : St) (k : Sock) (m : Meta) (len : Nat) :
    Frame (replyCore s k m len).1 s ∧ (replyCore s k m len).1.down = s.down + len ∧
      (replyCore s k m len).2 = { cli := [(k.key, m, len)] } := by
  unfold replyCore
  simp only []
  split
  · exact ⟨⟨rfl, rfl, rfl⟩, rfl, rfl⟩
  · split <;> exact ⟨⟨rfl, rfl, rfl⟩, rfl, rfl⟩

theorem stepReply_frame (c : Cfg) (s : St) (m : Meta) (len : Nat) :
    Frame (stepReply c s m len).1 s := by
  rcases stepReply_cases c s m len with e | ⟨p, k, _, _, _, e⟩
  · rw [e]; exact ⟨rfl, rfl, rfl⟩
  · rw [e]; exact (replyCore_frame s k m len).1

theorem stepAdv_finished (c : Cfg) (s : St) (ms : Nat) : (stepAdv c s ms).finished = s.finished := by
  unfold stepAdv; simp only []; split <;> rfl

theorem step_finished (c : Cfg) (s : St) {op : Op} (h : op ≠ .close) :
    (step c s op).1.finished = s.finished := by
  cases hf : s.finished with
  | true => rw [step_of_finished hf, hf]
  | false =>
    rw [step_of_not_finished hf, ← hf]
    cases op with
    | dg m len => exact (stepDg_frame c s m len).1.finished
    | reply m len => exact (stepReply_frame c s m len).finished
    | adv ms => exact stepAdv_finished c s ms
    | close => exact absurd rfl h

theorem run_not_finished (c : Cfg) (s : St) (ops : List Op) (hs : s.finished = false)
    (h : ∀ op ∈ ops, op ≠ .close) : (run c s ops).1.finished = false := by
  induction ops generalizing s with
  | nil => exact hs
  | cons op ops ih =>
    apply ih (step c s op).1
    · rw [step_finished c s (h op (List.mem_cons_self ..))]; exact hs
    · exact fun o ho => h o (List.mem_cons_of_mem _ ho)

/-! ## observations -/

theorem sinkWrite_srv {c s m len} (hd : ∀ k ∈ s.socks, k.dest = k.key.dst) :
    (sinkWrite c s m len).2.srv = [] ∨ (sinkWrite c s m len).2.srv = [(m.dst, m, len)] := by
  unfold sinkWrite
  split
  · exact .inl rfl
  · next k hs =>
    obtain ⟨hkm, hkk⟩ := findSock_some hs
    have : k.dest = m.dst := by rw [hd k hkm, hkk]
    split
    · exact .inl rfl
    · split
      · right; rw [← this]
      · right; rw [← this]
      · exact .inl rfl
      · exact .inl rfl

theorem stepDg_srv {c s m len} (hd : ∀ k ∈ s.socks, k.dest = k.key.dst) :
    (stepDg c s m len).2.srv = [] ∨ (stepDg c s m len).2.srv = [(m.dst, m, len)] := by
  unfold stepDg
  split
  · exact sinkWrite_srv hd
  · split
    · exact .inl rfl
    · split
      · exact .inl rfl
      · apply sinkWrite_srv
        intro k hk
        rcases List.mem_cons.1 hk with rfl | hk
        · rfl
        · exact hd k hk

theorem step_dg_obs {c s} (h : Inv c s) (m : Meta) (len : Nat) :
    ((step c s (.dg m len)).2.srv = [] ∨ (step c s (.dg m len)).2.srv = [(m.dst, m, len)]) ∧
      (step c s (.dg m len)).2.cli = [] := by
  cases hf : s.finished with
  | true => rw [step_of_finished hf]; exact ⟨.inl rfl, rfl⟩
  | false =>
    rw [step_of_not_finished hf]
    exact ⟨stepDg_srv fun k hk => (h.core.sock k hk).1, (stepDg_frame c s m len).2.2⟩

theorem step_reply_obs {c s} (h : Inv c s) (m : Meta) (len : Nat) :
    (step c s (.reply m len)).2 = {} ∨ (step c s (.reply m len)).2 = { cli := [(m, m, len)] } := by
  cases hf : s.finished with
  | true => rw [step_of_finished hf]; exact .inl rfl
  | false =>
    rw [step_of_not_finished hf]
    rcases stepReply_cases c s m len with e | ⟨p, k, hp, hk, _, e⟩
    · simp only []; rw [e]; exact .inl rfl
    · simp only []; rw [e, (replyCore_frame s k m len).2.2, (reply_sock_key h hp hk).2]; exact .inr rfl

theorem step_obs {c s} (h : Inv c s) (op : Op) :
    (∀ x ∈ (step c s op).2.srv, x.1 = x.2.1.dst) ∧ (∀ x ∈ (step c s op).2.cli, x.1 = x.2.1) := by
  cases op with
  | dg m len =>
    obtain ⟨h1, h2⟩ := step_dg_obs h m len
    rw [h2]
    rcases h1 with h1 | h1 <;> rw [h1] <;> simp
  | reply m len =>
    rcases step_reply_obs h m len with h1 | h1 <;> rw [h1] <;> simp
  | adv ms =>
    cases hf : s.finished with
    | true => rw [step_of_finished hf]; simp
    | false => rw [step_of_not_finished hf]; simp
  | close =>
    cases hf : s.finished with
    | true => rw [step_of_finished hf]; simp
    | false => rw [step_of_not_finished hf]; simp

theorem run_obs_forall {c : Cfg} {P : Obs → Prop} (hP : ∀ s op, Inv c s → P (step c s op).2)
    {s : St} (h : Inv c s) (ops : List Op) : ∀ o ∈ (run c s ops).2, P o := by
  induction ops generalizing s with
  | nil => intro o ho; simp [run] at ho
  | cons op ops ih =>
    intro o ho
    simp only [run, List.mem_cons] at ho
    rcases ho with rfl | ho
    · exact hP s op h
    · exact ih (step_inv h op) o ho

/-! ## byte counts -/

theorem step_down (c : Cfg) (s : St) (op : Op) :
    (step c s op).1.down = s.down + ((step c s op).2.cli.map (·.2.2)).sum := by
  cases hf : s.finished with
  | true => rw [step_of_finished hf]; simp
  | false =>
    rw [step_of_not_finished hf]
    cases op with
    | dg m len =>
      simp only []
      rw [(stepDg_frame c s m len).2.1, (stepDg_frame c s m len).2.2]; simp
    | reply m len =>
      simp only []
      rcases stepReply_cases c s m len with e | ⟨p, k, _, _, _, e⟩
      · rw [e]; simp
      · rw [e, (replyCore_frame s k m len).2.1, (replyCore_frame s k m len).2.2]; simp
    | adv ms => simp [stepAdv]; split <;> rfl
    | close => simp

theorem run_down (c : Cfg) (s : St) (ops : List Op) :
    (run c s ops).1.down = s.down + ((run c s ops).2.map fun o => (o.cli.map (·.2.2)).sum).sum := by
  induction ops generalizing s with
  | nil => simp [run]
  | cons op ops ih =>
    simp only [run, List.map_cons, List.sum_cons]
    rw [ih, step_down]; omega

/-! ## operations on one flow leave the others alone -/

/-- flow `m'` looks the same in both states -/
def Same (s' s : St) (m' : Meta) : Prop :=
  s'.pipe.find? (·.key == m') = s.pipe.find? (·.key == m') ∧ findSock s' m' = findSock s m'

theorem Same.trans {a b d : St} {m : Meta} (h1 : Same a b m) (h2 : Same b d m) : Same a d m :=
  ⟨h1.1.trans h2.1, h1.2.trans h2.2⟩

theorem remove_same (s : St) {m m' : Meta} (hne : m' ≠ m) :
    Same (removeSock (removePipe s m) m) s m' :=
  ⟨find?_filter_key_ne PipeEntry.key s.pipe hne, find?_filter_key_ne Sock.key s.socks hne⟩

theorem sinkWrite_other (c : Cfg) (s : St) {m m' : Meta} (len : Nat) (hne : m' ≠ m) :
    Same (sinkWrite c s m len).1 s m' := by
  unfold sinkWrite
  split
  · exact remove_same s hne
  · split
    · exact remove_same s hne
    · split
      · exact ⟨rfl, rfl⟩
      · exact ⟨rfl, rfl⟩
      · refine ⟨rfl, ?_⟩
        apply find?_map_key_other Sock.key _ s.socks hne
        · intro x; split <;> rfl
        · intro x hx
          have : ¬ x.key = m := hx
          simp [this]
      · exact ⟨rfl, rfl⟩

theorem stepDg_other (c : Cfg) (s : St) {m m' : Meta} (len : Nat) (hne : m' ≠ m) :
    Same (stepDg c s m len).1 s m' := by
  unfold stepDg
  split
  · refine (sinkWrite_other c _ len hne).trans ⟨?_, rfl⟩
    apply find?_map_key_other PipeEntry.key _ s.pipe hne
    · intro x; split <;> rfl
    · intro x hx
      have : ¬ x.key = m := hx
      simp [this]
  · split
    · exact ⟨rfl, rfl⟩
    · split
      · exact ⟨rfl, rfl⟩
      · refine (sinkWrite_other c _ len hne).trans ⟨?_, ?_⟩
        · exact List.find?_cons_of_neg (by simpa [touchOut_key] using fun e => hne e.symm)
        · exact List.find?_cons_of_neg (by simpa using fun e => hne e.symm)

theorem replyCore_other (s : St) (k : Sock) {m m' : Meta} (len : Nat) (hk : k.key = m) (hne : m' ≠ m) :
    Same (replyCore s k m len).1 s m' := by
  subst hk
  unfold replyCore
  simp only []
  split
  · exact ⟨rfl, rfl⟩
  · next e he =>
    split
    · exact remove_same { s with down := s.down + len } hne
    · refine ⟨?_, rfl⟩
      have hek := (pipeFind_some (s := s) he).2
      apply find?_map_key_other PipeEntry.key _ s.pipe hne
      · intro x; split
        · next hx => rw [touchIn_key, hek]; exact (by simpa using hx : x.key = k.key).symm
        · rfl
      · intro x hx
        have : ¬ x.key = k.key := hx
        simp [this]

theorem step_dg_other {c s} (m : Meta) (len : Nat) {m' : Meta} (hne : m' ≠ m) :
    Same (step c s (.dg m len)).1 s m' := by
  cases hf : s.finished with
  | true => rw [step_of_finished hf]; exact ⟨rfl, rfl⟩
  | false => rw [step_of_not_finished hf]; exact stepDg_other c s len hne

theorem step_reply_other {c s} (h : Inv c s) (m : Meta) (len : Nat) {m' : Meta} (hne : m' ≠ m) :
    Same (step c s (.reply m len)).1 s m' := by
  cases hf : s.finished with
  | true => rw [step_of_finished hf]; exact ⟨rfl, rfl⟩
  | false =>
    rw [step_of_not_finished hf]
    simp only []
    rcases stepReply_cases c s m len with e | ⟨p, k, hp, hk, _, e⟩
    · rw [e]; exact ⟨rfl, rfl⟩
    · rw [e]; exact replyCore_other s k len (reply_sock_key h hp hk).2 hne

/-! ## where sockets come from -/

theorem replyCore_socks_sub (s : St) (k : Sock) (m : Meta) (len : Nat) :
    ∀ x ∈ (replyCore s k m len).1.socks, x ∈ s.socks := by
  unfold replyCore
  simp only []
  split
  · exact fun x hx => hx
  · split
    · exact fun x hx => (List.mem_filter.1 hx).1
    · exact fun x hx => hx

theorem stepAdv_sub (c : Cfg) (s : St) (ms : Nat) :
    (∀ x ∈ (stepAdv c s ms).socks, x ∈ s.socks) ∧ (∀ x ∈ (stepAdv c s ms).pipe, x ∈ s.pipe) := by
  unfold stepAdv
  simp only []
  split
  · exact ⟨fun x hx => (List.mem_filter.1 hx).1, fun x hx => (List.mem_filter.1 hx).1⟩
  · exact ⟨fun x hx => hx, fun x hx => hx⟩

theorem step_socks_origin {c s} (_h : Inv c s) (op : Op) :
    ∀ k ∈ (step c s op).1.socks, k.key ∈ s.socks.map (·.key) ∨ ∃ len, op = .dg k.key len := by
  intro k hk
  cases hf : s.finished with
  | true => rw [step_of_finished hf] at hk; exact .inl (List.mem_map_of_mem hk)
  | false =>
    rw [step_of_not_finished hf] at hk
    cases op with
    | dg m len =>
      by_cases hkm : k.key = m
      · exact .inr ⟨len, by rw [hkm]⟩
      · left
        have hs := (stepDg_other c s len hkm).2
        rw [← findSock_isSome_iff, ← hs, findSock_isSome_iff]
        exact List.mem_map_of_mem hk
    | reply m len =>
      left
      simp only [] at hk
      rcases stepReply_cases c s m len with e | ⟨p, k', _, _, _, e⟩
      · rw [e] at hk; exact List.mem_map_of_mem hk
      · rw [e] at hk; exact List.mem_map_of_mem (replyCore_socks_sub s k' m len k hk)
    | adv ms => exact .inl (List.mem_map_of_mem ((stepAdv_sub c s ms).1 k hk))
    | close => simp at hk

theorem run_socks_origin {c s} (h : Inv c s) (ops : List Op) :
    ∀ k ∈ (run c s ops).1.socks, k.key ∈ s.socks.map (·.key) ∨ ∃ len, Op.dg k.key len ∈ ops := by
  induction ops generalizing s with
  | nil => exact fun k hk => .inl (List.mem_map_of_mem hk)
  | cons op ops ih =>
    intro k hk
    rcases ih (step_inv h op) k hk with h1 | ⟨len, h1⟩
    · obtain ⟨k0, hk0, hkey⟩ := List.mem_map.1 h1
      rcases step_socks_origin h op k0 hk0 with h2 | ⟨len, h2⟩
      · exact .inl (hkey ▸ h2)
      · exact .inr ⟨len, by rw [← hkey, ← h2]; exact List.mem_cons_self ..⟩
    · exact .inr ⟨len, List.mem_cons_of_mem _ h1⟩

theorem runFrom_socks (c : Cfg) (ops : List Op) :
    ∀ k ∈ (runFrom c ops).1.socks, k.dest = k.key.dst ∧ ∃ len, Op.dg k.key len ∈ ops := by
  intro k hk
  refine ⟨((runFrom_inv c ops).core.sock k hk).1, ?_⟩
  rcases run_socks_origin (inv_init c) ops k hk with h | h
  · simp [init] at h
  · exact h

/-! ## expiry of an idle flow -/

/-- the operation concerns flow `m` -/
def concerns (m : Meta) : Op → Bool
  | .dg m' _ => m' == m
  | .reply m' _ => m' == m
  | .adv _ => false
  | .close => false

def advTotal : List Op → Nat
  | [] => 0
  | .adv ms :: r => ms + advTotal r
  | _ :: r => advTotal r

theorem mem_of_same {c s' s} (h' : Inv c s') {m : Meta} (hs : Same s' s m) {e : PipeEntry}
    (he : e ∈ s'.pipe) (hk : e.key = m) : e ∈ s.pipe := by
  have := find?_key_of_mem_nodup PipeEntry.key s'.pipe h'.core.nodupK he
  rw [show PipeEntry.key e = m from hk] at this
  exact (pipeFind_some (s := s) (hs.1 ▸ this)).1

theorem untouched_mem {c s} (h : Inv c s) {m : Meta} {op : Op} (hu : concerns m op = false) :
    ∀ e ∈ (step c s op).1.pipe, e.key = m → e ∈ s.pipe := by
  intro e he hk
  have h' := step_inv h op
  cases op with
  | dg m' len =>
    have hne : m ≠ m' := fun e' => by simp [concerns, e'] at hu
    exact mem_of_same h' (step_dg_other m' len hne) he hk
  | reply m' len =>
    have hne : m ≠ m' := fun e' => by simp [concerns, e'] at hu
    exact mem_of_same h' (step_reply_other h m' len hne) he hk
  | adv ms =>
    cases hf : s.finished with
    | true => rw [step_of_finished hf] at he; exact he
    | false => rw [step_of_not_finished hf] at he; exact (stepAdv_sub c s ms).2 e he
  | close =>
    cases hf : s.finished with
    | true => rw [step_of_finished hf] at he; exact he
    | false => rw [step_of_not_finished hf] at he; simp at he

def Idle (c : Cfg) (t0 : Nat) (m : Meta) (s : St) : Prop :=
  ∀ e ∈ s.pipe, e.key = m →
    e.last ≤ t0 ∧ s.nextTick ≤ t0 + c.timeout + c.timeout / 4 ∧ s.now ≤ t0 + c.timeout + c.timeout / 4

theorem idle_start {c s} (h : Inv c s) (m : Meta) : Idle c s.now m s := fun e he _ =>
  ⟨h.core.last e he, by have := h.core.tick; omega, by omega⟩

theorem step_frame_of_not_adv (c : Cfg) (s : St) {op : Op} (h : ∀ ms, op ≠ .adv ms) :
    (step c s op).1.now = s.now ∧ (step c s op).1.nextTick = s.nextTick := by
  cases hf : s.finished with
  | true => rw [step_of_finished hf]; exact ⟨rfl, rfl⟩
  | false =>
    rw [step_of_not_finished hf]
    cases op with
    | dg m len => exact ⟨(stepDg_frame c s m len).1.now, (stepDg_frame c s m len).1.nextTick⟩
    | reply m len => exact ⟨(stepReply_frame c s m len).now, (stepReply_frame c s m len).nextTick⟩
    | adv ms => exact absurd rfl (h ms)
    | close => exact ⟨rfl, rfl⟩

theorem step_idle {c s t0} {m : Meta} {op : Op} (h : Inv c s) (hi : Idle c t0 m s)
    (hu : concerns m op = false) : Idle c t0 m (step c s op).1 := by
  intro e he hk
  obtain ⟨h1, h2, h3⟩ := hi e (untouched_mem h hu e he hk) hk
  by_cases hadv : ∃ ms, op = .adv ms
  · obtain ⟨ms, rfl⟩ := hadv
    cases hf : s.finished with
    | true => rw [step_of_finished hf]; exact ⟨h1, h2, h3⟩
    | false =>
      rw [step_of_not_finished hf] at he ⊢
      simp only [] at he ⊢
      unfold stepAdv at he ⊢
      simp only [] at he ⊢
      split at he
      · next ht =>
        rw [if_pos ht]
        have := (List.mem_filter.1 he).2
        simp only [Bool.not_eq_true', decide_eq_false_iff_not] at this
        refine ⟨h1, ?_, ?_⟩
        · show s.now + ms + c.timeout / 4 ≤ _
          omega
        · show s.now + ms ≤ _
          omega
      · next ht =>
        rw [if_neg ht]
        refine ⟨h1, h2, ?_⟩
        show s.now + ms ≤ _
        have : ¬ s.nextTick ≤ s.now + ms := ht
        omega
  · have := step_frame_of_not_adv c s (op := op) (fun ms e' => hadv ⟨ms, e'⟩)
    rw [this.1, this.2]; exact ⟨h1, h2, h3⟩

theorem run_idle {c s t0} {m : Meta} (h : Inv c s) (hi : Idle c t0 m s) (ops : List Op)
    (hu : ∀ op ∈ ops, concerns m op = false) : Idle c t0 m (run c s ops).1 := by
  induction ops generalizing s with
  | nil => exact hi
  | cons op ops ih =>
    exact ih (step_inv h op) (step_idle h hi (hu op (List.mem_cons_self ..)))
      (fun o ho => hu o (List.mem_cons_of_mem _ ho))

theorem run_of_finished (c : Cfg) {s : St} (hf : s.finished = true) (ops : List Op) :
    (run c s ops).1 = s := by
  induction ops with
  | nil => rfl
  | cons op ops ih =>
    show (run c (step c s op).1 ops).1 = s
    rw [step_of_finished hf]; exact ih

theorem step_now (c : Cfg) {s : St} (hf : s.finished = false) (op : Op) :
    (step c s op).1.now = s.now + advTotal [op] := by
  cases op with
  | adv ms =>
    rw [step_of_not_finished hf]
    simp only [advTotal]
    unfold stepAdv; simp only []; split <;> rfl
  | dg m len => exact (step_frame_of_not_adv c s (fun ms e => by cases e)).1
  | reply m len => exact (step_frame_of_not_adv c s (fun ms e => by cases e)).1
  | close => exact (step_frame_of_not_adv c s (fun ms e => by cases e)).1

theorem advTotal_cons (op : Op) (ops : List Op) : advTotal (op :: ops) = advTotal [op] + advTotal ops := by
  cases op <;> simp [advTotal]

theorem run_now (c : Cfg) (s : St) (ops : List Op) (hf : (run c s ops).1.finished = false) :
    (run c s ops).1.now = s.now + advTotal ops := by
  induction ops generalizing s with
  | nil => rfl
  | cons op ops ih =>
    cases hs : s.finished with
    | true => rw [run_of_finished c hs] at hf; rw [hs] at hf; cases hf
    | false =>
      have := ih (step c s op).1 hf
      show (run c (step c s op).1 ops).1.now = _
      rw [this, step_now c hs, advTotal_cons op ops]; omega

theorem idle_released {c s} (h : Inv c s) (ops : List Op) (m : Meta)
    (hu : ∀ op ∈ ops, concerns m op = false)
    (hd : c.timeout + c.timeout / 4 < advTotal ops) :
    hasPipe (run c s ops).1 m = false ∧ findSock (run c s ops).1 m = none := by
  have h' := run_inv h ops
  have hp : hasPipe (run c s ops).1 m = false := by
    cases hh : hasPipe (run c s ops).1 m with
    | false => rfl
    | true =>
      obtain ⟨e, he, hk⟩ := List.mem_map.1 (hasPipe_iff.1 hh)
      have hi := run_idle h (idle_start h m) ops hu e he hk
      have hn := run_now c s ops (h'.not_finished_of_pipe he)
      omega
  refine ⟨hp, ?_⟩
  have := h'.core.coupled m
  rw [hp] at this
  cases hfs : findSock (run c s ops).1 m with
  | none => rfl
  | some k => rw [hfs] at this; simp at this

/-! ## single steps computed -/

theorem Inv.findSock_of_entry {c s} (h : Inv c s) {m : Meta} {e : PipeEntry}
    (he : s.pipe.find? (·.key == m) = some e) :
    ∃ k, findSock s m = some k ∧ k ∈ s.socks ∧ k.key = m ∧ k.dest = m.dst ∧ s.finished = false := by
  obtain ⟨he1, he2⟩ := pipeFind_some he
  have hp : hasPipe s m = true := hasPipe_iff.2 (he2 ▸ List.mem_map_of_mem he1)
  rw [h.core.coupled m] at hp
  obtain ⟨k, hk⟩ := Option.isSome_iff_exists.1 hp
  obtain ⟨hk1, hk2⟩ := findSock_some hk
  exact ⟨k, hk, hk1, hk2, by rw [(h.core.sock k hk1).1, hk2], h.not_finished_of_pipe he1⟩

theorem findSock_none_of_hasPipe {c s} (h : Inv c s) {m : Meta} (hn : hasPipe s m = false) :
    findSock s m = none := by
  have := h.core.coupled m
  rw [hn] at this
  cases hfs : findSock s m with
  | none => rfl
  | some k => rw [hfs] at this; simp at this

theorem step_reply_live {c s} (h : Inv c s) {m : Meta} (len : Nat) (hs : (findSock s m).isSome)
    (hk : c.kind m.dst = .live ∨ c.kind m.dst = .dns) :
    (step c s (.reply m len)).2.cli = [(m, m, len)] := by
  obtain ⟨k, hs⟩ := Option.isSome_iff_exists.1 hs
  obtain ⟨hk1, hk2⟩ := findSock_some hs
  have hd : k.dest = m.dst := by rw [(h.core.sock k hk1).1, hk2]
  rw [step_of_not_finished (h.not_finished_of_sock hk1)]
  simp only []
  rw [stepReply_live h hs (by rw [hd]; exact hk), (replyCore_frame s k m len).2.2, hk2]

theorem replyCore_entry {s : St} {k : Sock} {m : Meta} {e : PipeEntry} (len : Nat) (hk : k.key = m)
    (he : s.pipe.find? (·.key == m) = some e) :
    (replyCore s k m len).1 =
      if (touchIn s.now e).2 then removeSock (removePipe { s with down := s.down + len } m) m
      else { s with down := s.down + len,
                    pipe := s.pipe.map fun x => if x.key == m then (touchIn s.now e).1 else x } := by
  subst hk
  unfold replyCore
  simp only []
  rw [he]
  simp only []
  split <;> rfl

theorem step_reply_entry {c s} (h : Inv c s) {m : Meta} {e : PipeEntry} (len : Nat)
    (he : s.pipe.find? (·.key == m) = some e) (hp : e.pending.isSome) :
    (step c s (.reply m len)).2.cli = [(m, m, len)] ∧
    (step c s (.reply m len)).1 =
      if (touchIn s.now e).2 then removeSock (removePipe { s with down := s.down + len } m) m
      else { s with down := s.down + len,
                    pipe := s.pipe.map fun x => if x.key == m then (touchIn s.now e).1 else x } := by
  obtain ⟨he1, he2⟩ := pipeFind_some he
  obtain ⟨k, hs, hk1, hk2, hd, hf⟩ := h.findSock_of_entry he
  have hdns : c.kind m.dst = .dns := he2 ▸ h.core.pend e he1 hp
  refine ⟨step_reply_live h len (by rw [hs]; rfl) (.inr hdns), ?_⟩
  rw [step_of_not_finished hf]
  simp only []
  rw [stepReply_live h hs (by rw [hd]; exact .inr hdns), replyCore_entry len hk2 he]

theorem step_reply_dns_done {c s} (h : Inv c s) {m : Meta} {e : PipeEntry} (len : Nat)
    (he : s.pipe.find? (·.key == m) = some e) (hp : e.pending = some 1) :
    (step c s (.reply m len)).2.cli = [(m, m, len)] ∧ hasPipe (step c s (.reply m len)).1 m = false ∧
      findSock (step c s (.reply m len)).1 m = none := by
  obtain ⟨h1, h2⟩ := step_reply_entry h len he (by rw [hp]; rfl)
  have : (touchIn s.now e).2 = true := by simp [touchIn, hp]
  rw [this, if_pos rfl] at h2
  rw [h2]
  exact ⟨h1, any_filter_key_self PipeEntry.key _ m, find?_filter_key_self Sock.key _ m⟩

theorem step_reply_dns_pending {c s} (h : Inv c s) {m : Meta} {e : PipeEntry} (len n : Nat)
    (he : s.pipe.find? (·.key == m) = some e) (hp : e.pending = some (n + 2)) :
    (step c s (.reply m len)).2.cli = [(m, m, len)] ∧
    (step c s (.reply m len)).1.pipe.find? (·.key == m)
      = some { e with last := s.now, pending := some (n + 1) } ∧
    findSock (step c s (.reply m len)).1 m = findSock s m := by
  obtain ⟨h1, h2⟩ := step_reply_entry h len he (by rw [hp]; rfl)
  have hk := (pipeFind_some he).2
  have ht : touchIn s.now e = ({ e with last := s.now, pending := some (n + 1) }, false) := by
    simp [touchIn, hp]
  rw [ht] at h2
  simp only [Bool.false_eq_true, if_false] at h2
  rw [h2]
  refine ⟨h1, ?_, rfl⟩
  have := find?_map_key_self PipeEntry.key
    (fun x => if x.key == m then { e with last := s.now, pending := some (n + 1) } else x) s.pipe
    (m := m) (e := e) (by intro x; split <;> simp_all) he
  show List.find? _ (List.map _ s.pipe) = _
  rw [this]; simp [hk]

theorem sinkWrite_poisoned {c s} {m : Meta} {k : Sock} (len : Nat) (hs : findSock s m = some k)
    (hp : k.poisoned = true) : sinkWrite c s m len = (removeSock (removePipe s m) m, {}) := by
  unfold sinkWrite
  rw [hs]
  simp [hp]

theorem sinkWrite_pipe_ok {c s} {m : Meta} {k : Sock} (len : Nat) (hs : findSock s m = some k)
    (hp : k.poisoned = false) : (sinkWrite c s m len).1.pipe = s.pipe := by
  unfold sinkWrite
  rw [hs]
  simp only [hp, Bool.false_eq_true, if_false]
  split <;> rfl

theorem step_dg_existing {c s} (h : Inv c s) {m : Meta} {e : PipeEntry} (len : Nat)
    (he : s.pipe.find? (·.key == m) = some e)
    (hs : ∀ k, findSock s m = some k → k.poisoned = false) :
    (step c s (.dg m len)).1.pipe.find? (·.key == m) = some (touchOut s.now e) := by
  obtain ⟨he1, he2⟩ := pipeFind_some he
  obtain ⟨k, hk, _, _, _, hf⟩ := h.findSock_of_entry he
  have hp : hasPipe s m = true := hasPipe_iff.2 (he2 ▸ List.mem_map_of_mem he1)
  rw [step_of_not_finished hf]
  simp only []
  unfold stepDg
  rw [if_pos hp]
  simp only []
  rw [sinkWrite_pipe_ok (c := c)
    (s := { s with pipe := s.pipe.map fun e => if e.key == m then touchOut s.now e else e }) len hk (hs k hk)]
  have := find?_map_key_self PipeEntry.key (fun x => if x.key == m then touchOut s.now x else x) s.pipe
    (m := m) (e := e) (by intro x; split <;> rfl) he
  show List.find? _ (List.map _ s.pipe) = _
  rw [this]; simp [he2]

theorem step_dg_poisoned {c s} (h : Inv c s) {m : Meta} {k : Sock} (len : Nat)
    (hs : findSock s m = some k) (hp : k.poisoned = true) :
    hasPipe (step c s (.dg m len)).1 m = false ∧ findSock (step c s (.dg m len)).1 m = none ∧
    (step c s (.dg m len)).1.finished = false ∧
    (step c s (.dg m len)).1.socks.length + 1 = s.socks.length := by
  obtain ⟨hk1, hk2⟩ := findSock_some hs
  have hf := h.not_finished_of_sock hk1
  have hhp : hasPipe s m = true := by rw [h.core.coupled m, hs]; rfl
  rw [step_of_not_finished hf]
  simp only []
  unfold stepDg
  rw [if_pos hhp]
  simp only []
  rw [sinkWrite_poisoned (c := c)
    (s := { s with pipe := s.pipe.map fun e => if e.key == m then touchOut s.now e else e }) len hs hp]
  refine ⟨any_filter_key_self PipeEntry.key _ m, find?_filter_key_self Sock.key _ m, hf, ?_⟩
  have := filter_key_ne_length Sock.key s.socks h.core.nodupSK hk1
  rw [show Sock.key k = m from hk2] at this
  exact this

theorem step_dg_unconn {c s} (h : Inv c s) {m : Meta} (len : Nat) (hk : c.kind m.dst = .unconn) :
    (step c s (.dg m len)).2.srv = [] ∧ (step c s (.dg m len)).1.pipe = s.pipe ∧
    (step c s (.dg m len)).1.socks = s.socks ∧ (step c s (.dg m len)).1.finished = s.finished := by
  cases hf : s.finished with
  | true => rw [step_of_finished hf]; exact ⟨rfl, rfl, rfl, hf⟩
  | false =>
    have hn : hasPipe s m = false := by
      cases hh : hasPipe s m with
      | false => rfl
      | true =>
        rw [h.core.coupled m] at hh
        obtain ⟨k, hs⟩ := Option.isSome_iff_exists.1 hh
        obtain ⟨hk1, hk2⟩ := findSock_some hs
        have := h.core.sock k hk1
        rw [this.1, hk2] at this
        exact absurd hk this.2.2
    have hfs := findSock_none_of_hasPipe h hn
    rw [step_of_not_finished hf]
    simp only []
    unfold stepDg
    rw [if_neg (by simp [hn]), hfs]
    simp [hk, hf]

theorem step_dg_fresh {c s} (h : Inv c s) {m : Meta} (len : Nat) (hf : s.finished = false)
    (hn : hasPipe s m = false) (hk : c.kind m.dst = .live ∨ c.kind m.dst = .dns) :
    (step c s (.dg m len)).2.srv = [(m.dst, m, len)] ∧ hasPipe (step c s (.dg m len)).1 m = true ∧
    findSock (step c s (.dg m len)).1 m
      = some { key := m, id := s.nextId, dest := m.dst, poisoned := false } ∧
    (∀ k ∈ s.socks, k.id ≠ s.nextId) := by
  have hfs := findSock_none_of_hasPipe h hn
  have hids : ∀ k ∈ s.socks, k.id ≠ s.nextId := fun k hk' => Nat.ne_of_lt (h.core.sock k hk').2.1
  rw [step_of_not_finished hf]
  simp only []
  unfold stepDg
  rw [if_neg (by simp [hn]), hfs]
  rcases hk with hk | hk <;>
    simp [hk, sinkWrite, findSock, hasPipe, touchOut] <;> exact hids

theorem step_adv_tick {c s} (ms : Nat) (hf : s.finished = false) (ht : s.nextTick ≤ s.now + ms) :
    ∀ e ∈ (step c s (.adv ms)).1.pipe, e.last + c.timeout ≥ s.now + ms := by
  rw [step_of_not_finished hf]
  simp only []
  unfold stepAdv
  simp only []
  rw [if_pos ht]
  intro e he
  have := (List.mem_filter.1 he).2
  simp only [Bool.not_eq_true', decide_eq_false_iff_not] at this
  omega

theorem find?_filter_key_keep {α κ : Type} [DecidableEq κ] (key : α → κ) (q : κ → Bool) (l : List α)
    {m : κ} (hq : q m = true) :
    (l.filter (fun x => q (key x))).find? (fun x => key x == m) = l.find? (fun x => key x == m) := by
  induction l with
  | nil => rfl
  | cons a l ih =>
    by_cases h1 : key a = m
    · subst h1; simp [List.filter_cons, hq]
    · by_cases h2 : q (key a) = true
      · simp [List.filter_cons, h2, h1, ih]
      · simp [List.filter_cons, h2, h1, ih]

theorem find?_filter_of_find? {α : Type} (p q : α → Bool) (l : List α) {e : α}
    (he : l.find? q = some e) (hp : p e = true) : (l.filter p).find? q = some e := by
  induction l with
  | nil => simp at he
  | cons a l ih =>
    by_cases hq : q a = true
    · simp [hq] at he
      subst he
      simp [List.filter_cons, hp, hq]
    · simp [hq] at he
      by_cases hpa : p a = true
      · simp [List.filter_cons, hpa, hq, ih he]
      · simp [List.filter_cons, hpa, ih he]

theorem step_adv_fresh {c s} (h : Inv c s) {m : Meta} {e : PipeEntry} (ms : Nat)
    (he : s.pipe.find? (·.key == m) = some e) (hfresh : s.now + ms ≤ e.last + c.timeout) :
    (step c s (.adv ms)).1.pipe.find? (·.key == m) = some e ∧
      findSock (step c s (.adv ms)).1 m = findSock s m := by
  obtain ⟨he1, he2⟩ := pipeFind_some he
  have hf := h.not_finished_of_pipe he1
  rw [step_of_not_finished hf]
  simp only []
  unfold stepAdv
  simp only []
  split
  · have hq : (!((s.pipe.filter fun e => e.last + c.timeout < s.now + ms).map (·.key)).contains m) = true := by
      simp only [Bool.not_eq_true', ← Bool.not_eq_true, List.contains_iff_mem, List.mem_map,
        List.mem_filter, decide_eq_true_eq]
      rintro ⟨e', ⟨he', hx⟩, hk'⟩
      have : e' = e := eq_of_nodup_map PipeEntry.key h.core.nodupK he' he1 (hk'.trans he2.symm)
      subst this; omega
    unfold expire
    dsimp only
    refine ⟨find?_filter_of_find? _ _ s.pipe he ?_,
      find?_filter_key_keep Sock.key
        (fun key => !((s.pipe.filter fun e : PipeEntry => e.last + c.timeout < s.now + ms).map
          PipeEntry.key).contains key)
        s.socks hq⟩
    simp only [Bool.not_eq_true', decide_eq_false_iff_not]; omega
  · exact ⟨he, rfl⟩

theorem step_close {c s} (h : Inv c s) :
    (step c s .close).1.socks = [] ∧ (step c s .close).1.pipe = [] := by
  cases hf : s.finished with
  | true => rw [step_of_finished hf]; exact ⟨(h.core.fin hf).2, (h.core.fin hf).1⟩
  | false => rw [step_of_not_finished hf]; exact ⟨rfl, rfl⟩

end TT.UdpFlows
