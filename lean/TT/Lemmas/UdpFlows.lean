import TT.Model.UdpFlows
namespace TT.UdpFlows

end TT.UdpFlows
