import TT.Model.UdpSocks
namespace TT.UdpSocks

end TT.UdpSocks
