import TT.Model.UdpSocks
namespace TT.UdpSocks
open TT.UdpFlows (Meta Cfg Op Obs PipeEntry Kind touchOut touchIn setPeer)
set_option linter.unusedSimpArgs false

/-! ## generic list facts -/

section ListFacts
variable {α : Type} {κ : Type}

theorem eq_of_nodup_map (key : α → κ) {l : List α} (hn : (l.map key).Nodup) {a b : α}
    (ha : a ∈ l) (hb : b ∈ l) (h : key a = key b) : a = b := by
  induction l with
  | nil => simp at ha
  | cons x l ih =>
    simp only [List.map_cons, List.nodup_cons, List.mem_map, List.mem_cons] at hn ha hb
    rcases ha with rfl | ha <;> rcases hb with rfl | hb
    · rfl
    · exact absurd ⟨b, hb, h.symm⟩ hn.1
    · exact absurd ⟨a, ha, h⟩ hn.1
    · exact ih hn.2 ha hb

theorem map_filterMap_sublist (f : α → Option α) (g : α → κ)
    (hf : ∀ a a', f a = some a' → g a' = g a) (l : List α) :
    ((l.filterMap f).map g).Sublist (l.map g) := by
  induction l with
  | nil => simp
  | cons x l ih =>
    cases hx : f x with
    | none => simpa [List.filterMap_cons, hx] using ih.cons _
    | some y =>
      have := hf x y hx
      simpa [List.filterMap_cons, hx, this] using ih.cons_cons (g x)

end ListFacts

/-! ## the two ways an association list changes -/

/-- `closeFlow` on one association -/
def closeF (m : Meta) (a : Assoc) : Option Assoc :=
  if a.src == m.src then
    let ps := a.peers.filter (· != m.dst)
    if ps.isEmpty then none else some { a with peers := ps }
  else some a

/-- `on_new_udp_connection` joining an existing association -/
def joinF (m : Meta) (a : Assoc) : Assoc :=
  if a.src == m.src && !a.peers.contains m.dst then { a with peers := a.peers ++ [m.dst] } else a

theorem closeFlow_eq (s : St) (m : Meta) :
    closeFlow s m = { s with assocs := s.assocs.filterMap (closeF m) } := rfl

theorem closeF_eq_some_iff {m : Meta} {a a' : Assoc} :
    closeF m a = some a' ↔
      (a.src = m.src ∧ a.peers.filter (· != m.dst) ≠ [] ∧
        a' = { a with peers := a.peers.filter (· != m.dst) }) ∨ (a.src ≠ m.src ∧ a' = a) := by
  unfold closeF
  by_cases h : a.src = m.src
  · by_cases h2 : a.peers.filter (· != m.dst) = []
    · simp [h, h2]
    · simp [h, h2]
      exact ⟨fun e => e.symm, fun e => e.symm⟩
  · simp [h]
    exact ⟨fun e => e.symm, fun e => e.symm⟩

theorem closeF_src {m : Meta} {a a' : Assoc} (h : closeF m a = some a') : a'.src = a.src := by
  rcases closeF_eq_some_iff.1 h with ⟨_, _, rfl⟩ | ⟨_, rfl⟩ <;> rfl

theorem closeF_id {m : Meta} {a a' : Assoc} (h : closeF m a = some a') : a'.id = a.id := by
  rcases closeF_eq_some_iff.1 h with ⟨_, _, rfl⟩ | ⟨_, rfl⟩ <;> rfl

theorem joinF_src (m : Meta) (a : Assoc) : (joinF m a).src = a.src := by
  unfold joinF; split <;> rfl

theorem joinF_id (m : Meta) (a : Assoc) : (joinF m a).id = a.id := by
  unfold joinF; split <;> rfl

theorem mem_joinF_peers (m : Meta) (a : Assoc) (x : Nat) :
    x ∈ (joinF m a).peers ↔ x ∈ a.peers ∨ (a.src = m.src ∧ x = m.dst) := by
  unfold joinF
  by_cases h : a.src = m.src <;> by_cases h2 : m.dst ∈ a.peers <;> simp [h, h2]
  intro hx; subst hx; exact h2

/-- flow `m` is held by some association -/
def Cov (as : List Assoc) (m : Meta) : Prop := ∃ a ∈ as, a.src = m.src ∧ m.dst ∈ a.peers

theorem Meta.ne_iff {m m' : Meta} (hs : m'.src = m.src) : m' ≠ m ↔ m'.dst ≠ m.dst := by
  cases m; cases m'; simp at hs; simp [hs]

theorem Cov_close {as : List Assoc} {m m' : Meta} :
    Cov (as.filterMap (closeF m)) m' ↔ Cov as m' ∧ m' ≠ m := by
  unfold Cov
  constructor
  · rintro ⟨a', ha', hs, hd⟩
    obtain ⟨a, ha, hc⟩ := List.mem_filterMap.1 ha'
    rcases closeF_eq_some_iff.1 hc with ⟨h1, _, rfl⟩ | ⟨h1, rfl⟩
    · simp only [List.mem_filter, bne_iff_ne] at hd
      have hs' : m'.src = m.src := by rw [← hs]; exact h1
      exact ⟨⟨a, ha, hs, hd.1⟩, (Meta.ne_iff hs').2 hd.2⟩
    · refine ⟨⟨a', ha, hs, hd⟩, ?_⟩
      rintro rfl; exact h1 hs
  · rintro ⟨⟨a, ha, hs, hd⟩, hne⟩
    by_cases h1 : a.src = m.src
    · have hs' : m'.src = m.src := by rw [← hs]; exact h1
      have hd' : m'.dst ∈ a.peers.filter (· != m.dst) := by
        simp only [List.mem_filter, bne_iff_ne]
        exact ⟨hd, (Meta.ne_iff hs').1 hne⟩
      refine ⟨{ a with peers := a.peers.filter (· != m.dst) }, ?_, hs, hd'⟩
      refine List.mem_filterMap.2 ⟨a, ha, closeF_eq_some_iff.2 (Or.inl ⟨h1, ?_, rfl⟩)⟩
      exact List.ne_nil_of_mem hd'
    · exact ⟨a, List.mem_filterMap.2 ⟨a, ha, closeF_eq_some_iff.2 (Or.inr ⟨h1, rfl⟩)⟩, hs, hd⟩

theorem Cov_join {as : List Assoc} {m m' : Meta} (h : ∃ a ∈ as, a.src = m.src) :
    Cov (as.map (joinF m)) m' ↔ Cov as m' ∨ m' = m := by
  unfold Cov
  constructor
  · rintro ⟨a', ha', hs, hd⟩
    obtain ⟨a, ha, rfl⟩ := List.mem_map.1 ha'
    rw [joinF_src] at hs
    rcases (mem_joinF_peers m a _).1 hd with hd | ⟨h1, h2⟩
    · exact Or.inl ⟨a, ha, hs, hd⟩
    · right
      cases m; cases m'; simp_all
  · rintro (⟨a, ha, hs, hd⟩ | rfl)
    · exact ⟨joinF m a, List.mem_map_of_mem ha, by rw [joinF_src]; exact hs,
        (mem_joinF_peers m a _).2 (Or.inl hd)⟩
    · obtain ⟨a, ha, hs⟩ := h
      exact ⟨joinF m' a, List.mem_map_of_mem ha, by rw [joinF_src]; exact hs,
        (mem_joinF_peers m' a _).2 (Or.inr ⟨hs, rfl⟩)⟩

theorem Cov_open {as : List Assoc} {m m' : Meta} {n : Nat} :
    Cov (as ++ [{ src := m.src, id := n, peers := [m.dst] }]) m' ↔ Cov as m' ∨ m' = m := by
  unfold Cov
  constructor
  · rintro ⟨a, ha, hs, hd⟩
    rcases List.mem_append.1 ha with ha | ha
    · exact Or.inl ⟨a, ha, hs, hd⟩
    · right
      simp only [List.mem_singleton] at ha
      subst ha
      cases m; cases m'; simp_all
  · rintro (⟨a, ha, hs, hd⟩ | rfl)
    · exact ⟨a, List.mem_append_left _ ha, hs, hd⟩
    · exact ⟨_, List.mem_append_right _ (List.mem_singleton.2 rfl), rfl, by simp⟩

/-! ## the association part of the invariant -/

structure AInv (as : List Assoc) (seen : List (Meta × Nat)) (n : Nat) : Prop where
  srcNd : (as.map (·.src)).Nodup
  idNd : (as.map (·.id)).Nodup
  good : ∀ a ∈ as, a.id < n ∧ a.peers ≠ [] ∧ a.peers.Nodup
  seenLt : ∀ p ∈ seen, p.2 < n
  /-- ids are never reused: what a server remembers still names an association of that source -/
  world : ∀ p ∈ seen, ∀ a ∈ as, a.id = p.2 → a.src = p.1.src

theorem AInv.nil {seen : List (Meta × Nat)} {n : Nat} (h : ∀ p ∈ seen, p.2 < n) : AInv [] seen n where
  srcNd := by simp
  idNd := by simp
  good := by simp
  seenLt := h
  world := by simp

theorem AInv.close {as seen n} (h : AInv as seen n) (m : Meta) :
    AInv (as.filterMap (closeF m)) seen n where
  srcNd := List.Nodup.sublist (map_filterMap_sublist _ _ (fun _ _ => closeF_src) as) h.srcNd
  idNd := List.Nodup.sublist (map_filterMap_sublist _ _ (fun _ _ => closeF_id) as) h.idNd
  good := by
    intro a' ha'
    obtain ⟨a, ha, hc⟩ := List.mem_filterMap.1 ha'
    have hg := h.good a ha
    rcases closeF_eq_some_iff.1 hc with ⟨_, h2, rfl⟩ | ⟨_, rfl⟩
    · exact ⟨hg.1, h2, List.Nodup.sublist List.filter_sublist hg.2.2⟩
    · exact hg
  seenLt := h.seenLt
  world := by
    intro p hp a' ha' hid
    obtain ⟨a, ha, hc⟩ := List.mem_filterMap.1 ha'
    rw [closeF_src hc]
    exact h.world p hp a ha (by rw [← closeF_id hc]; exact hid)

theorem joinF_good (m : Meta) (a : Assoc) (h : a.peers ≠ [] ∧ a.peers.Nodup) :
    (joinF m a).peers ≠ [] ∧ (joinF m a).peers.Nodup := by
  unfold joinF
  split
  · rename_i hc
    simp only [Bool.and_eq_true, Bool.not_eq_true', List.contains_eq_mem, decide_eq_false_iff_not,
      beq_iff_eq] at hc
    refine ⟨by simp, ?_⟩
    rw [List.nodup_append]
    refine ⟨h.2, by simp, ?_⟩
    intro x hx y hy
    simp only [List.mem_singleton] at hy
    subst hy
    rintro rfl
    exact hc.2 hx
  · exact h

theorem AInv.join {as seen n} (h : AInv as seen n) (m : Meta) : AInv (as.map (joinF m)) seen n where
  srcNd := by
    have : (as.map (joinF m)).map (·.src) = as.map (·.src) := by
      rw [List.map_map]; exact List.map_congr_left (fun a _ => joinF_src m a)
    rw [this]; exact h.srcNd
  idNd := by
    have : (as.map (joinF m)).map (·.id) = as.map (·.id) := by
      rw [List.map_map]; exact List.map_congr_left (fun a _ => joinF_id m a)
    rw [this]; exact h.idNd
  good := by
    intro a' ha'
    obtain ⟨a, ha, rfl⟩ := List.mem_map.1 ha'
    have hg := h.good a ha
    rw [joinF_id]
    exact ⟨hg.1, joinF_good m a hg.2⟩
  seenLt := h.seenLt
  world := by
    intro p hp a' ha' hid
    obtain ⟨a, ha, rfl⟩ := List.mem_map.1 ha'
    rw [joinF_src]
    rw [joinF_id] at hid
    exact h.world p hp a ha hid

theorem AInv.open {as seen n} (h : AInv as seen n) (m : Meta) (hn : ∀ a ∈ as, a.src ≠ m.src) :
    AInv (as ++ [{ src := m.src, id := n, peers := [m.dst] }]) seen (n + 1) where
  srcNd := by
    rw [List.map_append, List.nodup_append]
    refine ⟨h.srcNd, by simp, ?_⟩
    intro x hx y hy
    obtain ⟨a, ha, rfl⟩ := List.mem_map.1 hx
    simp only [List.map_cons, List.map_nil, List.mem_singleton] at hy
    subst hy
    exact hn a ha
  idNd := by
    rw [List.map_append, List.nodup_append]
    refine ⟨h.idNd, by simp, ?_⟩
    intro x hx y hy
    obtain ⟨a, ha, rfl⟩ := List.mem_map.1 hx
    simp only [List.map_cons, List.map_nil, List.mem_singleton] at hy
    subst hy
    exact Nat.ne_of_lt (h.good a ha).1
  good := by
    intro a ha
    rcases List.mem_append.1 ha with ha | ha
    · have hg := h.good a ha
      exact ⟨Nat.lt_succ_of_lt hg.1, hg.2⟩
    · simp only [List.mem_singleton] at ha
      subst ha
      exact ⟨Nat.lt_succ_self _, by simp, by simp⟩
  seenLt := fun p hp => Nat.lt_succ_of_lt (h.seenLt p hp)
  world := by
    intro p hp a ha hid
    rcases List.mem_append.1 ha with ha | ha
    · exact h.world p hp a ha hid
    · simp only [List.mem_singleton] at ha
      subst ha
      have := h.seenLt p hp
      simp only at hid
      omega

theorem mem_setPeer {ps : List (Meta × Nat)} {m : Meta} {id : Nat} {p : Meta × Nat}
    (h : p ∈ setPeer ps m id) : p = (m, id) ∨ p ∈ ps := by
  unfold setPeer at h
  rcases List.mem_cons.1 h with h | h
  · exact Or.inl h
  · exact Or.inr (List.mem_filter.1 h).1

theorem AInv.setSeen {as seen n} (h : AInv as seen n) (m : Meta) {a : Assoc} (ha : a ∈ as)
    (hs : a.src = m.src) : AInv as (setPeer seen m a.id) n where
  srcNd := h.srcNd
  idNd := h.idNd
  good := h.good
  seenLt := by
    intro p hp
    rcases mem_setPeer hp with rfl | hp
    · exact (h.good a ha).1
    · exact h.seenLt p hp
  world := by
    intro p hp a' ha' hid
    rcases mem_setPeer hp with rfl | hp
    · have : a' = a := eq_of_nodup_map (·.id) h.idNd ha' ha hid
      subst this
      exact hs
    · exact h.world p hp a' ha' hid

/-! ## the invariant -/

structure Inv (s : St) : Prop where
  a : AInv s.assocs s.seenFrom s.nextId
  keyNd : (s.pipe.map (·.key)).Nodup
  coupled : ∀ m, (∃ e ∈ s.pipe, e.key = m) ↔ Cov s.assocs m

theorem inv_init (c : Cfg) : Inv (init c) where
  a := AInv.nil (by simp [init])
  keyNd := by simp [init]
  coupled := by simp [init, Cov]

theorem find?_src_some {as : List Assoc} {src : Nat} {a : Assoc}
    (h : as.find? (·.src == src) = some a) : a ∈ as ∧ a.src = src :=
  ⟨List.mem_of_find?_eq_some h, by simpa using List.find?_some h⟩

theorem find?_src_none {as : List Assoc} {src : Nat}
    (h : as.find? (·.src == src) = none) : ∀ a ∈ as, a.src ≠ src := by
  intro a ha
  have := List.find?_eq_none.1 h a ha
  simpa using this

/-- closing flow `m` in both tables -/
theorem Inv.close {s : St} (h : Inv s) (m : Meta) : Inv (closeFlow (removePipe s m) m) where
  a := h.a.close m
  keyNd := List.Nodup.sublist (List.Sublist.map _ List.filter_sublist) h.keyNd
  coupled := by
    intro m'
    show (∃ e ∈ s.pipe.filter (·.key != m), e.key = m') ↔ Cov (s.assocs.filterMap (closeF m)) m'
    rw [Cov_close, ← h.coupled m']
    constructor
    · rintro ⟨e, he, rfl⟩
      simp only [List.mem_filter, bne_iff_ne] at he
      exact ⟨⟨e, he.1, rfl⟩, he.2⟩
    · rintro ⟨⟨e, he, rfl⟩, hne⟩
      exact ⟨e, List.mem_filter.2 ⟨he, by simpa using hne⟩, rfl⟩

/-- a key-preserving rewrite of the flow table -/
theorem Inv.mapPipe {s : St} (h : Inv s) (g : PipeEntry → PipeEntry) (hg : ∀ x ∈ s.pipe, (g x).key = x.key) :
    Inv { s with pipe := s.pipe.map g } where
  a := h.a
  keyNd := by
    have : (s.pipe.map g).map (·.key) = s.pipe.map (·.key) := by
      rw [List.map_map]; exact List.map_congr_left hg
    show ((s.pipe.map g).map (·.key)).Nodup
    rw [this]; exact h.keyNd
  coupled := by
    intro m'
    show (∃ e ∈ s.pipe.map g, e.key = m') ↔ Cov s.assocs m'
    rw [← h.coupled m']
    constructor
    · rintro ⟨e', he', rfl⟩
      obtain ⟨e, he, rfl⟩ := List.mem_map.1 he'
      exact ⟨e, he, (hg e he).symm⟩
    · rintro ⟨e, he, rfl⟩
      exact ⟨g e, List.mem_map_of_mem he, hg e he⟩

theorem Inv.setSeen {s : St} (h : Inv s) (m : Meta) {a : Assoc} (ha : a ∈ s.assocs) (hs : a.src = m.src) :
    Inv { s with seenFrom := setPeer s.seenFrom m a.id } where
  a := h.a.setSeen m ha hs
  keyNd := h.keyNd
  coupled := h.coupled

theorem sinkWrite_inv {c : Cfg} {s : St} {m : Meta} {len : Nat} (h : Inv s) :
    Inv (sinkWrite c s m len).1 := by
  unfold sinkWrite
  split
  · exact h.close m
  · rename_i a ha
    obtain ⟨ha1, ha2⟩ := find?_src_some ha
    split
    · exact ⟨(h.setSeen m ha1 ha2).a, h.keyNd, h.coupled⟩
    · exact ⟨(h.setSeen m ha1 ha2).a, h.keyNd, h.coupled⟩
    · exact ⟨h.a, h.keyNd, h.coupled⟩

theorem hasPipe_false {s : St} {m : Meta} (h : ¬ hasPipe s m = true) : ∀ e ∈ s.pipe, e.key ≠ m := by
  intro e he hk
  apply h
  simp only [hasPipe, List.any_eq_true, beq_iff_eq]
  exact ⟨e, he, hk⟩

theorem Inv.insertJoin {s : St} (h : Inv s) (m : Meta) (e : PipeEntry) (he : e.key = m)
    (hn : ¬ hasPipe s m = true) (hex : ∃ a ∈ s.assocs, a.src = m.src) :
    Inv { s with assocs := s.assocs.map (joinF m), pipe := e :: s.pipe } where
  a := h.a.join m
  keyNd := by
    show ((e :: s.pipe).map (·.key)).Nodup
    rw [List.map_cons, List.nodup_cons]
    refine ⟨?_, h.keyNd⟩
    intro hm
    obtain ⟨e', he', hk⟩ := List.mem_map.1 hm
    exact hasPipe_false hn e' he' (hk.trans he)
  coupled := by
    intro m'
    show (∃ e' ∈ e :: s.pipe, e'.key = m') ↔ Cov (s.assocs.map (joinF m)) m'
    rw [Cov_join hex, ← h.coupled m']
    constructor
    · rintro ⟨e', he', rfl⟩
      rcases List.mem_cons.1 he' with rfl | he'
      · exact Or.inr he
      · exact Or.inl ⟨e', he', rfl⟩
    · rintro (⟨e', he', rfl⟩ | rfl)
      · exact ⟨e', List.mem_cons_of_mem _ he', rfl⟩
      · exact ⟨e, List.mem_cons_self, he⟩

theorem Inv.insertOpen {s : St} (h : Inv s) (m : Meta) (e : PipeEntry) (he : e.key = m)
    (hn : ¬ hasPipe s m = true) (hex : ∀ a ∈ s.assocs, a.src ≠ m.src) :
    Inv { s with assocs := s.assocs ++ [{ src := m.src, id := s.nextId, peers := [m.dst] }],
                 nextId := s.nextId + 1, pipe := e :: s.pipe } where
  a := h.a.open m hex
  keyNd := by
    show ((e :: s.pipe).map (·.key)).Nodup
    rw [List.map_cons, List.nodup_cons]
    refine ⟨?_, h.keyNd⟩
    intro hm
    obtain ⟨e', he', hk⟩ := List.mem_map.1 hm
    exact hasPipe_false hn e' he' (hk.trans he)
  coupled := by
    intro m'
    show (∃ e' ∈ e :: s.pipe, e'.key = m') ↔
      Cov (s.assocs ++ [{ src := m.src, id := s.nextId, peers := [m.dst] }]) m'
    rw [Cov_open, ← h.coupled m']
    constructor
    · rintro ⟨e', he', rfl⟩
      rcases List.mem_cons.1 he' with rfl | he'
      · exact Or.inr he
      · exact Or.inl ⟨e', he', rfl⟩
    · rintro (⟨e', he', rfl⟩ | rfl)
      · exact ⟨e', List.mem_cons_of_mem _ he', rfl⟩
      · exact ⟨e, List.mem_cons_self, he⟩

theorem stepDg_inv {c : Cfg} {s : St} {m : Meta} {len : Nat} (h : Inv s) :
    Inv (stepDg c s m len).1 := by
  unfold stepDg
  split
  · exact sinkWrite_inv (h.mapPipe _ (fun x _ => by split <;> rfl))
  · rename_i hn
    apply sinkWrite_inv
    cases hf : findAssoc s m.src with
    | none =>
      exact h.insertOpen m _ rfl hn (find?_src_none hf)
    | some a =>
      obtain ⟨ha1, ha2⟩ := find?_src_some hf
      exact h.insertJoin m _ rfl hn ⟨a, ha1, ha2⟩

theorem touchIn_key (now : Nat) (e : PipeEntry) : (touchIn now e).1.key = e.key := by
  unfold touchIn; split <;> rfl

/-- what a reply does once the association it arrives on is known -/
def replyCore (s : St) (a : Assoc) (m : Meta) (len : Nat) : St × Obs :=
  let lbl : Meta := { src := a.src, dst := m.dst }
  let s := { s with down := s.down + len }
  let obs : Obs := { cli := [(lbl, m, len)] }
  match s.pipe.find? (·.key == lbl) with
  | none => (s, obs)
  | some e =>
    let (e', done) := touchIn s.now e
    if done then (closeFlow (removePipe s lbl) lbl, obs)
    else ({ s with pipe := s.pipe.map fun x => if x.key == lbl then e' else x }, obs)

theorem stepReply_cases (c : Cfg) (s : St) (m : Meta) (len : Nat) :
    stepReply c s m len = (s, {}) ∨
    ∃ p a, p ∈ s.seenFrom ∧ p.1 = m ∧ a ∈ s.assocs ∧ a.id = p.2 ∧
      stepReply c s m len = replyCore s a m len := by
  unfold stepReply
  split
  · split
    · exact Or.inl rfl
    · split
      · exact Or.inl rfl
      · rename_i m0 id h1 _ a h2
        refine Or.inr ⟨(m0, id), a, List.mem_of_find?_eq_some h1, by simpa using List.find?_some h1,
          List.mem_of_find?_eq_some h2, by simpa using List.find?_some h2, rfl⟩
  · split
    · exact Or.inl rfl
    · split
      · exact Or.inl rfl
      · rename_i m0 id h1 _ a h2
        refine Or.inr ⟨(m0, id), a, List.mem_of_find?_eq_some h1, by simpa using List.find?_some h1,
          List.mem_of_find?_eq_some h2, by simpa using List.find?_some h2, rfl⟩
  · exact Or.inl rfl

theorem replyCore_inv {s : St} {a : Assoc} {m : Meta} {len : Nat} (h : Inv s) :
    Inv (replyCore s a m len).1 := by
  have h' : Inv { s with down := s.down + len } := ⟨h.a, h.keyNd, h.coupled⟩
  unfold replyCore
  simp only []
  split
  · exact h'
  · rename_i e he
    split
    · exact h'.close _
    · refine h'.mapPipe _ ?_
      intro x _
      split
      · rename_i hx
        have h2 : e.key = (⟨a.src, m.dst⟩ : Meta) := by simpa using List.find?_some he
        have h3 : x.key = (⟨a.src, m.dst⟩ : Meta) := by simpa using hx
        rw [touchIn_key, h2, h3]
      · rfl

theorem stepReply_inv {c : Cfg} {s : St} {m : Meta} {len : Nat} (h : Inv s) :
    Inv (stepReply c s m len).1 := by
  rcases stepReply_cases c s m len with e | ⟨_, _, _, _, _, _, e⟩ <;> rw [e]
  · exact h
  · exact replyCore_inv h

/-! ## expiry: a fold of `closeFlow` over the expired keys -/

theorem filter_not_key {α κ : Type} (key : α → κ) (P : α → Bool) (l : List α)
    (hn : (l.map key).Nodup) (m' : κ) :
    (∃ e ∈ l.filter (fun e => !P e), key e = m') ↔
      (∃ e ∈ l, key e = m') ∧ m' ∉ (l.filter P).map key := by
  constructor
  · rintro ⟨e, he, rfl⟩
    obtain ⟨he1, he2⟩ := List.mem_filter.1 he
    refine ⟨⟨e, he1, rfl⟩, ?_⟩
    intro hd
    obtain ⟨e2, he2', hk⟩ := List.mem_map.1 hd
    obtain ⟨h1, h2⟩ := List.mem_filter.1 he2'
    have : e2 = e := eq_of_nodup_map key hn h1 he1 hk
    subst this
    simp [h2] at he2
  · rintro ⟨⟨e, he, rfl⟩, hnd⟩
    refine ⟨e, List.mem_filter.2 ⟨he, ?_⟩, rfl⟩
    cases hp : P e with
    | false => rfl
    | true => exact absurd (List.mem_map_of_mem (List.mem_filter.2 ⟨he, hp⟩)) hnd

def closeAll (ks : List Meta) (as : List Assoc) : List Assoc :=
  ks.foldl (fun as k => as.filterMap (closeF k)) as

theorem closeAll_cons (k : Meta) (ks : List Meta) (as : List Assoc) :
    closeAll (k :: ks) as = closeAll ks (as.filterMap (closeF k)) := rfl

theorem foldl_closeFlow (ks : List Meta) (s : St) :
    ks.foldl closeFlow s = { s with assocs := closeAll ks s.assocs } := by
  induction ks generalizing s with
  | nil => rfl
  | cons k ks ih =>
    show ks.foldl closeFlow (closeFlow s k) = _
    rw [ih]; rfl

theorem AInv.closeAll {as seen n} (h : AInv as seen n) (ks : List Meta) :
    AInv (closeAll ks as) seen n := by
  induction ks generalizing as with
  | nil => exact h
  | cons k ks ih => rw [closeAll_cons]; exact ih (h.close k)

theorem Cov_closeAll {as : List Assoc} {ks : List Meta} {m' : Meta} :
    Cov (closeAll ks as) m' ↔ Cov as m' ∧ m' ∉ ks := by
  induction ks generalizing as with
  | nil => simp [closeAll]
  | cons k ks ih =>
    rw [closeAll_cons, ih, Cov_close, List.mem_cons, not_or, and_assoc]

theorem expire_inv {c : Cfg} {s : St} (h : Inv s) : Inv (expire c s) := by
  unfold expire
  simp only []
  rw [foldl_closeFlow]
  refine ⟨h.a.closeAll _, ?_, ?_⟩
  · exact List.Nodup.sublist (List.Sublist.map _ List.filter_sublist) h.keyNd
  · intro m'
    show (∃ e ∈ s.pipe.filter (fun e => !decide (e.last + c.timeout < s.now)), e.key = m') ↔
      Cov (closeAll ((s.pipe.filter fun e => decide (e.last + c.timeout < s.now)).map (·.key)) s.assocs) m'
    rw [Cov_closeAll, ← h.coupled m']
    exact filter_not_key (·.key) (fun e => decide (e.last + c.timeout < s.now)) s.pipe h.keyNd m'

theorem stepAdv_inv {c : Cfg} {s : St} {ms : Nat} (h : Inv s) : Inv (stepAdv c s ms) := by
  unfold stepAdv
  simp only []
  split
  · have := expire_inv (c := c) (s := { s with now := s.now + ms }) ⟨h.a, h.keyNd, h.coupled⟩
    exact ⟨this.a, this.keyNd, this.coupled⟩
  · exact ⟨h.a, h.keyNd, h.coupled⟩

theorem step_inv {c : Cfg} {s : St} (h : Inv s) (op : Op) : Inv (step c s op).1 := by
  unfold step
  split
  · exact h
  · cases op with
    | dg m len => exact stepDg_inv h
    | reply m len => exact stepReply_inv h
    | adv ms => exact stepAdv_inv h
    | close => exact ⟨AInv.nil h.a.seenLt, by simp, by simp [Cov]⟩

/-! ## histories -/

theorem run_cons_fst (c : Cfg) (s : St) (op : Op) (ops : List Op) :
    (run c s (op :: ops)).1 = (run c (step c s op).1 ops).1 := rfl

theorem run_cons_snd (c : Cfg) (s : St) (op : Op) (ops : List Op) :
    (run c s (op :: ops)).2 = (step c s op).2 :: (run c (step c s op).1 ops).2 := rfl

theorem run_inv {c : Cfg} {s : St} (h : Inv s) (ops : List Op) : Inv (run c s ops).1 := by
  induction ops generalizing s with
  | nil => exact h
  | cons op ops ih => rw [run_cons_fst]; exact ih (step_inv h op)

theorem runFrom_inv (c : Cfg) (ops : List Op) : Inv (runFrom c ops).1 := run_inv (inv_init c) ops

theorem run_append_fst (c : Cfg) (s : St) (a b : List Op) :
    (run c s (a ++ b)).1 = (run c (run c s a).1 b).1 := by
  induction a generalizing s with
  | nil => rfl
  | cons op a ih => rw [List.cons_append, run_cons_fst, run_cons_fst, ih]

theorem run_append_snd (c : Cfg) (s : St) (a b : List Op) :
    (run c s (a ++ b)).2 = (run c s a).2 ++ (run c (run c s a).1 b).2 := by
  induction a generalizing s with
  | nil => rfl
  | cons op a ih => rw [List.cons_append, run_cons_snd, run_cons_snd, run_cons_fst, ih, List.cons_append]

theorem run_obs_forall {c : Cfg} {P : Obs → Prop} (hP : ∀ s op, Inv s → P (step c s op).2)
    {s : St} (h : Inv s) (ops : List Op) : ∀ o ∈ (run c s ops).2, P o := by
  induction ops generalizing s with
  | nil => intro o ho; simp [run] at ho
  | cons op ops ih =>
    intro o ho
    rw [run_cons_snd] at ho
    rcases List.mem_cons.1 ho with rfl | ho
    · exact hP s op h
    · exact ih (step_inv h op) o ho

/-! ## observations -/

/-- a datagram goes to its destination, a reply is labelled with the flow the server answered -/
def Routed (o : Obs) : Prop := (∀ x ∈ o.srv, x.1 = x.2.1.dst) ∧ (∀ x ∈ o.cli, x.1 = x.2.1)

theorem routed_empty : Routed {} := ⟨by simp, by simp⟩

theorem sinkWrite_routed (c : Cfg) (s : St) (m : Meta) (len : Nat) : Routed (sinkWrite c s m len).2 := by
  unfold sinkWrite
  split
  · exact routed_empty
  · split
    · exact ⟨by simp, by simp⟩
    · exact ⟨by simp, by simp⟩
    · exact routed_empty

theorem stepDg_routed (c : Cfg) (s : St) (m : Meta) (len : Nat) : Routed (stepDg c s m len).2 := by
  unfold stepDg
  split <;> exact sinkWrite_routed ..

theorem replyCore_obs (s : St) (a : Assoc) (m : Meta) (len : Nat) :
    (replyCore s a m len).2 = { cli := [(⟨a.src, m.dst⟩, m, len)] } := by
  unfold replyCore
  simp only []
  split
  · rfl
  · split <;> rfl

theorem stepReply_routed {c : Cfg} {s : St} (h : Inv s) (m : Meta) (len : Nat) :
    Routed (stepReply c s m len).2 := by
  rcases stepReply_cases c s m len with e | ⟨p, a, hp, hpm, ha, hid, e⟩ <;> rw [e]
  · exact routed_empty
  · rw [replyCore_obs]
    have := h.a.world p hp a ha hid
    rw [hpm] at this
    refine ⟨by simp, ?_⟩
    intro x hx
    simp only [List.mem_singleton] at hx
    subst hx
    cases m
    simp_all

theorem step_routed {c : Cfg} (s : St) (op : Op) (h : Inv s) : Routed (step c s op).2 := by
  unfold step
  split
  · exact routed_empty
  · cases op with
    | dg m len => exact stepDg_routed ..
    | reply m len => exact stepReply_routed h m len
    | adv ms => exact routed_empty
    | close => exact routed_empty

/-! ## termination -/

theorem sinkWrite_finished (c : Cfg) (s : St) (m : Meta) (len : Nat) :
    (sinkWrite c s m len).1.finished = s.finished := by
  unfold sinkWrite
  split
  · rfl
  · split <;> rfl

theorem stepDg_finished (c : Cfg) (s : St) (m : Meta) (len : Nat) :
    (stepDg c s m len).1.finished = s.finished := by
  unfold stepDg
  split
  · rw [sinkWrite_finished]
  · rw [sinkWrite_finished]
    cases findAssoc s m.src <;> rfl

theorem replyCore_finished (s : St) (a : Assoc) (m : Meta) (len : Nat) :
    (replyCore s a m len).1.finished = s.finished := by
  unfold replyCore
  simp only []
  split
  · rfl
  · split <;> rfl

theorem stepReply_finished (c : Cfg) (s : St) (m : Meta) (len : Nat) :
    (stepReply c s m len).1.finished = s.finished := by
  rcases stepReply_cases c s m len with e | ⟨_, _, _, _, _, _, e⟩ <;> rw [e]
  exact replyCore_finished ..

theorem stepAdv_finished (c : Cfg) (s : St) (ms : Nat) : (stepAdv c s ms).finished = s.finished := by
  unfold stepAdv expire
  simp only []
  split
  · rw [foldl_closeFlow]
  · rfl

theorem step_finished (c : Cfg) (s : St) {op : Op} (h : op ≠ .close) :
    (step c s op).1.finished = s.finished := by
  unfold step
  split
  · rfl
  · cases op with
    | dg m len => exact stepDg_finished ..
    | reply m len => exact stepReply_finished ..
    | adv ms => exact stepAdv_finished ..
    | close => exact absurd rfl h

theorem run_not_finished (c : Cfg) (s : St) (ops : List Op) (hs : s.finished = false)
    (h : ∀ op ∈ ops, op ≠ .close) : (run c s ops).1.finished = false := by
  induction ops generalizing s with
  | nil => exact hs
  | cons op ops ih =>
    rw [run_cons_fst]
    apply ih
    · rw [step_finished c s (h op List.mem_cons_self)]; exact hs
    · exact fun o ho => h o (List.mem_cons_of_mem _ ho)

/-! ## the association of one source -/

theorem find?_close_other (as : List Assoc) {m : Meta} {src : Nat} (hne : src ≠ m.src) :
    (as.filterMap (closeF m)).find? (·.src == src) = as.find? (·.src == src) := by
  induction as with
  | nil => rfl
  | cons x as ih =>
    cases hx : closeF m x with
    | none =>
      have : x.src = m.src := by
        unfold closeF at hx
        by_cases h : x.src = m.src
        · exact h
        · simp [h] at hx
      have h2 : x.src ≠ src := fun e => hne (e ▸ this)
      simp [List.filterMap_cons, hx, h2, ih]
    | some y =>
      rcases closeF_eq_some_iff.1 hx with ⟨h1, _, rfl⟩ | ⟨_, rfl⟩
      · have h2 : x.src ≠ src := fun e => hne (e ▸ h1)
        simp [List.filterMap_cons, hx, h2, ih]
      · by_cases h2 : y.src = src <;> simp [List.filterMap_cons, hx, h2, ih]

theorem find?_join_other (as : List Assoc) {m : Meta} {src : Nat} (hne : src ≠ m.src) :
    (as.map (joinF m)).find? (·.src == src) = as.find? (·.src == src) := by
  induction as with
  | nil => rfl
  | cons x as ih =>
    by_cases h2 : x.src = src
    · have : joinF m x = x := by
        unfold joinF
        have : x.src ≠ m.src := fun e => hne (h2 ▸ e)
        simp [this]
      simp [this, h2]
    · simp [joinF_src, h2, ih]

theorem sinkWrite_other (c : Cfg) (s : St) (m : Meta) (len : Nat) {src : Nat} (hne : src ≠ m.src) :
    findAssoc (sinkWrite c s m len).1 src = findAssoc s src := by
  unfold sinkWrite
  split
  · exact find?_close_other s.assocs hne
  · split <;> rfl

theorem stepDg_other (c : Cfg) (s : St) (m : Meta) (len : Nat) {src : Nat} (hne : src ≠ m.src) :
    findAssoc (stepDg c s m len).1 src = findAssoc s src := by
  unfold stepDg
  split
  · rw [sinkWrite_other c _ m len hne]; rfl
  · rw [sinkWrite_other c _ m len hne]
    cases findAssoc s m.src with
    | some a => exact find?_join_other s.assocs hne
    | none =>
      show (s.assocs ++ [_]).find? (·.src == src) = s.assocs.find? (·.src == src)
      have : m.src ≠ src := fun e => hne e.symm
      simp [List.find?_append, this]

theorem step_dg_other (c : Cfg) (s : St) (m : Meta) (len : Nat) {src : Nat} (hne : src ≠ m.src) :
    findAssoc (step c s (.dg m len)).1 src = findAssoc s src := by
  unfold step
  split
  · rfl
  · exact stepDg_other c s m len hne

theorem filterMap_close_id (as : List Assoc) {m : Meta} (h : ∀ y ∈ as, y.src ≠ m.src) :
    as.filterMap (closeF m) = as := by
  induction as with
  | nil => rfl
  | cons x as ih =>
    have hx : closeF m x = some x := closeF_eq_some_iff.2 (Or.inr ⟨h x List.mem_cons_self, rfl⟩)
    rw [List.filterMap_cons, hx, ih (fun y hy => h y (List.mem_cons_of_mem _ hy))]

/-- closing a flow whose association has other peers keeps the association -/
theorem find?_close_keep (as : List Assoc) {m : Meta} {a : Assoc}
    (ha : as.find? (·.src == m.src) = some a) (hp : a.peers.filter (· != m.dst) ≠ []) :
    (as.filterMap (closeF m)).find? (·.src == m.src) =
      some { a with peers := a.peers.filter (· != m.dst) } := by
  induction as with
  | nil => simp at ha
  | cons x as ih =>
    by_cases h : x.src = m.src
    · simp [h] at ha
      subst ha
      have hx : closeF m x = some { x with peers := x.peers.filter (· != m.dst) } :=
        closeF_eq_some_iff.2 (Or.inl ⟨h, hp, rfl⟩)
      simp [List.filterMap_cons, hx, h]
    · simp [h] at ha
      have hx : closeF m x = some x := closeF_eq_some_iff.2 (Or.inr ⟨h, rfl⟩)
      simp [List.filterMap_cons, hx, h, ih ha]

/-- closing the last flow of an association releases it -/
theorem find?_close_last (as : List Assoc) (hn : (as.map (·.src)).Nodup) {m : Meta} {a : Assoc}
    (ha : as.find? (·.src == m.src) = some a) (hp : a.peers.filter (· != m.dst) = []) :
    (as.filterMap (closeF m)).find? (·.src == m.src) = none ∧
      (as.filterMap (closeF m)).length + 1 = as.length := by
  induction as with
  | nil => simp at ha
  | cons x as ih =>
    rw [List.map_cons, List.nodup_cons] at hn
    by_cases h : x.src = m.src
    · simp [h] at ha
      subst ha
      have hx : closeF m x = none := by
        unfold closeF; simp [h, hp]
      have hall : ∀ y ∈ as, y.src ≠ m.src := by
        intro y hy e
        exact hn.1 (List.mem_map.2 ⟨y, hy, e.trans h.symm⟩)
      rw [List.filterMap_cons, hx, filterMap_close_id as hall]
      refine ⟨?_, rfl⟩
      rw [List.find?_eq_none]
      intro y hy
      simpa using hall y hy
    · simp [h] at ha
      have hx : closeF m x = some x := closeF_eq_some_iff.2 (Or.inr ⟨h, rfl⟩)
      obtain ⟨i1, i2⟩ := ih hn.2 ha
      rw [List.filterMap_cons, hx]
      refine ⟨?_, by simp [i2]⟩
      simp [h, i1]

end TT.UdpSocks
