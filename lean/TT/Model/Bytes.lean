/-
Byte-buffer primitives of the `bytes` crate as the parsers use them, returning `panic`
exactly where the Rust methods panic (`Buf::advance`, `get_u8/16/32`, `split_to`,
`split_off` beyond the remaining length).  A byte is a `Nat` (< 256 by construction in
the harness; theorems that need the bound carry it as a hypothesis).
-/
namespace TT

abbrev Bytes := List Nat

/-- result of a computation that may panic -/
inductive Res (α : Type) where
  | ok : α → Res α
  | panic : Res α
deriving Repr, DecidableEq

namespace Res
def bind {α β : Type} (x : Res α) (f : α → Res β) : Res β :=
  match x with
  | .ok a => f a
  | .panic => .panic

instance : Monad Res where
  pure := .ok
  bind := Res.bind

def isOk {α : Type} : Res α → Bool
  | .ok _ => true
  | .panic => false
end Res

namespace Bytes

/-- `Buf::get_u8` -/
def getU8 : Bytes → Res (Nat × Bytes)
  | [] => .panic
  | a :: rest => .ok (a, rest)

/-- `Buf::get_u16` (big endian) -/
def getU16 : Bytes → Res (Nat × Bytes)
  | a :: b :: rest => .ok (a * 256 + b, rest)
  | _ => .panic

/-- `Buf::get_u32` (big endian) -/
def getU32 : Bytes → Res (Nat × Bytes)
  | a :: b :: c :: d :: rest => .ok (((a * 256 + b) * 256 + c) * 256 + d, rest)
  | _ => .panic

/-- `Buf::advance(n)` -/
def advance (n : Nat) (b : Bytes) : Res Bytes :=
  if n ≤ b.length then .ok (b.drop n) else .panic

/-- `Bytes::split_to(n)`: returns `[0, n)`, self becomes `[n, len)` -/
def splitTo (n : Nat) (b : Bytes) : Res (Bytes × Bytes) :=
  if n ≤ b.length then .ok (b.take n, b.drop n) else .panic

/-- `Bytes::split_off(n)`: returns `[n, len)`, self becomes `[0, n)` -/
def splitOff (n : Nat) (b : Bytes) : Res (Bytes × Bytes) :=
  if n ≤ b.length then .ok (b.drop n, b.take n) else .panic

def u16be (n : Nat) : Bytes := [n / 256 % 256, n % 256]
def u32be (n : Nat) : Bytes := [n / 16777216 % 256, n / 65536 % 256, n / 256 % 256, n % 256]

end Bytes
end TT
