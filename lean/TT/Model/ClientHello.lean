import TT.Model.Bytes
/-
Model of `lib/src/tls_listener.rs`: `extract_client_random` (the TLS record / handshake /
ClientHello walk that `tls_parser::parse_tls_plaintext` performs, for records whose first
handshake message is a ClientHello and for non-handshake records),
`read_client_random_and_wrap_stream` (1024-byte reads, 16 KiB cap) and
`PrebufferedTcpStream::poll_read` (replay of the prebuffer).
-/
namespace TT.CH
open TT TT.Bytes

inductive Extraction where
  | found (random : Bytes)
  | needMore
  | notFound
deriving Repr, DecidableEq

def maxRecordLen : Nat := 16640   -- tls_parser::MAX_RECORD_LEN = (1 << 14) + 256

/-- `parse_tls_handshake_client_hello` on the handshake body: `some random` iff it parses -/
def parseClientHelloBody (b : Bytes) : Option Bytes :=
  if b.length < 2 + 32 + 1 then none else
  let random := (b.drop 2).take 32
  let b := b.drop 34
  match b with
  | [] => none
  | sidlen :: b =>
    if sidlen > 32 then none else
    if b.length < sidlen then none else
    let b := b.drop sidlen
    match b with
    | c0 :: c1 :: b =>
      let clen := c0 * 256 + c1
      if clen != 0 && (clen % 2 == 1 || clen > b.length) then none else
      let b := b.drop clen
      match b with
      | complen :: b =>
        if complen > b.length then none else some random   -- extensions: `opt(complete(..))` never fails
      | [] => none
    | _ => none

/-- `TlsListener::extract_client_random` -/
def extract (data : Bytes) : Extraction :=
  match data with
  | recType :: _ :: _ :: l0 :: l1 :: rest =>
    let len := l0 * 256 + l1
    if len > maxRecordLen then .notFound
    else if rest.length < len then .needMore
    else
      let payload := rest.take len
      if recType != 22 then .notFound
      else
        match payload with
        | ht :: h0 :: h1 :: h2 :: body =>
          let hl := (h0 * 256 + h1) * 256 + h2
          if body.length < hl then .notFound
          else if ht == 1 then
            match parseClientHelloBody (body.take hl) with
            | some r => .found r
            | none => .notFound
          else .notFound   -- other first handshake message: outside the modelled class
        | _ => .notFound
  | _ => .needMore

def maxPrebuffer : Nat := 16384
def readChunk : Nat := 1024

/-- `read_client_random_and_wrap_stream`.  `stream` = bytes the client will send (then EOF),
`avail` = for each `read` call, how many bytes are available at that moment (≥ 1; models every
segmentation and arrival timing).  Returns (client_random, prebuffer, unread rest). -/
def readLoop : List Nat → Bytes → Bytes → Option Bytes × Bytes × Bytes
  | [], pre, stream => (none, pre, stream)        -- schedule exhausted (not reached with enough entries)
  | a :: avail, pre, stream =>
    if !(pre.length < maxPrebuffer) then (none, pre, stream) else
    match extract pre with
    | .found r => (some r, pre, stream)
    | .notFound => (none, pre, stream)
    | .needMore =>
      let readLen := min readChunk (maxPrebuffer - pre.length)
      let n := min (min (max a 1) readLen) stream.length
      if n == 0 then (none, pre, stream)            -- EOF
      else readLoop avail (pre ++ stream.take n) (stream.drop n)

/-- `PrebufferedTcpStream`: what a sequence of reads with the given buffer sizes returns when the
socket still holds `rest` (each socket read returns everything up to the buffer size) -/
def replayReads : List Nat → Bytes → Nat → Bytes → List Bytes
  | [], _, _, _ => []
  | cap :: caps, pre, pos, rest =>
    if pos < pre.length then
      let n := min (pre.length - pos) cap
      ((pre.drop pos).take n) :: replayReads caps pre (pos + n) rest
    else
      (rest.take cap) :: replayReads caps pre pos (rest.drop cap)

/-! ### spec-side construction of a ClientHello record -/

def u24be (n : Nat) : Bytes := [n / 65536 % 256, n / 256 % 256, n % 256]

/-- ClientHello handshake body -/
def chBody (version : Bytes) (random sid suites comps exts : Bytes) : Bytes :=
  version ++ random ++ [sid.length] ++ sid ++ u16be suites.length ++ suites ++ [comps.length] ++ comps ++
    (if exts.isEmpty then [] else u16be exts.length ++ exts)

/-- one TLS record carrying exactly one ClientHello handshake message -/
def chRecord (recVersion version : Bytes) (random sid suites comps exts : Bytes) : Bytes :=
  let body := chBody version random sid suites comps exts
  [22] ++ recVersion ++ u16be (4 + body.length) ++ [1] ++ u24be body.length ++ body

end TT.CH
