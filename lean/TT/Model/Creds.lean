import TT.Model.Bytes
import TT.Model.Util
/-
Model of the credentials path:
  * TOML string lexemes (single-line basic and literal strings, TOML 1.0) as `toml_edit`
    decodes them - what `Item::as_str` yields for `username` / `password`
  * `settings.rs deserialize_clients` (string value, empty rejected)
  * `authentication/registry_based.rs` (`base64(user ":" password)` set membership)
  * `Settings::validate`, `ReverseProxySettings::validate`, `TlsHostsSettings::validate`
-/
namespace TT.Creds
open TT

/-! ### base64 (standard alphabet, padded) -/

def b64Char (n : Nat) : Char :=
  if n < 26 then Char.ofNat (65 + n)
  else if n < 52 then Char.ofNat (97 + (n - 26))
  else if n < 62 then Char.ofNat (48 + (n - 52))
  else if n == 62 then '+' else '/'

def base64 : Bytes → List Char
  | [] => []
  | [a] => [b64Char (a / 4), b64Char (a % 4 * 16), '=', '=']
  | [a, b] => [b64Char (a / 4), b64Char (a % 4 * 16 + b / 16), b64Char (b % 16 * 4), '=']
  | a :: b :: c :: rest =>
    b64Char (a / 4) :: b64Char (a % 4 * 16 + b / 16) :: b64Char (b % 16 * 4 + c / 64) :: b64Char (c % 64) :: base64 rest

def utf8 (s : List Char) : Bytes :=
  s.flatMap (fun c => (String.utf8EncodeChar c).map (·.toNat))

/-- the token a client presents for (user, password): `base64(user ++ ":" ++ password)` -/
def credToken (u p : List Char) : List Char := base64 (utf8 (u ++ [':'] ++ p))

/-! ### TOML string lexemes -/

inductive Lex where
  | str (s : List Char)   -- a string value
  | invalid               -- not valid TOML (the file is rejected)
  | other                 -- outside the modelled lexeme classes (multi-line strings, non-strings)
deriving Repr, DecidableEq

def isCtl (c : Char) : Bool := (c.toNat < 0x20 && c != '\t') || c.toNat == 0x7f

def hexDigits : Nat → List Char → Option (Nat × List Char)
  | 0, rest => some (0, rest)
  | n+1, c :: rest =>
    match hexVal c, hexDigits n rest with
    | some v, some (acc, r) => some (v * 16 ^ n + acc, r)
    | _, _ => none
  | _+1, [] => none

def isScalar (n : Nat) : Bool := n < 0xd800 || (0xe000 ≤ n && n < 0x110000)

/-- body of a basic string after the opening quote; returns the value and what follows the
closing quote.  `fuel` bounds the recursion (the input length always suffices): structural
recursion cannot see that `hexDigits` returns a suffix. -/
def decodeBasic : Nat → List Char → Option (List Char × List Char)
  | 0, _ => none
  | _, [] => none
  | fuel+1, c :: rest =>
    if c == '"' then some ([], rest)
    else if c == '\\' then
      match rest with
      | [] => none
      | e :: rest =>
        let simple (x : Char) := (decodeBasic fuel rest).map fun (s, r) => (x :: s, r)
        if e == 'b' then simple (Char.ofNat 8)
        else if e == 't' then simple '\t'
        else if e == 'n' then simple '\n'
        else if e == 'f' then simple (Char.ofNat 12)
        else if e == 'r' then simple '\r'
        else if e == '"' then simple '"'
        else if e == '\\' then simple '\\'
        else if e == 'u' then
          match hexDigits 4 rest with
          | some (n, rest') =>
            if isScalar n then (decodeBasic fuel rest').map fun (s, r) => (Char.ofNat n :: s, r) else none
          | none => none
        else if e == 'U' then
          match hexDigits 8 rest with
          | some (n, rest') =>
            if isScalar n then (decodeBasic fuel rest').map fun (s, r) => (Char.ofNat n :: s, r) else none
          | none => none
        else none
    else if isCtl c then none
    else (decodeBasic fuel rest).map fun (s, r) => (c :: s, r)

/-- body of a literal string after the opening quote -/
def decodeLiteral : List Char → Option (List Char × List Char)
  | [] => none
  | c :: rest =>
    if c == '\'' then some ([], rest)
    else if isCtl c then none
    else (decodeLiteral rest).map fun (s, r) => (c :: s, r)

/-- a whole value lexeme (no surrounding whitespace) -/
def decodeLexeme (l : List Char) : Lex :=
  match l with
  | '"' :: '"' :: '"' :: _ => .other
  | '\'' :: '\'' :: '\'' :: _ => .other
  | '"' :: rest =>
    match decodeBasic (rest.length + 1) rest with
    | some (s, []) => .str s
    | _ => .invalid
  | '\'' :: rest =>
    match decodeLiteral rest with
    | some (s, []) => .str s
    | _ => .invalid
  | _ => .other

/-- canonical basic-string encoder: quote, backslash and control characters escaped -/
def hex4 (n : Nat) : List Char :=
  [hexDigit (n / 4096 % 16), hexDigit (n / 256 % 16), hexDigit (n / 16 % 16), hexDigit (n % 16)]

def escapeChar (c : Char) : List Char :=
  if c == '"' then ['\\', '"']
  else if c == '\\' then ['\\', '\\']
  else if isCtl c then '\\' :: 'u' :: hex4 c.toNat
  else [c]

def encodeBasic (s : List Char) : List Char := '"' :: (s.flatMap escapeChar ++ ['"'])

/-! ### credentials file -> clients -> registry -/

structure Client where
  user : List Char
  pass : List Char
deriving Repr, DecidableEq

/-- one `[[client]]` table: `none` = the endpoint refuses the file -/
def loadClient (userLex passLex : Lex) : Option Client :=
  match userLex, passLex with
  | .str u, .str p => if u.isEmpty || p.isEmpty then none else some ⟨u, p⟩
  | .invalid, _ => none
  | _, .invalid => none
  | _, _ => none      -- non-string / missing value reads as empty: rejected

/-- `RegistryBasedAuthenticator::authenticate(ProxyBasic(token))` -/
def registryAccepts (clients : List Client) (token : List Char) : Bool :=
  clients.any (fun c => credToken c.user c.pass == token)

/-! ### start-up validation -/

structure ListenCfg where
  /-- listen address: unspecified ip with port 0 = "not set" -/
  addrUnspecified : Bool
  port : Nat
  addrLoopback : Bool
  http1 : Bool
  http2 : Bool
  quic : Bool
  nClients : Nat
  /-- reverse proxy section: none, or (server port, path mask) -/
  reverseProxy : Option (Nat × List Char)
deriving Repr, DecidableEq

inductive StartErr where
  | listenAddressNotSet | reverseProxy | listenProtocols | noCredentialsOnPublicAddress
deriving Repr, DecidableEq

def reverseProxyValid (port : Nat) (mask : List Char) : Bool :=
  port != 0 && !mask.isEmpty && mask.head? == some '/'

/-- `Settings::validate` (first failing check wins, in the code's order) -/
def validate (c : ListenCfg) : Option StartErr :=
  if c.addrUnspecified && c.port == 0 then some .listenAddressNotSet
  else match c.reverseProxy with
    | some (p, m) =>
      if !reverseProxyValid p m then some .reverseProxy
      else if !c.http1 && !c.http2 && !c.quic then some .listenProtocols
      else if c.nClients == 0 && !c.addrLoopback then some .noCredentialsOnPublicAddress
      else none
    | none =>
      if !c.http1 && !c.http2 && !c.quic then some .listenProtocols
      else if c.nClients == 0 && !c.addrLoopback then some .noCredentialsOnPublicAddress
      else none

end TT.Creds
