/-
Model of `lib/src/tls_demultiplexer.rs` `TlsDemux::select` / `select_tunnel_channel_protocol`,
the TCP acceptance rule of `core.rs on_new_tls_connection` (an `Http3` result is refused)
and `Core::reload_tls_hosts_settings` (validate, then swap under the write lock).
Host names are strings compared exactly (`HashMap::get`).
-/
namespace TT.Demux

/-- `Protocol`, ordered `Http1 < Http2 < Http3` (derive(PartialOrd, Ord)) -/
inductive Proto where
  | h1 | h2 | h3
deriving Repr, DecidableEq

def Proto.rank : Proto → Nat
  | .h1 => 1
  | .h2 => 2
  | .h3 => 3

inductive Channel where
  | tunnel | ping | speedtest | reverseProxy
deriving Repr, DecidableEq

/-- one advertised ALPN entry after `from_utf8` + `Protocol::from_alpn`: a known protocol or not -/
abbrev Alpn := Option Proto

structure Cfg where
  main : List String
  ping : List String
  speed : List String
  /-- reverse proxy hosts (already empty when `settings.reverse_proxy` is `None`) -/
  rproxy : List String
  /-- `allowed_sni_to_main_host`: alternative SNI -> main host name -/
  alt : List (String × String)
  /-- `tunnel_protocols`: the enabled listen protocols -/
  enabled : List Proto
deriving Repr, DecidableEq

structure Meta where
  sni : String
  protocol : Proto
  channel : Channel
  /-- the host entry whose certificate is presented: (class, configured host name) -/
  host : Channel × String
  creds : Option String
deriving Repr, DecidableEq

/-- `max` of a protocol list by rank -/
def maxProto : List Proto → Option Proto
  | [] => none
  | p :: rest =>
    match maxProto rest with
    | none => some p
    | some q => if q.rank ≤ p.rank then some p else some q

/-- `select_tunnel_channel_protocol` (also used for ping and speedtest hosts) -/
def selectProto (enabled : List Proto) (parsed : List Proto) (offeredEmpty : Bool) : Option Proto :=
  match maxProto (parsed.filter (fun x => enabled.contains x)) with
  | some x => some x
  | none => if enabled.contains .h1 && offeredEmpty then some .h1 else none

/-- reverse proxy hosts permit HTTP/1.1 and HTTP/3 only -/
def selectProtoRproxy (enabled : List Proto) (parsed : List Proto) (offeredEmpty : Bool) : Option Proto :=
  match maxProto ((parsed.filter (fun x => x == .h1 || x == .h3)).filter (fun x => enabled.contains x)) with
  | some x => some x
  | none => if enabled.contains .h1 && offeredEmpty then some .h1 else none

/-- `str::split_once('.')` -/
def splitOnceDot : List Char → Option (List Char × List Char)
  | [] => none
  | c :: rest =>
    if c == '.' then some ([], rest)
    else match splitOnceDot rest with
      | some (a, b) => some (c :: a, b)
      | none => none

/-- `TlsDemux::select`; `none` = `Err` (connection refused) -/
def select (cfg : Cfg) (alpn : List Alpn) (sni : String) : Option Meta :=
  let parsed := alpn.filterMap id
  if parsed.isEmpty && !alpn.isEmpty then none else
  let emptyOffer := alpn.isEmpty
  if cfg.main.contains sni then
    (selectProto cfg.enabled parsed emptyOffer).map fun p => ⟨sni, p, .tunnel, (.tunnel, sni), none⟩
  else if cfg.rproxy.contains sni then
    (selectProtoRproxy cfg.enabled parsed emptyOffer).map fun p => ⟨sni, p, .reverseProxy, (.reverseProxy, sni), none⟩
  else if cfg.ping.contains sni then
    (selectProto cfg.enabled parsed emptyOffer).map fun p => ⟨sni, p, .ping, (.ping, sni), none⟩
  else if cfg.speed.contains sni then
    (selectProto cfg.enabled parsed emptyOffer).map fun p => ⟨sni, p, .speedtest, (.speedtest, sni), none⟩
  else
    match cfg.alt.find? (fun e => e.1 == sni && cfg.main.contains e.2) with
    | some e =>
      (selectProto cfg.enabled parsed emptyOffer).map fun p => ⟨sni, p, .tunnel, (.tunnel, e.2), none⟩
    | none =>
      match splitOnceDot sni.toList with
      | some (a, b) =>
        if cfg.main.contains (String.ofList b) then
          (selectProto cfg.enabled parsed emptyOffer).map fun p =>
            ⟨sni, p, .tunnel, (.tunnel, String.ofList b), some (String.ofList a)⟩
        else none
      | none => none

/-- `on_new_tls_connection`: no SNI -> refused; `Http3` result -> refused -/
def tcpAccept (cfg : Cfg) (alpn : List Alpn) (sni : Option String) : Option Meta :=
  match sni with
  | none => none
  | some s =>
    match select cfg alpn s with
    | some m => if m.protocol == .h3 then none else some m
    | none => none

/-- QUIC (`quic_multiplexer.rs`): the QUIC configuration offers `h3` only, the certificate callback
and `finalize_established_connection` call `select` with the fixed list `[h3]`; when that fails
(no SNI, an SNI designating no entry, HTTP/3 not permitted) the connection keeps the *bootstrap*
meta: first main host, tunnel channel, HTTP/3 (`get_quic_connection_bootstrap_meta`; the main hosts
are a hash map there, so "first" is only determined when there is one main host) -/
def bootstrap (cfg : Cfg) : Option Meta :=
  cfg.main.head?.map fun m => ⟨m, .h3, .tunnel, (.tunnel, m), none⟩

def quicAccept (cfg : Cfg) (sni : Option String) : Option Meta :=
  match sni with
  | none => bootstrap cfg
  | some s =>
    if s.isEmpty then bootstrap cfg
    else match select cfg [some .h3] s with
      | some m => some m
      | none => bootstrap cfg

/-! ### reload -/

/-- `TlsHostsSettings::validate` as far as names go: main hosts non-empty, host names unique
across all four classes (certificate loading is an input: `loadable`) -/
def namesUnique : List String → Bool
  | [] => true
  | x :: rest => !rest.contains x && namesUnique rest

structure HostsSettings where
  main : List String
  ping : List String
  speed : List String
  rproxy : List String
  alt : List (String × String)
  loadable : Bool
deriving Repr, DecidableEq

def HostsSettings.valid (h : HostsSettings) : Bool :=
  !h.main.isEmpty && h.loadable && namesUnique (h.main ++ h.ping ++ h.speed ++ h.rproxy)

def mkCfg (enabled : List Proto) (rproxyConfigured : Bool) (h : HostsSettings) : Cfg :=
  ⟨h.main, h.ping, h.speed, if rproxyConfigured then h.rproxy else [], h.alt, enabled⟩

/-- `Core::reload_tls_hosts_settings`: the new demultiplexer replaces the old one only when the
settings validate (and its construction succeeds); otherwise the old one stays -/
def reload (enabled : List Proto) (rproxyConfigured : Bool) (cur : Cfg) (h : HostsSettings) : Cfg × Bool :=
  if h.valid then (mkCfg enabled rproxyConfigured h, true) else (cur, false)

inductive Ev where
  | reload (h : HostsSettings)
  | select (alpn : List Alpn) (sni : String)

/-- a history of reloads and selections executed under the RwLock: each selection sees the
configuration installed by the last successful reload before it -/
def run (enabled : List Proto) (rp : Bool) : Cfg → List Ev → List (Option Meta)
  | _, [] => []
  | cur, .reload h :: rest => run enabled rp (reload enabled rp cur h).1 rest
  | cur, .select a s :: rest => select cur a s :: run enabled rp cur rest

end TT.Demux
