import TT.Model.Bytes
import TT.Model.Creds
import TT.Gen.Dispatch
/-
Model of the tunnel request path: `http_codec.rs PendingRequest::auth_info`,
`tunnel.rs Tunnel::listen_inner` (authentication gate, dispatch),
`http_downstream.rs PendingRequest::promote_to_next_state / TcpConnection::destination /
fail_request_with_error`, `tunnel.rs on_tcp_connect_request / on_datagram_mux_request`.
The status / X-Warning tables come from `TT/Gen/Dispatch.lean` (re-extracted from the match arms
on every run).
-/
namespace TT.Dispatch
open TT TT.Gen

/-! ### authentication gate -/

inductive AuthInfo where
  | absent                       -- no Proxy-Authorization header
  | basic (token : List Char)    -- `Basic <token>`
  | unreadable                   -- anything else: `auth_info()` returns Err
deriving Repr, DecidableEq

/-- `HeaderValue::to_str`: visible ASCII (and tab) only -/
def headerToStr (b : Bytes) : Option (List Char) :=
  if b.all (fun x => (32 ≤ x && x < 127) || x == 9) then some (b.map Char.ofNat) else none

/-- `PendingRequest::auth_info` on the (first) header value -/
def authInfo (hdr : Option Bytes) : AuthInfo :=
  match hdr with
  | none => .absent
  | some b =>
    match headerToStr b with
    | none => .unreadable
    | some s =>
      if "Basic ".toList.isPrefixOf s then .basic (s.drop 6) else .unreadable

inductive Source where
  | sni (creds : List Char)
  | proxyBasic (token : List Char)
deriving Repr, DecidableEq

/-- the configured authenticator as a predicate on sources (`none` = no authenticator) -/
structure Authn where
  accepts : Source → Bool

/-- the registry-based authenticator: Basic tokens of listed clients, never an SNI source -/
def registryAuthn (clients : List Creds.Client) : Authn :=
  ⟨fun s => match s with
    | .proxyBasic t => Creds.registryAccepts clients t
    | .sni _ => false⟩

inductive Policy where
  | default_
  | authenticated (src : Source)    -- the connection's SNI credentials were accepted
deriving Repr, DecidableEq

/-- `Core::on_tunnel_request`: `none` = the connection is dropped before any request is read -/
def sessionPolicy (authn : Option Authn) (sniCreds : Option (List Char)) : Option Policy :=
  match authn, sniCreds with
  | some a, some c => if a.accepts (.sni c) then some (.authenticated (.sni c)) else none
  | _, _ => some .default_

inductive Gate where
  | pass (fwdAuth : Option Source)
  | reject                          -- ConnectionError::Authentication -> 407 + challenge
deriving Repr, DecidableEq

/-- the five-way match of `listen_inner` -/
def gate (info : AuthInfo) (policy : Policy) (authn : Option Authn) : Gate :=
  match info, policy, authn with
  | .basic t, _, some a => if a.accepts (.proxyBasic t) then .pass (some (.proxyBasic t)) else .reject
  | .absent, .authenticated x, some _ => .pass (some x)
  | .basic t, _, none => .pass (some (.proxyBasic t))
  | .absent, .default_, none => .pass none
  | .absent, .authenticated y, none => .pass (some y)
  | .absent, .default_, some _ => .reject
  | .unreadable, _, _ => .reject

/-! ### dispatch -/

inductive Method where
  | connect | other
deriving Repr, DecidableEq

structure Req where
  method : Method
  /-- `uri.authority().as_str()`, `none` when the request has no authority -/
  authority : Option String
  /-- the authority parsed as a socket-address literal (`as_str().parse::<SocketAddr>()`) -/
  isLiteral : Bool
  /-- `authority.port_u16()` -/
  port : Option Nat
  authHdr : Option Bytes
deriving Repr, DecidableEq

inductive Kind where
  | health
  | mux (icmp : Bool)
  | badMethod              -- reserved authority with another method: 502, no X-Warning
  | tcp
deriving Repr, DecidableEq

/-- `PendingRequest::promote_to_next_state` (exact string comparison with the reserved names) -/
def promote (r : Req) : Kind :=
  match r.authority with
  | some a =>
    if a == health_check_authority then (if r.method == .connect then .health else .badMethod)
    else if a == udp_authority then (if r.method == .connect then .mux false else .badMethod)
    else if a == icmp_authority then (if r.method == .connect then .mux true else .badMethod)
    else .tcp
  | none => .tcp

/-- outcome of `connector.connect` as the environment decides it -/
inductive ConnectOutcome where
  | ok
  | err (e : ConnErr)
  | delayedOk (ms : Nat)        -- completes after `ms` (compared with the establishment timeout)
deriving Repr, DecidableEq

/-- what the SOCKS5 upstream's answer to the CONNECT request means for the tunnel
(`socks5_forwarder.rs`, `TcpConnector::connect`): RFC 1928 reply codes X'03' network unreachable and X'04' host
unreachable are "unreachable", X'05' is a refused connection (an I/O error), X'06' TTL expired is a timeout,
every other failure - and a reply that is not a reply code at all - is "some reason" -/
inductive SocksAnswer where
  | reply (code : Nat)          -- a well-formed reply with this REP byte
  | closed                      -- the upstream closed the connection / I/O error in the dialogue
  | malformed                   -- protocol error (bad version, unknown REP / ATYP)
deriving Repr, DecidableEq

def socksOutcome : SocksAnswer → ConnectOutcome
  | .reply 0 => .ok
  | .reply 3 => .err .hostUnreachable
  | .reply 4 => .err .hostUnreachable
  | .reply 5 => .err .io
  | .reply 6 => .err .timeout
  | .reply _ => .err .other
  | .closed => .err .io
  | .malformed => .err .other

structure Env where
  connect : ConnectOutcome
  establishTimeoutMs : Nat
  udpMuxFails : Bool
  icmpMux : Option Bool         -- none = ICMP forwarding not set up
  datagramAuthFails : Bool
deriving Repr, DecidableEq

inductive Egress where
  | tcpConnect
  | udpMux
  | icmpMux
  | checkAuth                   -- datagram multiplexer authenticator (SOCKS5 upstream)
deriving Repr, DecidableEq

structure Response where
  status : Nat
  entries : List WarnEntry
deriving Repr, DecidableEq

inductive Event where
  | response (r : Response)
  | egress (e : Egress)
deriving Repr, DecidableEq

/-- `tcp_forwarder::io_to_connection_error`: how the OS error of an outbound connect is classified
(the lists are read from the source on every run) -/
def connErrOfErrno (e : Nat) : ConnErr :=
  if unreachableErrnos.contains e then .hostUnreachable
  else if timedOutErrnos.contains e then .timeout
  else .io

def failWith (e : ConnErr) : Event := .response ⟨statusOf e, warnOf e⟩
def ok200 : Event := .response ⟨200, []⟩

/-- what one request causes: final response and egress, in order -/
def handle (r : Req) (policy : Policy) (authn : Option Authn) (env : Env) : List Event :=
  match gate (authInfo r.authHdr) policy authn with
  | .reject => [failWith .authentication]
  | .pass fwdAuth =>
    match promote r with
    | .health => [ok200]
    | .badMethod => [.response ⟨bad_status_code, []⟩]
    | .mux icmp =>
      let pre : List Event := if fwdAuth.isSome then [.egress .checkAuth] else []
      if fwdAuth.isSome && env.datagramAuthFails then pre ++ [failWith .authentication]
      else pre ++ [ok200, .egress (if icmp then .icmpMux else .udpMux)]
    | .tcp =>
      -- `TcpConnection::destination`
      let destOk := r.authority.isSome && (r.isLiteral || r.method != .connect || r.port.isSome)
      if !destOk then [failWith .io]
      else
        match env.connect with
        -- on success a CONNECT is answered 200 by the endpoint; any other method is forwarded as plain
        -- HTTP and the (single) final response is the origin's (C17)
        | .ok => if r.method == .connect then [.egress .tcpConnect, ok200] else [.egress .tcpConnect]
        | .err e => [.egress .tcpConnect, failWith e]
        | .delayedOk ms =>
          -- `tokio::time::timeout` polls the connect future before its own deadline: completing exactly at
          -- the limit still counts as completed
          if ms ≤ env.establishTimeoutMs then
            (if r.method == .connect then [.egress .tcpConnect, ok200] else [.egress .tcpConnect])
          else [.egress .tcpConnect, failWith .timeout]

def isFinal : Event → Bool
  | .response _ => true
  | .egress _ => false

/-- a session: every request is handled on its own (the tunnel keeps no per-request state) -/
def session (policy : Policy) (authn : Option Authn) (reqs : List (Req × Env)) : List (List Event) :=
  reqs.map (fun re => handle re.1 policy authn re.2)

end TT.Dispatch
