/-
C17 — plain-HTTP forwarding (`http_forwarded_stream.rs`).

Response side: `ForwardedStreamSink` is an incremental parser (response head, optional 1xx heads,
then a Content-Length / chunked / close-delimited / empty body) coupled to the client-side sink,
which may accept only part of what it is offered. `Sink.write` below is `ForwardedStreamSink::write`
state by state (with `fake_unsent`), `offer` is what `SimplexPipe::exchange` does with one segment
of the origin's byte stream: write, and while something is unsent wait for writability and write
the rest again. The client-side sink accepts `quota` bytes per call from a finite script and then
everything.

The two byte-level parsers the code takes from `httparse` (response head, chunk size line) are
written out here for the grammar the suite generates; the correspondence run compares them with
the real ones through the whole sink.

Request side: `serialize_request` and the body length rule of `ForwardedStreamSource`.
-/
import TT.Model.Bytes
import TT.Gen.Consts
namespace TT.Fwd
open TT

/-! ## byte helpers -/

def lower (c : Nat) : Nat := if 65 ≤ c ∧ c ≤ 90 then c + 32 else c
def lowerAll (b : Bytes) : Bytes := b.map lower
def isWs (c : Nat) : Bool := c == 32 || c == 9
def trimLeft : Bytes → Bytes
  | c :: r => if isWs c then trimLeft r else c :: r
  | [] => []
def trimRight (b : Bytes) : Bytes := (trimLeft b.reverse).reverse
def trim (b : Bytes) : Bytes := trimRight (trimLeft b)

def str (s : String) : Bytes := s.toList.map Char.toNat

def hexDigitVal (c : Nat) : Option Nat :=
  if 48 ≤ c ∧ c ≤ 57 then some (c - 48)
  else if 97 ≤ c ∧ c ≤ 102 then some (c - 87)
  else if 65 ≤ c ∧ c ≤ 70 then some (c - 55)
  else none

def decDigitVal (c : Nat) : Option Nat := if 48 ≤ c ∧ c ≤ 57 then some (c - 48) else none

/-- plain decimal (what `str::parse::<u64>` accepts without a sign, no overflow modelled) -/
def parseDec : Bytes → Option Nat
  | [] => none
  | b => b.foldl (fun acc c => match acc, decDigitVal c with
      | some a, some d => some (a * 10 + d)
      | _, _ => none) (some 0)

/-! ## the chunk size line (`httparse::parse_chunk_size`) -/

inductive CRes where
  | complete (pos size : Nat)
  | incomplete
  | invalid
  deriving DecidableEq, Repr

/-- after the digits: optional extension up to CR, then LF. `pos` counts consumed bytes. -/
def chunkLineRest (size : Nat) : Nat → Bool → Bytes → CRes
  | _, _, [] => .incomplete
  | pos, inExt, c :: r =>
    if c == 13 then
      match r with
      | [] => .incomplete
      | d :: _ => if d == 10 then .complete (pos + 2) size else .invalid
    else if inExt then chunkLineRest size (pos + 1) true r
    else if c == 59 then chunkLineRest size (pos + 1) true r
    else .invalid

def chunkDigits : Nat → Nat → Nat → Bytes → CRes
  | _, _, _, [] => .incomplete
  | n, size, pos, c :: r =>
    match hexDigitVal c with
    | some d => if n ≥ 16 then .invalid else chunkDigits (n + 1) (size * 16 + d) (pos + 1) r
    | none => if n == 0 then .invalid else chunkLineRest size pos false (c :: r)

def parseChunkSize (b : Bytes) : CRes := chunkDigits 0 0 0 b

/-! ## the response head -/

/-- number of bytes up to and including the first CRLFCRLF -/
def headEnd : Bytes → Option Nat
  | 13 :: 10 :: 13 :: 10 :: _ => some 4
  | _ :: r => (headEnd r).map (· + 1)
  | [] => none

/-- lines of a head (without the CRLFs); the head ends with an empty line -/
def splitLines : Bytes → Bytes → List Bytes
  | acc, 13 :: 10 :: r => acc.reverse :: splitLines [] r
  | acc, c :: r => splitLines (c :: acc) r
  | acc, [] => if acc.isEmpty then [] else [acc.reverse]

def splitColon : Bytes → Bytes → Option (Bytes × Bytes)
  | acc, 58 :: r => some (acc.reverse, r)
  | acc, c :: r => splitColon (c :: acc) r
  | _, [] => none

structure Head where
  status : Nat
  /-- lower-cased names, trimmed values, in order -/
  headers : List (Bytes × Bytes)
  deriving DecidableEq, Repr

/-- `HTTP/1.x SSS reason` -/
def parseStatusLine (l : Bytes) : Option Nat :=
  match l.drop 9 with
  | a :: b :: c :: _ => do
    let a ← decDigitVal a; let b ← decDigitVal b; let c ← decDigitVal c
    some (a * 100 + b * 10 + c)
  | _ => none

/-- the header array of `parse_response`: doubled, starting from the initial size, while it is shorter than the
maximum (`fuel` bounds the doublings) -/
def growCap (max : Nat) : Nat → Nat → Nat
  | cap, 0 => cap
  | cap, fuel + 1 => if cap < max then growCap max (2 * cap) fuel else cap

/-- the largest number of header lines a response head may have (128 for the constants 32 and 128) -/
def responseHeaderCapacity : Nat :=
  growCap TT.Gen.max_response_headers_num TT.Gen.initial_response_headers_buffer_size 64

def parseHeadBytes (b : Bytes) : Option Head :=
  match splitLines [] b with
  | [] => none
  | l :: ls => do
    let st ← parseStatusLine l
    let hs ← (ls.filter (!·.isEmpty)).mapM fun h => do
      let (n, v) ← splitColon [] h
      some (lowerAll n, trim v)
    -- more header lines than the array can grow to: "too many headers", the response is refused
    if hs.length > responseHeaderCapacity then none else
    some { status := st, headers := hs }

inductive BodyLen where
  | determined (n : Nat)
  | chunked
  deriving DecidableEq, Repr

/-- client protocol family: HTTP/1.x keeps `Transfer-Encoding`, HTTP/2 and HTTP/3 get the body de-chunked -/
inductive Ver where
  | h10 | h11 | h2 | h3
  deriving DecidableEq, Repr

def Ver.isH1 : Ver → Bool | .h10 | .h11 => true | _ => false

/-- names listed in a `Connection` value (except `close`), lower-cased and trimmed -/
def splitComma : Bytes → Bytes → List Bytes
  | acc, 44 :: r => acc.reverse :: splitComma [] r
  | acc, c :: r => splitComma (c :: acc) r
  | acc, [] => [acc.reverse]

def connectionTokens (v : Bytes) : List Bytes :=
  ((splitComma [] v).filter (· != str "close")).map fun t => lowerAll (trim t)

structure Conv where
  kept : List (Bytes × Bytes) := []
  drop : List Bytes := [str "proxy-connection", str "keep-alive", str "upgrade"]
  bodyLen : Option BodyLen := none
  bad : Bool := false
  deriving Repr

/-- one header of `convert_response` -/
def convHeader (ver : Ver) (c : Conv) (h : Bytes × Bytes) : Conv :=
  let (n, v) := h
  if c.drop.contains n then c
  else if n == str "connection" then { c with drop := c.drop ++ connectionTokens v }
  else if n == str "transfer-encoding" && !ver.isH1 then
    { c with bodyLen := if v == str "chunked" then some .chunked else c.bodyLen,
             drop := c.drop ++ [str "content-length", str "transfer-encoding"] }
  else if c.bodyLen.isNone && n == str "content-length" then
    match parseDec v with
    | some k => { c with bodyLen := some (.determined k), kept := c.kept ++ [(n, v)] }
    | none => { c with bad := true }
  else { c with kept := c.kept ++ [(n, v)] }

def isHead (method : Bytes) : Bool := method == str "HEAD"

/-- the first pass of `convert_response`: the fields nominated by the `Connection` headers of the head, wherever they
stand in it, are hop-by-hop from the start -/
def connInit (hs : List (Bytes × Bytes)) : Conv :=
  { drop := [str "proxy-connection", str "keep-alive", str "upgrade"] ++
      ((hs.filter (fun h => h.1 == str "connection")).map (fun h => connectionTokens h.2)).flatten }

/-- `convert_response`: forwarded headers and how the body is framed (`none` = until close) -/
def convertResponse (ver : Ver) (method : Bytes) (h : Head) : Option (List (Bytes × Bytes) × Option BodyLen) :=
  let c := h.headers.foldl (convHeader ver) (connInit h.headers)
  if c.bad then none else
  let bl := if isHead method || (100 ≤ h.status ∧ h.status < 200) || h.status == 204 || h.status == 304
            then some (.determined 0) else c.bodyLen
  some (c.kept, bl)

/-! ## the sink -/

inductive Phase where
  | idle
  | waitingResponse (buf : Bytes)
  | nonEncoded (len : Option Nat) (sent : Nat)
  | chunkPrefix (buf : Bytes)
  | chunkBody (remaining : Nat)
  | chunkSuffix (buf : Bytes) (terminating : Bool)
  deriving DecidableEq, Repr

/-- what the client has been sent -/
structure Client where
  interims : List Nat := []
  head : Option (Nat × Bool × List (Bytes × Bytes)) := none   -- status, eof flag, headers
  body : Bytes := []
  /-- delivered-byte positions at which `eof()` reached the client-side sink -/
  eofs : List Nat := []
  /-- a 502 was sent instead of a response -/
  bad : Bool := false
  deriving DecidableEq, Repr

structure Sink where
  ver : Ver
  method : Bytes
  phase : Phase
  fakeUnsent : Bool := false
  /-- acceptance script of the client-side sink: bytes per `write` call, then everything -/
  quotas : List Nat
  client : Client := {}
  /-- `write` returned an error (the pipe ends) -/
  failed : Bool := false
  deriving Repr

def Sink.init (ver : Ver) (method : Bytes) (quotas : List Nat) : Sink :=
  { ver := ver, method := method, phase := .waitingResponse [], quotas := quotas }

/-- one `write` of the client-side sink: how many of `n` offered bytes it takes -/
def takeQuota (quotas : List Nat) (n : Nat) : Nat × List Nat :=
  match quotas with
  | [] => (n, [])
  | q :: r => (min q n, r)

def clientWrite (s : Sink) (data : Bytes) : Sink × Nat :=
  let (k, qs) := takeQuota s.quotas data.length
  ({ s with quotas := qs, client := { s.client with body := s.client.body ++ data.take k } }, k)

def clientEof (s : Sink) : Sink :=
  { s with client := { s.client with eofs := s.client.eofs ++ [s.client.body.length] } }

def fail (s : Sink) : Sink := { s with failed := true, phase := .idle }

/-- `ForwardedStreamSink::write`: the new state and the bytes handed back as unsent -/
def Sink.write (s : Sink) (data : Bytes) : Sink × Bytes :=
  match s.phase with
  | .idle => (fail s, [])
  | .waitingResponse buf =>
    let d := buf ++ data
    match headEnd d with
    | none => ({ s with phase := .waitingResponse d }, [])
    | some pos =>
      let tail := d.drop pos
      match parseHeadBytes (d.take pos) with
      | none => (fail { s with client := { s.client with bad := true } }, [])
      | some h =>
        match convertResponse s.ver s.method h with
        | none => (fail { s with client := { s.client with bad := true } }, [])
        | some (kept, bl) =>
          if 100 ≤ h.status ∧ h.status < 200 then
            ({ s with phase := .waitingResponse [],
                      client := if s.ver.isH1 then { s.client with interims := s.client.interims ++ [h.status] } else s.client },
             tail)
          else
            let eof := bl == some (.determined 0)
            let s := { s with client := { s.client with head := some (h.status, eof, kept) } }
            let phase := match bl with
              | some .chunked => Phase.chunkPrefix []
              | some (.determined n) => .nonEncoded (some n) 0
              | none => .nonEncoded none 0
            ({ s with phase := phase, fakeUnsent := !tail.isEmpty }, tail)
  | .nonEncoded len sent =>
    match len with
    | some n =>
      if n ≤ sent then (fail s, [])
      else
        let toSend := min data.length (n - sent)
        if toSend == 0 then (s, data) else
        let (s, k) := clientWrite s (data.take toSend)
        let s := { s with phase := .nonEncoded (some n) (sent + k) }
        let s := if sent + k == n then clientEof s else s
        (s, data.drop k)
    | none =>
      if data.isEmpty then (s, data) else
      let (s, k) := clientWrite s data
      ({ s with phase := .nonEncoded none (sent + k) }, data.drop k)
  | .chunkPrefix buf =>
    let d := buf ++ data
    match parseChunkSize d with
    | .incomplete => ({ s with phase := .chunkPrefix d }, [])
    | .invalid => (fail s, [])
    | .complete pos size =>
      let tail := d.drop pos
      let phase := if size == 0 then Phase.chunkSuffix [] true else .chunkBody size
      ({ s with phase := phase, fakeUnsent := !tail.isEmpty }, tail)
  | .chunkBody remaining =>
    let toSend := min data.length remaining
    let (s, k) := clientWrite s (data.take toSend)
    let rem := remaining - k
    let phase := if rem > 0 then Phase.chunkBody rem else .chunkSuffix [] false
    ({ s with phase := phase, fakeUnsent := (k == toSend) && (k < data.length) }, data.drop k)
  | .chunkSuffix buf terminating =>
    let need := 2 - buf.length
    let suffix := buf ++ data.take need
    let rest := data.drop need
    if suffix != [13, 10].take suffix.length then (fail s, [])
    else if suffix.length < 2 then ({ s with phase := .chunkSuffix suffix terminating }, rest)
    else if terminating then (clientEof { s with phase := .idle }, [])
    else ({ s with phase := .chunkPrefix [] }, rest)

/-- `wait_writable` as the pipe sees it: `false` = error (the pipe ends). While waiting for a
response (bytes were handed back after an interim response) it waits for the client side to take
that interim response, which it eventually does. -/
def Sink.waitWritable (s : Sink) : Sink × Bool :=
  if s.fakeUnsent then ({ s with fakeUnsent := false }, true)
  else match s.phase with
    | .idle => (s, false)
    | _ => (s, true)

/-- `SimplexPipe::exchange` on one segment: write; while unsent, wait and write the rest.
`fuel`: every round either shortens the data or uses up one script entry. -/
def offerLoop : Nat → Sink → Bytes → Sink
  | 0, s, _ => s
  | fuel + 1, s, data =>
    if s.failed then s else
    let (s, unsent) := s.write data
    if s.failed || unsent.isEmpty then s else
    let (s, ok) := s.waitWritable
    if !ok then fail s else offerLoop fuel s unsent

def offer (s : Sink) (seg : Bytes) : Sink :=
  if seg.isEmpty then s else offerLoop (seg.length + s.quotas.length + 2) s seg

/-- the origin closes: `ForwardedStreamSink::eof` -/
def Sink.eof (s : Sink) : Sink :=
  if s.failed then s else
  match s.phase with
  | .idle => s
  | .waitingResponse _ => { s with phase := .idle, client := { s.client with bad := true } }
  | _ => clientEof { s with phase := .idle }

def feed (s : Sink) (segs : List Bytes) : Sink := segs.foldl offer s

/-! ## what an observer compares -/

structure View where
  interims : List Nat
  head : Option (Nat × Bool × List (Bytes × Bytes))
  body : Bytes
  /-- where the first end-of-stream reached the client (in delivered bytes) -/
  firstEof : Option Nat
  bad : Bool
  failed : Bool
  deriving DecidableEq, Repr

def Sink.view (s : Sink) : View :=
  { interims := s.client.interims, head := s.client.head, body := s.client.body,
    firstEof := s.client.eofs.head?, bad := s.client.bad, failed := s.failed }

/-! ## encoders for well-formed origin streams (round-trip statements) -/

def hexDigits : Nat → Nat → Bytes
  | 0, _ => []
  | fuel + 1, n =>
    let d := n % 16
    let c := if d < 10 then 48 + d else 87 + d
    if n / 16 == 0 then [c] else hexDigits fuel (n / 16) ++ [c]

def toHexBytes (n : Nat) : Bytes := hexDigits 17 n

/-- one chunk with an optional extension (no CR in it) -/
def encodeChunk (ext : Bytes) (payload : Bytes) : Bytes :=
  toHexBytes payload.length ++ (if ext.isEmpty then [] else 59 :: ext) ++ [13, 10] ++ payload ++ [13, 10]

def encodeChunked (chunks : List (Bytes × Bytes)) : Bytes :=
  (chunks.map fun c => encodeChunk c.1 c.2).flatten ++ str "0\r\n\r\n"

/-! ## request side -/

structure Request where
  ver : Ver
  method : Bytes
  /-- `uri.path_and_query()` -/
  target : Bytes
  /-- `uri.authority()` -/
  authority : Bytes
  /-- lower-case names, in order -/
  headers : List (Bytes × Bytes)
  deriving Repr

inductive SerRes where
  | ok (bytes : Bytes) (body : BodyLen)
  | refused
  deriving DecidableEq, Repr

structure Ser where
  out : Bytes := []
  hostInserted : Bool := false
  bodyLen : Option BodyLen := none
  refused : Bool := false

def serHeader (authority : Bytes) (s : Ser) (h : Bytes × Bytes) : Ser :=
  let (n, v) := h
  if n == str "proxy-authorization" || n == str "proxy-connection" then s
  else if n == str "host" then
    if s.hostInserted then { s with refused := true }
    else { s with hostInserted := true, out := s.out ++ str "host: " ++ authority ++ [13, 10] }
  else
    let s := if n == str "content-length" then
        match s.bodyLen with
        | none => match parseDec v with
          | some k => { s with bodyLen := some (.determined k) }
          | none => { s with refused := true }
        | some (.determined _) => { s with refused := true }
        | some .chunked => s
      else if n == str "transfer-encoding" && v == str "chunked" then { s with bodyLen := some .chunked }
      else s
    { s with out := s.out ++ n ++ str ": " ++ v ++ [13, 10] }

def versionDigits : Ver → Bytes
  | .h10 => str "1.0"
  | _ => str "1.1"

/-- `serialize_request` -/
def serializeRequest (r : Request) : SerRes :=
  let line := r.method ++ [32] ++ (if r.method == str "OPTIONS" then str "*" else r.target) ++ str " HTTP/" ++ versionDigits r.ver ++ [13, 10]
  let s := r.headers.foldl (serHeader r.authority) {}
  if s.refused then .refused else
  let out := line ++ s.out ++ (if s.hostInserted then [] else str "host: " ++ r.authority ++ [13, 10]) ++ [13, 10]
  let bl := if isHead r.method then some (.determined 0)
            else match s.bodyLen with
              | some b => some b
              | none => if r.ver.isH1 then none else some .chunked
  .ok out (bl.getD (.determined 0))

/-- what reaches the origin of the client's body chunks (`ForwardedStreamSource::read_body`) -/
def forwardBody : BodyLen → Nat → List Bytes → Bytes
  | .chunked, _, chunks => chunks.flatten
  | .determined _, _, [] => []
  | .determined n, sent, c :: rest =>
    if sent < n then
      let k := min c.length (n - sent)
      c.take k ++ forwardBody (.determined n) (sent + k) rest
    else []

def forwardRequest (r : Request) (body : List Bytes) : Option Bytes :=
  match serializeRequest r with
  | .refused => none
  | .ok bytes bl => some (bytes ++ forwardBody bl 0 body)

/-! ## Flow-control credit of the forwarded request (`ForwardedStreamSource::consume`)

The pipe acknowledges what the origin-side sink accepted (`consume(n)`), in whatever pieces the sink
took it. The serialised request head was made up by the endpoint: its bytes must not be credited
to the client's request-body source (`skip_consume_bytes`), everything behind it must. -/

structure Credit where
  skip     : Nat   -- bytes of the serialised head not yet acknowledged
  released : Nat   -- credit handed on to the client's body source so far
  deriving DecidableEq, Repr

def Credit.consume (c : Credit) (n : Nat) : Credit :=
  let k := min c.skip n
  { skip := c.skip - k, released := c.released + (n - k) }

/-- the head of `head` bytes was read; then these acknowledgements arrive -/
def creditAfter (head : Nat) (acks : List Nat) : Credit :=
  acks.foldl Credit.consume ⟨head, 0⟩

end TT.Fwd
