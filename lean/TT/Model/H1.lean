import TT.Model.Bytes
import TT.Gen.Consts
/-
Model of `lib/src/http1_codec.rs` `Http1Codec::listen` (request-head accumulation, the tail
after the head as first payload chunk, upload forwarding, EOF) over an abstract head parser
(`httparse`), and of `encode_response`.
-/
namespace TT.H1
open TT

inductive PRes where
  | incomplete
  | complete (idx : Nat)
  | error
deriving Repr, DecidableEq

/-- the head parser (`httparse::Request::parse` + the conversions of `decode_request`) -/
structure Parser where
  parse : Bytes → PRes

/-- what the codec relies on: a complete head stays complete (same length) when more bytes
follow, its strict prefixes are incomplete (neither complete nor an error), and the reported
length lies within the input -/
def PrefixConsistent (p : Parser) : Prop :=
  ∀ b idx, p.parse b = .complete idx →
    0 < idx ∧ idx ≤ b.length ∧ (∀ ext, p.parse (b ++ ext) = .complete idx) ∧
    (∀ n, n < idx → p.parse (b.take n) = .incomplete)

/-- MAX_RAW_HEADERS_SIZE, taken from the source on every run -/
def headCap : Nat := TT.Gen.max_raw_headers_size

inductive Out where
  /-- a request was recognised: head bytes, tail (first payload chunk), reads not yet consumed -/
  | request (head tail : Bytes) (rest : List Bytes)
  | closed                    -- EOF before a complete head: graceful shutdown, `Ok(None)`
  | error                     -- parse error or head too long
  | starved (buffer : Bytes)  -- all scripted reads consumed, still waiting (the codec awaits input)
deriving Repr, DecidableEq

/-- the `WaitingRequest` part of `listen`: each iteration performs exactly one transport read
(`[]` = EOF) appended to the buffered partial head, then parses -/
def listenWaiting (p : Parser) : Bytes → List Bytes → Out
  | buf, [] => .starved buf
  | buf, r :: rs =>
    if r.isEmpty then .closed else
    let b := buf ++ r
    match p.parse b with
    | .complete idx => .request (b.take idx) (b.drop idx) rs
    | .incomplete => if b.length < headCap then listenWaiting p b rs else .error
    | .error => .error

/-- the `RequestInProgress` part: the buffered tail is delivered first (without reading), then
every read is forwarded as one upload chunk until EOF -/
def uploadChunks (tail : Bytes) (rest : List Bytes) : List Bytes :=
  (if tail.isEmpty then [] else [tail]) ++ rest.takeWhile (fun r => !r.isEmpty)

/-- loop iterations of `listen` and what each of them does: used for the no-spin statement -/
inductive Iter where
  | read        -- awaited the transport
  | deliver     -- handed buffered bytes on without reading
  | stop        -- returned
deriving Repr, DecidableEq

def itersWaiting (p : Parser) : Bytes → List Bytes → List Iter
  | _, [] => []
  | buf, r :: rs =>
    if r.isEmpty then [.read, .stop] else
    let b := buf ++ r
    match p.parse b with
    | .complete _ => [.read, .stop]
    | .incomplete => if b.length < headCap then .read :: itersWaiting p b rs else [.read, .stop]
    | .error => [.read, .stop]

/-- largest buffer held while waiting for a head -/
def maxBuffered (p : Parser) : Bytes → List Bytes → Nat
  | buf, [] => buf.length
  | buf, r :: rs =>
    if r.isEmpty then buf.length else
    let b := buf ++ r
    match p.parse b with
    | .incomplete => if b.length < headCap then max b.length (maxBuffered p b rs) else b.length
    | _ => b.length

/-! ### `encode_response` -/

def crlf : Bytes := [13, 10]

def encodeHeaders : List (Bytes × Bytes) → Bytes
  | [] => crlf
  | (n, v) :: rest => n ++ [58, 32] ++ v ++ crlf ++ encodeHeaders rest

/-- `HTTP/1.<minor> <code> <reason>\r\n` + headers + `\r\n` -/
def encodeResponse (minor : Nat) (code reason : Bytes) (headers : List (Bytes × Bytes)) : Bytes :=
  [72, 84, 84, 80, 47, 49, 46, 48 + minor, 32] ++ code ++ [32] ++ reason ++ crlf ++ encodeHeaders headers

/-- independent reader of a response head: status line and header lines up to the empty line -/
def splitLine : Bytes → Option (Bytes × Bytes)
  | [] => none
  | [_] => none
  | a :: b :: rest =>
    if a == 13 && b == 10 then some ([], rest)
    else match splitLine (b :: rest) with
      | some (l, r) => some (a :: l, r)
      | none => none

def readLines : Nat → Bytes → Option (List Bytes × Bytes)
  | 0, _ => none
  | fuel+1, b =>
    match splitLine b with
    | none => none
    | some (l, rest) =>
      if l.isEmpty then some ([], rest)
      else match readLines fuel rest with
        | some (ls, r) => some (l :: ls, r)
        | none => none

end TT.H1
