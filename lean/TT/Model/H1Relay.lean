import TT.Model.Bytes
/-
C08 — the relaying phase of an HTTP/1.1 session: `Http1Codec::listen` once the request was handed
on (`State::RequestInProgress`).  One loop iteration takes one *event*: what the `select!` over the
client's reads, the response channel and the end-of-response notification came up with.  The loop
either goes on, or the call returns - `Ok(None)` after `graceful_shutdown` (flush, shutdown of the
transport) or an error (the session is dropped, which closes the transport as well).

Modelled: which events end the call and how, what was handed to the upload side and what was
written to the client by then.  Not modelled: the scheduling inside tokio (which of two ready
branches `select!` takes) - the event list *is* that choice - and back-pressure (`reserve`,
`write_all_buf` suspend, they do not change what is relayed).
-/
namespace TT.H1Relay
open TT

/-- what one iteration of the relaying loop sees -/
inductive Ev where
  /-- the client sent these bytes (a non-empty read) -/
  | up (b : Bytes)
  /-- the client closed its sending side (a read of zero bytes) -/
  | clientEof
  /-- the read failed -/
  | readErr
  /-- the relay side dropped the upload source (the next `upload_tx.send` fails) -/
  | sourceGone
  /-- a chunk from the response sink; `ok = false`: writing it to the client failed -/
  | down (b : Bytes) (ok : Bool)
  /-- `eof()` on the response sink: the notification, with the chunk still queued behind it (if any) -/
  | relayEof (queued : Bytes)
  /-- every sender of the response channel is gone; `eofFired`: an `eof()` notification is pending -/
  | relayGone (eofFired : Bool)
  deriving DecidableEq, Repr

inductive End where
  | graceful   -- `Ok(None)`: flushed and shut down
  | failed     -- `Err(_)`
  deriving DecidableEq, Repr

structure St where
  srcOpen : Bool := true
  upload  : Bytes := []     -- handed to the upload side so far
  written : Bytes := []     -- written to the client so far
  deriving DecidableEq, Repr

/-- one iteration: the new state and, when the call returns, how -/
def step (s : St) : Ev → St × Option End
  | .up b =>
    if s.srcOpen then ({ s with upload := s.upload ++ b }, none) else (s, some .failed)
  | .clientEof => (s, some .graceful)
  | .readErr => (s, some .failed)
  | .sourceGone => ({ s with srcOpen := false }, none)
  | .down b ok => if ok then ({ s with written := s.written ++ b }, none) else (s, some .failed)
  | .relayEof q => ({ s with written := s.written ++ q }, some .graceful)
  | .relayGone fired => (s, some (if fired then .graceful else .failed))

/-- the call: events are taken until one ends it; `none`: still relaying when the list ran out -/
def run (s : St) : List Ev → St × Option End
  | [] => (s, none)
  | e :: es =>
    match step s e with
    | (s', some r) => (s', some r)
    | (s', none) => run s' es

/-- the events after which the call cannot go on: either side closed, or an I/O error -/
def Ev.closes : Ev → Bool
  | .clientEof | .readErr | .relayEof _ | .relayGone _ => true
  | _ => false

/-- events that never end the call from a state whose upload side is open -/
def Ev.relays : Ev → Bool
  | .up _ | .down _ true => true
  | _ => false

def ups : List Ev → Bytes
  | [] => []
  | .up b :: es => b ++ ups es
  | _ :: es => ups es

def downs : List Ev → Bytes
  | [] => []
  | .down b true :: es => b ++ downs es
  | _ :: es => downs es

end TT.H1Relay
