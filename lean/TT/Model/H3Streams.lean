/-
The stream table of `http3_codec.rs` (`Http3Codec::streams`): one entry per request stream with two
flags, `read_shutdown` and `write_shutdown`; an entry whose two directions are shut down is removed
(`on_stream_shutdown`). Operations, as the codec's loop performs them:

* `request id`       - `on_request`: `HashMap::insert` of a fresh entry
* `readFinished id`  - the client ended its sending side (h3 `Finished`): the reader is woken up,
                       the table is not touched (fix 51c0759; before it this was `close`)
* `close id`         - the client reset the stream: `on_stream_shutdown(id, None)`
* `shutdown id dir`  - a message from the stream's source / sink halves (dropped, or response sent
                       with end of stream): `on_stream_shutdown(id, dir)`; an unknown id is an error
                       and the loop then calls `on_stream_shutdown(id, None)` (`failed`), which
                       changes nothing either
-/
namespace TT.H3Streams

structure Entry where
  id : Nat
  readShut : Bool
  writeShut : Bool
deriving Repr, DecidableEq

abbrev Table := List Entry

inductive Dir where
  | read | write | both
deriving Repr, DecidableEq

inductive Op where
  | request (id : Nat)
  | readFinished (id : Nat)
  | close (id : Nat)
  | shutdown (id : Nat) (d : Dir)
  | failed (id : Nat)
deriving Repr, DecidableEq

def Dir.closesRead : Dir → Bool
  | .read | .both => true
  | .write => false

def Dir.closesWrite : Dir → Bool
  | .write | .both => true
  | .read => false

/-- `on_stream_shutdown` -/
def shutdownStream (t : Table) (id : Nat) (d : Dir) : Table :=
  match t.find? (fun e => e.id == id) with
  | none => t
  | some e =>
    let r := e.readShut || d.closesRead
    let w := e.writeShut || d.closesWrite
    if r && w then t.filter (fun x => x.id != id)
    else t.map (fun x => if x.id == id then { x with readShut := r, writeShut := w } else x)

def step (t : Table) : Op → Table
  | .request id => t.filter (fun x => x.id != id) ++ [⟨id, false, false⟩]
  | .readFinished _ => t
  | .close id => shutdownStream t id .both
  | .shutdown id d => shutdownStream t id d
  | .failed id => shutdownStream t id .both

def run (t : Table) (ops : List Op) : Table := ops.foldl step t

end TT.H3Streams
