import TT.Model.Bytes
import TT.Model.Ip
/-
Model of the ICMP path:
  * `net_utils::rfc1071_checksum`, `icmp_utils::Echo::serialize`
  * `net_utils::skip_ipv4_header` / `skip_ipv6_header`
  * `icmp_utils::{v4,v6}::Message::deserialize` and `responded_echo_request`
  * `net_utils::get_fixed_size_ip` / `put_fixed_size_ip`
  * `http_icmp_codec::Decoder` (PROTOCOL.md 7.3) and `Encoder` (7.4)
  * the waiter table of `icmp_forwarder::IcmpForwarder`
-/
namespace TT.Icmp
open TT TT.Bytes

/-! ### RFC 1071 checksum -/

/-- sum of big-endian 16-bit words, an odd trailing byte is the high byte of a last word -/
def sumWords : Bytes → Nat
  | [] => 0
  | [a] => a * 256
  | a :: b :: rest => a * 256 + b + sumWords rest

/-- the same accumulation in `u32` wrapping arithmetic, as the Rust loop performs it
(release build; a debug build would panic on overflow instead) -/
def sumWords32 : Bytes → Nat → Nat
  | [], acc => acc
  | [a], acc => (acc + a * 256) % 4294967296
  | a :: b :: rest, acc => sumWords32 rest ((((acc + a * 256) % 4294967296) + b) % 4294967296)

/-- `while sum >> 16 != 0 { sum = (sum >> 16) + (sum & 0xffff) }` -/
def fold16 (n : Nat) : Nat :=
  if h : n < 65536 then n else fold16 (n / 65536 + n % 65536)
termination_by n
decreasing_by omega

/-- `net_utils::rfc1071_checksum` -/
def checksum (bs : Bytes) : Nat := 65535 - fold16 (sumWords32 bs 0)

/-- `Echo::serialize(type_id)` -/
structure Echo where
  code : Nat
  id : Nat
  seq : Nat
  data : Bytes
deriving Repr, DecidableEq

def Echo.serialize0 (e : Echo) (typeId : Nat) : Bytes :=
  typeId :: 0 :: 0 :: 0 :: (u16be e.id ++ u16be e.seq ++ e.data)

def Echo.serialize (e : Echo) (typeId : Nat) : Bytes :=
  let c := checksum (e.serialize0 typeId)
  typeId :: 0 :: (u16be c ++ (u16be e.id ++ u16be e.seq ++ e.data))

/-- receiver-side verification (RFC 1071): the one's-complement sum of the whole message,
checksum field included, folds to 0xFFFF -/
def verifies (pkt : Bytes) : Bool := fold16 (sumWords pkt) == 65535

/-! ### IP header skipping -/

/-- `net_utils::skip_ipv4_header`; `ok none` = graceful `None` -/
def skipIpv4Header (p : Bytes) : Res (Option (Nat × Bytes)) :=
  if p.length < 20 then .ok none else
  match getU8 p with
  | .panic => .panic
  | .ok (x, p) =>
    let headerLength := (x % 16) * 4 % 256   -- `(x & 0x0f) * 4` in `u8`
    if headerLength < 20 || headerLength > p.length + 1 then .ok none else
    match advance 8 p with
    | .panic => .panic
    | .ok p =>
      match getU8 p with
      | .panic => .panic
      | .ok (proto, p) =>
        match advance (10 + (headerLength - 20)) p with
        | .panic => .panic
        | .ok p => .ok (some (proto, p))

/-- the extension-header loop of `skip_ipv6_header`; `fuel` bounds the iterations (each one
consumes at least 8 bytes, so `p.length` is always enough) -/
def skipIpv6Ext : Nat → Nat → Bytes → Res (Option (Nat × Bytes))
  | 0, _, _ => .ok none
  | fuel+1, proto, p =>
    if proto == 0 || proto == 43 || proto == 60 then     -- HOPOPTS / ROUTING / DSTOPTS
      if p.length < 2 then .ok none else
      match getU8 p with
      | .panic => .panic
      | .ok (next, p) =>
        match getU8 p with
        | .panic => .panic
        | .ok (n, p) =>
          let len := (n + 1) * 8 - 2
          if p.length < len then .ok none else
          match advance len p with
          | .panic => .panic
          | .ok p => skipIpv6Ext fuel next p
    else if proto == 44 then                             -- FRAGMENT
      if p.length < 8 then .ok none else
      match getU8 p with
      | .panic => .panic
      | .ok (next, p) =>
        match advance 7 p with
        | .panic => .panic
        | .ok p => skipIpv6Ext fuel next p
    else .ok (some (proto, p))

/-- `net_utils::skip_ipv6_header` -/
def skipIpv6Header (p : Bytes) : Res (Option (Nat × Bytes)) :=
  if p.length < 40 then .ok none else
  match advance 6 p with
  | .panic => .panic
  | .ok p =>
    match getU8 p with
    | .panic => .panic
    | .ok (proto, p) =>
      match advance 33 p with
      | .panic => .panic
      | .ok p => skipIpv6Ext (p.length + 1) proto p

/-! ### ICMP message deserialisation (`deserialize_packet!` + `parse_*`) -/

inductive Msg where
  | echo (typeId : Nat) (e : Echo)             -- v4 Echo(8)/EchoReply(0), v6 EchoRequest(128)/EchoReply(129)
  | err (typeId code : Nat) (data : Bytes)     -- error messages that quote the offending packet
  | other (typeId code : Nat)                  -- timestamp / information
deriving Repr, DecidableEq

inductive Deser where
  | ok (m : Msg)
  | rejected                                   -- `Err(DeserializeError)`
  | panic
deriving Repr, DecidableEq

/-- `parse_echo` on the bytes after type, code and checksum -/
def parseEcho (typeId code : Nat) (p : Bytes) : Deser :=
  match getU16 p with
  | .panic => .panic
  | .ok (id, p) =>
    match getU16 p with
    | .panic => .panic
    | .ok (seq, p) => .ok (.echo typeId ⟨code, id, seq, p⟩)

/-- body of `deserialize_packet!` after the length check: `get_u8` (code), `split_off(2)` -/
def afterType (p : Bytes) (k : Nat → Bytes → Deser) : Deser :=
  match getU8 p with
  | .panic => .panic
  | .ok (code, p) =>
    match splitOff 2 p with
    | .panic => .panic
    | .ok (rest, _) => k code rest

/-- error bodies: 4 bytes (unused / pointer / mtu / gateway) then the quoted packet -/
def parseErr (typeId : Nat) (codeOk : Nat → Bool) (code : Nat) (p : Bytes) : Deser :=
  if !codeOk code then .rejected else
  match splitOff 4 p with
  | .panic => .panic
  | .ok (data, _) => .ok (.err typeId code data)

def parseTimestamp (typeId code : Nat) (p : Bytes) : Deser :=
  match getU16 p with
  | .panic => .panic
  | .ok (_, p) => match getU16 p with
    | .panic => .panic
    | .ok (_, p) => match getU32 p with
      | .panic => .panic
      | .ok (_, p) => match getU32 p with
        | .panic => .panic
        | .ok (_, p) => match getU32 p with
          | .panic => .panic
          | .ok _ => .ok (.other typeId code)

def parseInformation (typeId code : Nat) (p : Bytes) : Deser :=
  match getU16 p with
  | .panic => .panic
  | .ok (_, p) => match getU16 p with
    | .panic => .panic
    | .ok _ => .ok (.other typeId code)

/-- `icmp_utils::v4::Message::deserialize` -/
def deserializeV4 (pkt : Bytes) : Deser :=
  match pkt with
  | [] => .rejected
  | t :: p =>
    let m := 1 + p.length
    let lower (n : Nat) (k : Nat → Bytes → Deser) : Deser := if m < n then .rejected else afterType p k
    let exact (n : Nat) (k : Nat → Bytes → Deser) : Deser := if n != m then .rejected else afterType p k
    if t == 0 then lower 8 (parseEcho 0)
    else if t == 3 then lower 36 (parseErr 3 (fun c => c ≤ 5))
    else if t == 4 then lower 36 (parseErr 4 (fun _ => true))
    else if t == 5 then lower 36 (parseErr 5 (fun _ => true))
    else if t == 8 then lower 8 (parseEcho 8)
    else if t == 11 then lower 36 (parseErr 11 (fun c => c ≤ 1))
    else if t == 12 then lower 36 (parseErr 12 (fun _ => true))
    else if t == 13 then exact 20 (parseTimestamp 13)
    else if t == 14 then exact 20 (parseTimestamp 14)
    else if t == 15 then exact 20 (parseInformation 15)
    else if t == 16 then exact 20 (parseInformation 16)
    else .rejected

/-- `icmp_utils::v6::Message::deserialize` -/
def deserializeV6 (pkt : Bytes) : Deser :=
  match pkt with
  | [] => .rejected
  | t :: p =>
    let m := 1 + p.length
    let lower (n : Nat) (k : Nat → Bytes → Deser) : Deser := if m < n then .rejected else afterType p k
    if t == 1 then lower 48 (parseErr 1 (fun c => c ≤ 6))
    else if t == 2 then lower 48 (parseErr 2 (fun _ => true))
    else if t == 3 then lower 48 (parseErr 3 (fun c => c ≤ 1))
    else if t == 4 then lower 48 (parseErr 4 (fun _ => true))
    else if t == 128 then lower 8 (parseEcho 128)
    else if t == 129 then lower 8 (parseEcho 129)
    else .rejected

/-- result of `responded_echo_request` -/
inductive Resp where
  | some (e : Echo)
  | none
  | panic
deriving Repr, DecidableEq

/-- quoted-packet branch shared by v4 and v6: skip the IP header, require protocol and an echo
request type, then `deserialize_packet!(parse_echo, LowerBound(8))` -/
def quotedEcho (skipped : Res (Option (Nat × Bytes))) (wantProto wantType : Nat) : Resp :=
  match skipped with
  | .panic => .panic
  | .ok none => .none
  | .ok (some (proto, payload)) =>
    match payload with
    | [] => .none
    | t :: p =>
      if proto != wantProto || t != wantType then .none else
      if 1 + p.length < 8 then .none else
      match afterType p (parseEcho wantType) with
      | .ok (.echo _ e) => .some e
      | .panic => .panic
      | _ => .none

/-- `v4::Message::responded_echo_request` -/
def respondedV4 : Msg → Resp
  | .echo 0 e => .some e
  | .echo _ _ => .none
  | .err _ _ data => quotedEcho (skipIpv4Header data) 1 8
  | .other _ _ => .none

/-- `v6::Message::responded_echo_request` -/
def respondedV6 : Msg → Resp
  | .echo 129 e => .some e
  | .echo _ _ => .none
  | .err _ _ data => quotedEcho (skipIpv6Header data) 58 128
  | .other _ _ => .none

/-! ### fixed-size addresses (PROTOCOL.md 6.3/6.4/7.3/7.4) -/

/-- `net_utils::get_fixed_size_ip` on exactly 16 bytes (the caller `split_to(16)`s) -/
def fixedIpOf (b : Bytes) : Ip.Ip :=
  match b with
  | [b0, b1, b2, b3, b4, b5, b6, b7, b8, b9, b10, b11, b12, b13, b14, b15] =>
    if b0 == 0 && b1 == 0 && b2 == 0 && b3 == 0 && b4 == 0 && b5 == 0 && b6 == 0 && b7 == 0
        && b8 == 0 && b9 == 0 && b10 == 0 && b11 == 0 then .v4 b12 b13 b14 b15
    else .v6 ⟨b0 * 256 + b1, b2 * 256 + b3, b4 * 256 + b5, b6 * 256 + b7,
              b8 * 256 + b9, b10 * 256 + b11, b12 * 256 + b13, b14 * 256 + b15⟩
  | _ => .v4 0 0 0 0   -- unreachable: callers pass exactly 16 bytes

def getFixedIp (b : Bytes) : Res (Ip.Ip × Bytes) :=
  match splitTo 16 b with
  | .panic => .panic
  | .ok (ip, rest) => .ok (fixedIpOf ip, rest)

/-- `net_utils::put_fixed_size_ip` -/
def putFixedIp : Ip.Ip → Bytes
  | .v4 a b c d => [0, 0, 0, 0, 0, 0, 0, 0, 0, 0, 0, 0, a, b, c, d]
  | .v6 x => u16be x.s0 ++ u16be x.s1 ++ u16be x.s2 ++ u16be x.s3 ++ u16be x.s4 ++ u16be x.s5 ++ u16be x.s6 ++ u16be x.s7

/-! ### 7.3 request decoder (`http_icmp_codec::Decoder`) -/

def reqSize : Nat := 23

structure Request where
  id : Nat
  dest : Ip.Ip
  seq : Nat
  ttl : Nat
  dataSize : Nat
deriving Repr, DecidableEq

/-- field extraction from one complete 23-byte record (`decode_chunk` after `on_message_chunk`) -/
def parseRequest (raw : Bytes) : Res Request :=
  match getU16 raw with
  | .panic => .panic
  | .ok (id, raw) =>
    match getFixedIp raw with
    | .panic => .panic
    | .ok (dest, raw) =>
      match getU16 raw with
      | .panic => .panic
      | .ok (seq, raw) =>
        match getU8 raw with
        | .panic => .panic
        | .ok (ttl, raw) =>
          match getU16 raw with
          | .panic => .panic
          | .ok (size, _) => .ok ⟨id, dest, seq, ttl, size⟩

inductive ChunkOut where
  | wantMore (buffer : Bytes)
  | complete (raw tail : Bytes)
  | panic
deriving Repr, DecidableEq

/-- `Decoder::on_message_chunk` (state = `buffer`); the two `assert!`s are modelled -/
def onMessageChunk (buffer chunk : Bytes) : ChunkOut :=
  if !buffer.isEmpty || buffer.length + chunk.length < reqSize then
    let n := min chunk.length (reqSize - buffer.length)
    let buffer' := buffer ++ chunk.take n
    let chunk' := chunk.drop n
    if !(buffer'.length ≤ reqSize) then .panic
    else if buffer'.length < reqSize then
      (if !chunk'.isEmpty then .panic else .wantMore buffer')
    else .complete buffer' chunk'
  else
    .complete (chunk.take reqSize) (chunk.drop reqSize)

/-- `DatagramDecoder::read` glue over a list of chunks: pending tail is re-queued in front.
Returns the decoded requests in order and the final decoder buffer; `none` on panic.
`fuel` bounds the number of decode calls (each consumes a chunk or emits a record). -/
def decodeStream : Nat → Bytes → List Bytes → List Request → Option (List Request × Bytes)
  | 0, buffer, _, acc => some (acc.reverse, buffer)
  | _+1, buffer, [], acc => some (acc.reverse, buffer)
  | fuel+1, buffer, chunk :: rest, acc =>
    match onMessageChunk buffer chunk with
    | .panic => none
    | .wantMore b => decodeStream fuel b rest acc
    | .complete raw tail =>
      match parseRequest raw with
      | .panic => none
      | .ok r => decodeStream fuel [] (if tail.isEmpty then rest else tail :: rest) (r :: acc)

/-- specification: the stream is a concatenation of 23-byte records -/
def specDecode : Nat → Bytes → List Request
  | 0, _ => []
  | fuel+1, s =>
    if s.length < reqSize then [] else
    match parseRequest (s.take reqSize) with
    | .ok r => r :: specDecode fuel (s.drop reqSize)
    | .panic => []

/-- the echo message the endpoint sends for a request (`decode_chunk`): type 8 for an IPv4
destination, 128 for IPv6; `data` is `dataSize` random bytes (an input of the model) -/
def requestType (r : Request) : Nat := if r.dest.isV6 then 128 else 8

/-- what leaves the endpoint for a request (`IcmpSink::write`: `set_socket_ttl`, then `send_to`): the echo
message of `requestType` with the record's identifier and sequence number and `dataSize` data bytes, sent
to the record's destination with the record's TTL (IPv4) / hop limit (IPv6) -/
structure Outgoing where
  dest : Ip.Ip
  hopLimit : Nat
  typeId : Nat
  id : Nat
  seq : Nat
  dataLen : Nat
deriving Repr, DecidableEq

def outgoing (r : Request) : Outgoing := ⟨r.dest, r.ttl, requestType r, r.id, r.seq, r.dataSize⟩

/-! ### 7.4 reply encoder (`http_icmp_codec::Encoder::encode_packet`) -/

def Msg.typeId : Msg → Nat
  | .echo t _ => t
  | .err t _ _ => t
  | .other t _ => t

def Msg.code : Msg → Nat
  | .echo _ e => e.code
  | .err _ c _ => c
  | .other _ c => c

inductive Enc where
  | some (b : Bytes)
  | none
  | panic
deriving Repr, DecidableEq

def encodeReply (v6 : Bool) (peer : Ip.Ip) (m : Msg) : Enc :=
  match (if v6 then respondedV6 m else respondedV4 m) with
  | .panic => .panic
  | .none => .none
  | .some e => .some (u16be e.id ++ putFixedIp peer ++ [m.typeId, m.code] ++ u16be e.seq)

/-! ### waiter table (`IcmpForwarder`) -/

/-- `Echo::eq`: identifier and sequence equal and one data is a prefix of the other -/
def echoKeyEq (a b : Echo) : Bool :=
  a.id == b.id && a.seq == b.seq &&
    (if a.data.length ≥ b.data.length then b.data.isPrefixOf a.data else a.data.isPrefixOf b.data)

structure Waiter where
  key : Echo
  client : Nat
  deadline : Nat
deriving Repr, DecidableEq

structure Table where
  waiters : List Waiter := []
  /-- `deadlines`: every (deadline, key) ever scheduled and not yet swept -/
  deadlines : List (Nat × Echo) := []
deriving Repr

/-- `IcmpSink::write` after a successful send: `HashMap::insert` replaces the value of an equal
key (the stored key is kept), and a deadline entry is appended -/
def Table.send (t : Table) (client : Nat) (e : Echo) (now timeout : Nat) : Table :=
  let dl := now + timeout
  let ws :=
    if t.waiters.any (fun w => echoKeyEq w.key e) then
      t.waiters.map (fun w => if echoKeyEq w.key e then { w with client := client, deadline := dl } else w)
    else t.waiters ++ [⟨e, client, dl⟩]
  { waiters := ws, deadlines := t.deadlines ++ [(dl, e)] }

/-- `listen()`: a received message whose extracted request is `req` is delivered to the client
of the matching waiter, if any (`full` = that client's queue is full: waiter dropped) -/
def Table.recv (t : Table) (req : Echo) (full : Bool) : Table × Option Nat :=
  match t.waiters.find? (fun w => echoKeyEq w.key req) with
  | none => (t, none)
  | some w =>
    if full then ({ t with waiters := t.waiters.filter (fun w => !echoKeyEq w.key req) }, none)
    else (t, some w.client)

/-- `maintain_listeners` at time `now`: every deadline entry `≤ now` is removed together with
the waiter its key designates -/
def Table.tick (t : Table) (now : Nat) : Table :=
  let expired := t.deadlines.filter (fun d => d.1 ≤ now)
  { waiters := t.waiters.filter (fun w => !expired.any (fun d => echoKeyEq w.key d.2)),
    deadlines := t.deadlines.filter (fun d => !(d.1 ≤ now)) }

end TT.Icmp
