/-
Model of `lib/src/net_utils.rs` is_global_ipv4 / is_unicast_global_ipv6 / is_global_ipv6 /
is_global_ip and of the destination selection in `lib/src/tcp_forwarder.rs`
`TcpForwarder::connect`.  Import-free (core only) so that the driver links natively.

Octets and hextets are `Nat`; every theorem about them carries the range hypotheses
(`< 256`, `< 65536`) that the Rust types `u8` / `u16` guarantee.
-/
namespace TT.Ip

/-- big-endian packing of four octets (`u32::from_be_bytes`). -/
def toN (a b c d : Nat) : Nat := ((a * 256 + b) * 256 + c) * 256 + d

/-! ### std::net::Ipv4Addr predicates used by the classifier (transcribed from std 1.85) -/

/-- `Ipv4Addr::is_private`: 10/8, 172.16/12, 192.168/16 -/
def v4IsPrivate (a b : Nat) : Bool :=
  a == 10 || (a == 172 && (b &&& 0xf0) == 16) || (a == 192 && b == 168)

/-- `Ipv4Addr::is_loopback`: 127/8 -/
def v4IsLoopback (a : Nat) : Bool := a == 127

/-- `Ipv4Addr::is_link_local`: 169.254/16 -/
def v4IsLinkLocal (a b : Nat) : Bool := a == 169 && b == 254

/-- `Ipv4Addr::is_broadcast` -/
def v4IsBroadcast (a b c d : Nat) : Bool := a == 255 && b == 255 && c == 255 && d == 255

/-- `Ipv4Addr::is_documentation`: 192.0.2/24, 198.51.100/24, 203.0.113/24 -/
def v4IsDocumentation (a b c : Nat) : Bool :=
  (a == 192 && b == 0 && c == 2) || (a == 198 && b == 51 && c == 100) ||
  (a == 203 && b == 0 && c == 113)

/-- `net_utils::is_global_ipv4`, clause by clause. -/
def isGlobalV4 (a b c d : Nat) : Bool :=
  if toN a b c d == 0xc0000009 || toN a b c d == 0xc000000a then true
  else
    !v4IsPrivate a b
    && !v4IsLoopback a
    && !v4IsLinkLocal a b
    && !v4IsBroadcast a b c d
    && !v4IsDocumentation a b c
    && !(a == 100 && (b &&& 0xc0) == 0x40)
    && !(a == 192 && b == 0 && c == 0)
    && !((a &&& 240) == 240 && !v4IsBroadcast a b c d)
    && !(a == 198 && (b &&& 0xfe) == 18)
    && a != 0

/-! ### IPv6 -/

/-- eight 16-bit segments, `Ipv6Addr::segments()` order -/
structure V6 where
  s0 : Nat
  s1 : Nat
  s2 : Nat
  s3 : Nat
  s4 : Nat
  s5 : Nat
  s6 : Nat
  s7 : Nat
deriving DecidableEq, Repr

/-- `Ipv6Addr::is_multicast`: ff00::/8 -/
def v6IsMulticast (x : V6) : Bool := (x.s0 &&& 0xff00) == 0xff00

/-- `Ipv6Addr::is_loopback`: ::1 -/
def v6IsLoopback (x : V6) : Bool :=
  x.s0 == 0 && x.s1 == 0 && x.s2 == 0 && x.s3 == 0 && x.s4 == 0 && x.s5 == 0 && x.s6 == 0 && x.s7 == 1

/-- `Ipv6Addr::is_unspecified`: :: -/
def v6IsUnspecified (x : V6) : Bool :=
  x.s0 == 0 && x.s1 == 0 && x.s2 == 0 && x.s3 == 0 && x.s4 == 0 && x.s5 == 0 && x.s6 == 0 && x.s7 == 0

/-- `net_utils::is_unicast_global_ipv6` -/
def isUnicastGlobalV6 (x : V6) : Bool :=
  !(v6IsMulticast x
    || v6IsLoopback x
    || (x.s0 &&& 0xffc0) == 0xfe80
    || (x.s0 &&& 0xfe00) == 0xfc00
    || v6IsUnspecified x
    || (x.s0 == 0x2001 && x.s1 == 0xdb8))

/-- `Ipv6Addr::to_ipv4_mapped`: `::ffff:a.b.c.d` -/
def v6Mapped (x : V6) : Option (Nat × Nat × Nat × Nat) :=
  if x.s0 == 0 && x.s1 == 0 && x.s2 == 0 && x.s3 == 0 && x.s4 == 0 && x.s5 == 0xffff then
    some (x.s6 / 256, x.s6 % 256, x.s7 / 256, x.s7 % 256)
  else none

/-- `net_utils::is_global_ipv6` (after the C03 repair: mapped addresses are classified as
the IPv4 address they embed, the multicast scope nibble is consulted for multicast
addresses only). -/
def isGlobalV6 (x : V6) : Bool :=
  match v6Mapped x with
  | some (a, b, c, d) => isGlobalV4 a b c d
  | none =>
    if v6IsMulticast x then (x.s0 &&& 0x000f) == 0x0e
    else isUnicastGlobalV6 x

inductive Ip where
  | v4 (a b c d : Nat)
  | v6 (x : V6)
deriving DecidableEq, Repr

/-- `net_utils::is_global_ip` -/
def isGlobal : Ip → Bool
  | .v4 a b c d => isGlobalV4 a b c d
  | .v6 x => isGlobalV6 x

/-- `IpAddr::is_loopback` (note: false for `::ffff:127.0.0.1`, as in std) -/
def isLoopback : Ip → Bool
  | .v4 a _ _ _ => v4IsLoopback a
  | .v6 x => v6IsLoopback x

def Ip.isV6 : Ip → Bool
  | .v4 .. => false
  | .v6 _ => true

/-! ### `TcpForwarder::connect` destination selection -/

structure Sock where
  ip : Ip
  port : Nat
deriving DecidableEq, Repr

inductive Dest where
  /-- literal socket address in the authority -/
  | addr (a : Sock)
  /-- host name; the resolver's answer (in order) is an input of the model.
      `none` = resolver error -/
  | host (answers : Option (List Sock))

inductive Decision where
  | connect (a : Sock)
  | loopback          -- ConnectionError::DnsLoopback  (502 / 311)
  | nonroutable       -- ConnectionError::DnsNonroutable (502 / 310)
  | resolveFailed     -- io error from the resolver / "Resolved to empty list" (502 / 300)
deriving DecidableEq, Repr

inductive Sel where
  | loopback | nonroutable | suitable (a : Sock)
deriving DecidableEq, Repr

/-- the `for a in resolved` loop; `st` is `status` -/
def selectLoop (allow ipv6Avail : Bool) : Option Sel → List Sock → Option Sel
  | st, [] => st
  | st, a :: rest =>
    if a.ip.isV6 && !ipv6Avail then selectLoop allow ipv6Avail st rest
    else if isGlobal a.ip || allow then some (.suitable a)
    else if st.isNone && isLoopback a.ip then selectLoop allow ipv6Avail (some .loopback) rest
    else selectLoop allow ipv6Avail (some .nonroutable) rest

def connectDecision (allow ipv6Avail : Bool) : Dest → Decision
  | .addr a =>
    if !allow && !isGlobal a.ip then
      (if isLoopback a.ip then .loopback else .nonroutable)
    else .connect a
  | .host none => .resolveFailed
  | .host (some answers) =>
    match selectLoop allow ipv6Avail none answers with
    | none => .resolveFailed
    | some .loopback => .loopback
    | some .nonroutable => .nonroutable
    | some (.suitable a) => .connect a

/-! ### Specification side: IANA special-purpose blocks as closed intervals of packed addresses -/

/-- The blocks the property names, as `[lo, hi]` over `toN`.  192.0.0.0/24 is split around
the two globally routable addresses 192.0.0.9 and 192.0.0.10. -/
def v4BlockedTable : List (Nat × Nat) :=
  [ (0x00000000, 0x00ffffff)   -- 0.0.0.0/8        "this network" / unspecified
  , (0x0a000000, 0x0affffff)   -- 10.0.0.0/8       private
  , (0x64400000, 0x647fffff)   -- 100.64.0.0/10    shared (CGNAT)
  , (0x7f000000, 0x7fffffff)   -- 127.0.0.0/8      loopback
  , (0xa9fe0000, 0xa9feffff)   -- 169.254.0.0/16   link-local
  , (0xac100000, 0xac1fffff)   -- 172.16.0.0/12    private
  , (0xc0000000, 0xc0000008)   -- 192.0.0.0/24     reserved (IETF protocol assignments) ...
  , (0xc000000b, 0xc00000ff)   --                  ... except 192.0.0.9 and 192.0.0.10
  , (0xc0000200, 0xc00002ff)   -- 192.0.2.0/24     documentation
  , (0xc0a80000, 0xc0a8ffff)   -- 192.168.0.0/16   private
  , (0xc6120000, 0xc613ffff)   -- 198.18.0.0/15    benchmarking (reserved)
  , (0xc6336400, 0xc63364ff)   -- 198.51.100.0/24  documentation
  , (0xcb007100, 0xcb0071ff)   -- 203.0.113.0/24   documentation
  , (0xf0000000, 0xffffffff)   -- 240.0.0.0/4      reserved, and 255.255.255.255
  ]

def inTable (t : List (Nat × Nat)) (n : Nat) : Bool :=
  t.any (fun p => p.1 ≤ n && n ≤ p.2)

/-- spec: an IPv4 address is blocked iff it lies in one of the listed blocks -/
def v4Blocked (n : Nat) : Bool := inTable v4BlockedTable n

/-- spec for non-mapped unicast IPv6: blocked classes the property names -/
def v6UnicastBlocked (x : V6) : Bool :=
  v6IsLoopback x                               -- ::1
  || v6IsUnspecified x                         -- ::
  || (0xfe80 ≤ x.s0 && x.s0 ≤ 0xfebf)          -- fe80::/10 link-local
  || (0xfc00 ≤ x.s0 && x.s0 ≤ 0xfdff)          -- fc00::/7 unique-local
  || (x.s0 == 0x2001 && x.s1 == 0x0db8)        -- 2001:db8::/32 documentation

end TT.Ip
