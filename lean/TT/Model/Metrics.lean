/-
C16 — the metric cells and the objects they are meant to count.

The state keeps the live objects (client sessions holding a `ClientSessionsCounter`, tunnels
holding an `OutboundTcpSocketCounter` while connecting or open, UDP multiplexers with the sockets
of `TT.UdpFlows`) *and*, separately, the five metric cells. A transition updates the objects the
way the code paths do and touches a cell only where the code creates or drops a guard or calls
`update_metrics`; that the cells equal the object counts after every history is then a theorem,
not a definition.

Byte counters are kept by direction of travel (`up` = client -> peer, `dn` = peer -> client);
which exported series each feeds is calibrated by the correspondence suite and not fixed here.
-/
import TT.Model.UdpFlows
namespace TT.Metrics

inductive Proto where
  | h1 | h2 | h3
  deriving DecidableEq, Repr, Inhabited

/-- what a CONNECT asks for -/
inductive Target where
  | origin    -- a listening TCP origin
  | dead      -- a TCP port that refuses
  | hang      -- a TCP destination that never answers
  | udp       -- the UDP multiplexer
  | icmp      -- the ICMP multiplexer
  deriving DecidableEq, Repr, Inhabited

inductive TunState where
  /-- `TcpStream::connect` pending since `since`: the socket guard is already held -/
  | connecting (since : Nat)
  /-- relaying; `clientEnded`: the client half-closed; `orphan`: the client side is gone but the
      endpoint has not noticed (its next write towards the client fails); `originEnded`: the origin
      half-closed. The tunnel is over when both directions have ended. -/
  | open (clientEnded orphan originEnded : Bool)
  | mux (u : UdpFlows.St)
  /-- the ICMP multiplexer: no socket of its own (the forwarder's raw sockets are shared) -/
  | imux
  | closed
  deriving Repr, Inhabited

structure Tun where
  sess : Nat
  st : TunState
  deriving Repr, Inhabited

structure Sess where
  proto : Proto
  /-- the session task runs and holds its `ClientSessionsCounter` -/
  alive : Bool
  deriving Repr, Inhabited

structure Cfg where
  establish : Nat
  tcpIdle : Nat
  udp : UdpFlows.Cfg
  deriving Repr

/-- the metric cells -/
structure Cells where
  s1 : Int := 0
  s2 : Int := 0
  s3 : Int := 0
  tcp : Int := 0
  udp : Int := 0
  up1 : Nat := 0
  up2 : Nat := 0
  up3 : Nat := 0
  dn1 : Nat := 0
  dn2 : Nat := 0
  dn3 : Nat := 0
  deriving DecidableEq, Repr

structure St where
  now : Nat := 0
  sess : List Sess := []
  tuns : List Tun := []
  cells : Cells := {}
  deriving Repr

inductive Op where
  | sessOpen (p : Proto)
  | sessClose (s : Nat)
  | tunOpen (s : Nat) (k : Target)
  | up (t n : Nat)
  | down (t n : Nat)
  /-- `'g'` the client ends its stream, `'r'` the client resets it, `'s'` the origin closes -/
  | tunClose (t : Nat) (how : Char)
  | udpUp (t : Nat) (m : UdpFlows.Meta) (n : Nat)
  | udpDown (t : Nat) (m : UdpFlows.Meta) (n : Nat)
  /-- an echo request of `n` data bytes on ICMP multiplexer `t`; `answered`: it is sent and the
      reply comes back (false: the forwarder drops it, e.g. an IPv6 peer without IPv6) -/
  | icmpEcho (t : Nat) (answered : Bool) (n : Nat)
  | adv (ms : Nat)
  deriving Repr

/-! ### cell updates (the only places the cells change) -/

def Cells.sessInc (c : Cells) : Proto → Cells
  | .h1 => { c with s1 := c.s1 + 1 } | .h2 => { c with s2 := c.s2 + 1 } | .h3 => { c with s3 := c.s3 + 1 }
def Cells.sessDec (c : Cells) : Proto → Cells
  | .h1 => { c with s1 := c.s1 - 1 } | .h2 => { c with s2 := c.s2 - 1 } | .h3 => { c with s3 := c.s3 - 1 }
def Cells.tcpInc (c : Cells) : Cells := { c with tcp := c.tcp + 1 }
def Cells.tcpDec (c : Cells) : Cells := { c with tcp := c.tcp - 1 }
def Cells.addUp (c : Cells) (p : Proto) (n : Nat) : Cells :=
  match p with | .h1 => { c with up1 := c.up1 + n } | .h2 => { c with up2 := c.up2 + n } | .h3 => { c with up3 := c.up3 + n }
def Cells.addDn (c : Cells) (p : Proto) (n : Nat) : Cells :=
  match p with | .h1 => { c with dn1 := c.dn1 + n } | .h2 => { c with dn2 := c.dn2 + n } | .h3 => { c with dn3 := c.dn3 + n }
/-- UDP socket guards created / dropped by one multiplexer step -/
def Cells.udpDelta (c : Cells) (before after : UdpFlows.St) : Cells :=
  { c with udp := c.udp + (after.gauge : Int) - (before.gauge : Int) }

def protoOf (s : St) (i : Nat) : Proto := (s.sess.getD i default).proto
def aliveS (s : St) (i : Nat) : Bool := (s.sess.getD i default).alive

/-- the session task ends: its guard goes -/
def endSession (s : St) (i : Nat) : St :=
  if aliveS s i then
    { s with sess := s.sess.set i { (s.sess.getD i default) with alive := false },
             cells := s.cells.sessDec (protoOf s i) }
  else s


def setTun (s : St) (t : Nat) (st : TunState) : St :=
  { s with tuns := s.tuns.set t { (s.tuns.getD t default) with st := st } }

/-- close tunnel `t` whatever it holds, releasing its guards -/
def closeTun (s : St) (t : Nat) : St :=
  match (s.tuns.getD t default).st with
  | .connecting _ | .open _ _ _ => { setTun s t .closed with cells := s.cells.tcpDec }
  | .mux u => { setTun s t .closed with cells := s.cells.udpDelta u { u with socks := [] } }
  | .imux => setTun s t .closed
  | .closed => s

/-- the client side of session `i` is gone: what each of its tunnels does -/
def clientGone (s : St) (i : Nat) : St :=
  (List.range s.tuns.length).foldl (fun s t =>
    let tn := s.tuns.getD t default
    if tn.sess = i then
      match tn.st with
      -- the client's direction reads as ended: with the origin's ended too the tunnel is over,
      -- otherwise it lingers until a write towards the client fails or it idles out
      | .open _ _ true => closeTun s t
      -- HTTP/3: the request stream of a vanished client fails (no end-of-stream is synthesised as on HTTP/2), so a
      -- tunnel whose client direction was still open is torn down at once; one whose client had already ended lingers
      | .open ce _ false => if protoOf s i = .h3 && !ce then closeTun s t else setTun s t (.open ce true false)
      | .mux _ | .imux => closeTun s t             -- a multiplexer's source ends at once
      | _ => s                                      -- a pending connect keeps going
    else s) s

/-- an HTTP/1.1 session ends with its tunnel (the connection carries exactly one, so nothing of
that client is left behind) -/
def endIfH1 (s : St) (i : Nat) : St :=
  if protoOf s i = .h1 then clientGone (endSession s i) i else s

def muxInit (c : Cfg) (now : Nat) : UdpFlows.St :=
  { UdpFlows.init c.udp with now := now, nextTick := now + c.udp.timeout / 4 }

def stepMux (c : Cfg) (s : St) (t : Nat) (u : UdpFlows.St) (op : UdpFlows.Op) : St :=
  let u' := (UdpFlows.step c.udp u op).1
  let p := protoOf s (s.tuns.getD t default).sess
  let cells := ((s.cells.udpDelta u u').addUp p (u'.up - u.up)).addDn p (u'.down - u.down)
  { setTun s t (.mux u') with cells := cells }

def step (c : Cfg) (s : St) : Op → St
  | .sessOpen p =>
    { s with sess := s.sess ++ [{ proto := p, alive := true }], cells := s.cells.sessInc p }
  | .sessClose i => clientGone (endSession s i) i
  | .tunOpen i k =>
    -- HTTP/1.1 carries one tunnel per connection: a later request head is payload of that
    -- tunnel in the code (never sent by the suite; kept here as a placeholder only)
    if !aliveS s i || (protoOf s i = .h1 && s.tuns.any (·.sess = i)) then
      { s with tuns := s.tuns ++ [{ sess := i, st := .closed }] } else
    match k with
    | .origin => { s with tuns := s.tuns ++ [{ sess := i, st := .open false false false }], cells := s.cells.tcpInc }
    | .dead =>
      -- guard created for the attempt and dropped with its failure; 502; HTTP/1.1 closes
      endIfH1 { s with tuns := s.tuns ++ [{ sess := i, st := .closed }] } i
    | .hang => { s with tuns := s.tuns ++ [{ sess := i, st := .connecting s.now }], cells := s.cells.tcpInc }
    | .udp => { s with tuns := s.tuns ++ [{ sess := i, st := .mux (muxInit c s.now) }] }
    | .icmp => { s with tuns := s.tuns ++ [{ sess := i, st := .imux }] }
  | .up t n =>
    let tn := s.tuns.getD t default
    match tn.st with
    | .open false false _ => { s with cells := s.cells.addUp (protoOf s tn.sess) n }
    | _ => s
  | .down t n =>
    let tn := s.tuns.getD t default
    match tn.st with
    | .open _ false false => { s with cells := s.cells.addDn (protoOf s tn.sess) n }
    | .open _ true false => closeTun s t      -- the write towards the vanished client fails
    | .open _ _ true => s                     -- the origin has ended its stream: it sends nothing
    | _ => s
  | .tunClose t how =>
    let tn := s.tuns.getD t default
    let i := tn.sess
    if how = 's' then
      -- the origin half-closes: end of stream towards the client. HTTP/1.1: the connection is shut
      -- down and the session with it. HTTP/2: over only if the client's direction has ended too.
      match tn.st with
      | .open ce o false =>
        if protoOf s i = .h1 || ce || o then endIfH1 (closeTun s t) i
        else setTun s t (.open ce o true)
      | _ => s
    else if !aliveS s i then s      -- there is no client left to end or reset anything
    else if protoOf s i = .h1 then
      -- HTTP/1.1: ending or dropping the connection ends the session
      clientGone (endSession s i) i
    else if how = 'g' then
      match tn.st with
      | .open _ _ true => closeTun s t              -- both directions have ended
      | .open _ o false => setTun s t (.open true o false)
      | .mux _ | .imux => closeTun s t
      | _ => s
    else
      match tn.st with
      | .open false _ _ | .mux _ | .imux => closeTun s t
      | .open true _ true => closeTun s t
      -- a reset after the client already ended its stream is noticed only when the endpoint
      -- next writes to it
      | .open true _ false => setTun s t (.open true true false)
      | _ => s
  | .udpUp t m n =>
    match (s.tuns.getD t default).st with
    | .mux u => stepMux c s t u (.dg m n)
    | _ => s
  | .udpDown t m n =>
    match (s.tuns.getD t default).st with
    | .mux u => stepMux c s t u (.reply m n)
    | _ => s
  | .icmpEcho t answered n =>
    -- a datagram counts with its on-the-wire length (8-byte header + data) when the sink took it;
    -- a dropped one counts nothing
    let tn := s.tuns.getD t default
    match tn.st with
    | .imux =>
      if answered then
        let p := protoOf s tn.sess
        { s with cells := (s.cells.addUp p (8 + n)).addDn p (8 + n) }
      else s
    | _ => s
  | .adv ms =>
    let s := { s with now := s.now + ms }
    (List.range s.tuns.length).foldl (fun s t =>
      let tn := s.tuns.getD t default
      match tn.st with
      | .connecting since =>
        if since + c.establish ≤ s.now then endIfH1 (closeTun s t) tn.sess else s
      | .open _ _ _ =>
        if 2 * c.tcpIdle ≤ ms then endIfH1 (closeTun s t) tn.sess else s
      | .mux u => stepMux c s t u (.adv ms)
      | .imux => s
      | .closed => s) s

def run (c : Cfg) (s : St) (ops : List Op) : St := ops.foldl (step c) s

/-! ### the objects the cells are meant to count -/

def liveSessions (s : St) (p : Proto) : Nat := (s.sess.filter fun x => x.alive && x.proto == p).length
def liveTcp (s : St) : Nat :=
  (s.tuns.filter fun t => match t.st with | .connecting _ | .open _ _ _ => true | _ => false).length
def liveUdp (s : St) : Nat :=
  (s.tuns.map fun t => match t.st with | .mux u => u.gauge | _ => 0).sum

end TT.Metrics
