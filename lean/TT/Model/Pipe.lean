import TT.Model.Bytes
/-
Model of `lib/src/pipe.rs`.

Data plane: `SimplexPipe::exchange` as a *reactive machine*: `next` is the call the pipe issues
to its endpoints (source / sink / metrics callback) and `feed` consumes the endpoint's answer.
The environment (all chunkings, all partial-write quotas, all error positions, all timer
expirations that cancel and restart the loop) is the universally quantified answer sequence.

Timing plane: the idle-timer bookkeeping of `DuplexPipe::exchange` (per-direction `last_activity`,
per-iteration `tokio::time::timeout`, both-directions-idle test) over a virtual clock.
-/
namespace TT.Pipe
open TT

/-- what the pipe asks of its environment -/
inductive Call where
  | read                     -- source.read()
  | waitWritable             -- sink.wait_writable()
  | write (data : Bytes)     -- sink.write(data)
  | metrics (n : Nat)        -- update_metrics(direction, n)   (no answer needed: answered `unit`)
  | consume (n : Nat)        -- source.consume(n)
  | sinkEof                  -- sink.eof()
  | flush                    -- sink.flush()
deriving Repr, DecidableEq

/-- the environment's answer to the pending call -/
inductive Resp where
  | chunk (bs : Bytes)       -- read -> Data::Chunk
  | eof                      -- read -> Data::Eof
  | accepted (k : Nat)       -- write -> Ok(unsent) with `k` bytes taken (k ≤ data.length)
  | unit                     -- Ok(()) of wait_writable / consume / eof / flush, and the metrics callback
  | err                      -- Err(e) of whichever call is pending
  | timeout                  -- the iteration's timer fired while `read` / `wait_writable` was pending:
                             --   the future is dropped, `exchange` returns TimedOut and is called again
deriving Repr, DecidableEq

inductive Phase where
  | top                      -- loop head: read (no pending chunk) or wait_writable (pending chunk)
  | gotData (data : Bytes)   -- about to write `data`
  | wrote (sent : Nat) (rest : Bytes)   -- write returned; about to report metrics
  | metered (sent : Nat) (rest : Bytes) -- about to call consume(sent)
  | eofing                   -- about to call sink.eof()
  | flushing                 -- about to call sink.flush()
  | finished                 -- ExchangeOnceStatus::Finished
  | failed                   -- Err(_)
deriving Repr, DecidableEq

structure St where
  phase : Phase := .top
  pending : Option Bytes := none       -- `pending_chunk`
  /-- ghost: every byte the sink accepted, in order -/
  delivered : Bytes := []
  /-- ghost: every byte the source produced, in order -/
  readSoFar : Bytes := []
  /-- ghost: sum of `consume` arguments acknowledged / sum of metrics reports -/
  consumed : Nat := 0
  metered : Nat := 0
  sawEof : Bool := false
  /-- ghost: number of times the loop was cancelled by its timer and restarted -/
  restarts : Nat := 0
deriving Repr, DecidableEq

/-- the call the pipe issues in this state (`none` = the pipe has returned) -/
def next (s : St) : Option Call :=
  match s.phase with
  | .top => if s.pending.isNone then some .read else some .waitWritable
  | .gotData d => some (.write d)
  | .wrote sent _ => some (.metrics sent)
  | .metered sent _ => some (.consume sent)
  | .eofing => some .sinkEof
  | .flushing => some .flush
  | .finished => none
  | .failed => none

/-- the pipe's reaction to the environment's answer; answers that cannot occur for the pending
call (e.g. `chunk` while writing) are protocol violations of the *environment* and lead to `failed` -/
def feed (s : St) (r : Resp) : St :=
  match s.phase, r with
  | .top, .timeout => { s with restarts := s.restarts + 1 }
  | .top, .err => { s with phase := .failed }
  | .top, .chunk bs =>
    if s.pending.isNone then { s with phase := .gotData bs, readSoFar := s.readSoFar ++ bs } else { s with phase := .failed }
  | .top, .eof =>
    if s.pending.isNone then { s with phase := .eofing, sawEof := true } else { s with phase := .failed }
  | .top, .unit =>
    match s.pending with
    | some d => { s with phase := .gotData d, pending := none }
    | none => { s with phase := .failed }
  | .gotData d, .accepted k =>
    if k ≤ d.length then { s with phase := .wrote k (d.drop k), delivered := s.delivered ++ d.take k }
    else { s with phase := .failed }
  | .gotData _, .err => { s with phase := .failed }
  | .wrote sent rest, .unit => { s with phase := .metered sent rest, metered := s.metered + sent }
  | .metered sent rest, .unit =>
    { s with phase := .top, consumed := s.consumed + sent, pending := if rest.isEmpty then none else some rest }
  | .metered _ _, .err => { s with phase := .failed }
  | .eofing, .unit => { s with phase := .flushing }
  | .eofing, .err => { s with phase := .failed }
  | .flushing, .unit => { s with phase := .finished }
  | .flushing, .err => { s with phase := .failed }
  | _, _ => { s with phase := .failed }

def run (s : St) (rs : List Resp) : St := rs.foldl feed s

/-- the calls issued along an answer sequence, in order (for the log replay) -/
def calls : St → List Resp → List Call
  | _, [] => []
  | s, r :: rs =>
    match next s with
    | some c => c :: calls (feed s r) rs
    | none => []

def pendingBytes (s : St) : Bytes :=
  match s.phase with
  | .gotData d => d
  | .wrote _ rest => rest
  | .metered _ rest => rest
  | _ => s.pending.getD []

/-! ### duplex arbitration (`DuplexPipe::exchange_once` / `exchange`) -/

inductive Outcome where
  | running
  | ok            -- both directions finished: Ok(())
  | error         -- Err(e): a direction failed (or the survivor timed out)
deriving Repr, DecidableEq

structure Duplex where
  left : St := {}
  right : St := {}
  outcome : Outcome := .running
deriving Repr, DecidableEq

inductive Dir where
  | left | right
deriving Repr, DecidableEq

/-- one answer delivered to one direction.  After the outcome is decided nothing is fed any more
(the futures are dropped).  A `timeout` answer for a direction whose peer has already finished is
the `another.await` case: it ends the exchange with an error. -/
def dstep (d : Duplex) (who : Dir) (r : Resp) : Duplex :=
  if d.outcome != .running then d else
  let peer := match who with | .left => d.right | .right => d.left
  let me := match who with | .left => d.left | .right => d.right
  if next me == none then d else
  if r == .timeout && peer.phase == .finished then { d with outcome := .error } else
  let me' := feed me r
  let d' := match who with | .left => { d with left := me' } | .right => { d with right := me' }
  if me'.phase == .failed then { d' with outcome := .error }
  else if d'.left.phase == .finished && d'.right.phase == .finished then { d' with outcome := .ok }
  else d'

def drun (d : Duplex) (evs : List (Dir × Resp)) : Duplex := evs.foldl (fun d e => dstep d e.1 e.2) d

/-! ### idle timer (virtual clock, times in ms) -/

structure Timer where
  T : Nat
  laL : Nat        -- left_pipe.last_activity
  laR : Nat
  sL : Nat         -- start of the left direction's current `timeout(T, ..)` (loop iteration)
  sR : Nat
  expired : Option Nat := none   -- time at which `Err(TimedOut)` was returned
deriving Repr, DecidableEq

inductive TEv where
  /-- data obtained (read completed / sink became writable) on a direction at time `t` -/
  | progress (d : Dir) (t : Nat)
  /-- the per-iteration timer of a direction fires (at `s_d + T`) -/
  | fire (d : Dir)
deriving Repr, DecidableEq

/-- an event can occur in this state: progress on a direction arrives within that direction's
current iteration, no later than its timer (`t = s + T` still counts as progress: the inner
future is polled before the deadline) -/
def admissible (tm : Timer) : TEv → Bool
  | .progress .left t => tm.sL ≤ t && t ≤ tm.sL + tm.T
  | .progress .right t => tm.sR ≤ t && t ≤ tm.sR + tm.T
  -- a timer fires at `s + T`; time does not run backwards past the other direction's last transfer
  | .fire .left => tm.laR ≤ tm.sL + tm.T
  | .fire .right => tm.laL ≤ tm.sR + tm.T

def tstep (tm : Timer) (e : TEv) : Timer :=
  if tm.expired.isSome then tm else
  match e with
  | .progress .left t => { tm with laL := t, sL := t }
  | .progress .right t => { tm with laR := t, sR := t }
  | .fire d =>
    let c := (match d with | .left => tm.sL | .right => tm.sR) + tm.T
    if tm.laL + tm.T < c && tm.laR + tm.T < c then { tm with expired := some c }
    else { tm with sL := c, sR := c }     -- both loops are cancelled and restarted at `c`

def trun (tm : Timer) (es : List TEv) : Timer := es.foldl tstep tm

/-- a half-closed tunnel (`exchange_once` after one direction has finished: `another.await`): nothing but the surviving
direction's own per-iteration timer ends it, at the start of that direction's current iteration plus `T` -/
def survivorDeadline (tm : Timer) : Dir → Nat
  | .left => tm.sL + tm.T
  | .right => tm.sR + tm.T

def lastActivity (tm : Timer) : Dir → Nat
  | .left => tm.laL
  | .right => tm.laR

/-- with no further progress, the timers keep firing: the earlier of the two (left on a tie,
since it is polled first) -/
def idleFire (tm : Timer) : TEv := if tm.sL ≤ tm.sR then .fire .left else .fire .right

def idleRun : Nat → Timer → Timer
  | 0, tm => tm
  | n+1, tm => idleRun n (tstep tm (idleFire tm))

end TT.Pipe
