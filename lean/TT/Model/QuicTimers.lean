/-
The timer bookkeeping of `quic_multiplexer.rs`: one deadline per connection id (`deadlines`), and
`closest_deadline`, the instant the multiplexer's loop sleeps until (its timer branch is enabled
iff `closest_deadline` is `Some`).

* `update_connection_deadline` (after a datagram of the connection was processed): insert / replace
  the connection's deadline; `closest` moves only if the new deadline is earlier.
* `deadlines.remove` (handshake completed, connection closed).
* `process_timeouts` (every loop iteration): every deadline `≤ now` is removed, the connection's
  `on_timeout` runs, whatever it produced is sent and the connection's next timer - an input here,
  it is quiche's - is armed; then `closest` is re-computed as the minimum of what is left.

Instants are microseconds since an arbitrary origin.
-/
namespace TT.QuicTimers

abbrev Conn := String

structure St where
  deadlines : List (Conn × Nat) := []
  closest : Option Nat := none
deriving Repr, DecidableEq

inductive Op where
  | arm (c : Conn) (t : Nat)
  | remove (c : Conn)
  | tick (now : Nat) (rearm : List (Conn × Nat))
deriving Repr, DecidableEq

/-- `HashMap::insert`: one entry per connection -/
def put (d : List (Conn × Nat)) (c : Conn) (t : Nat) : List (Conn × Nat) :=
  d.filter (fun e => e.1 != c) ++ [(c, t)]

/-- `deadlines.values().min()` -/
def minDeadline : List (Conn × Nat) → Option Nat
  | [] => none
  | e :: rest =>
    match minDeadline rest with
    | none => some e.2
    | some m => some (min e.2 m)

def step (s : St) : Op → St
  | .arm c t =>
    { deadlines := put s.deadlines c t,
      closest := match s.closest with
        | none => some t
        | some x => if t < x then some t else some x }
  | .remove c => { s with deadlines := s.deadlines.filter (fun e => e.1 != c) }
  | .tick now rearm =>
    let kept := s.deadlines.filter (fun e => !(e.2 ≤ now))
    let d := rearm.foldl (fun d e => put d e.1 e.2) kept
    { deadlines := d, closest := minDeadline d }

def run (s : St) (ops : List Op) : St := ops.foldl step s

/-- the loop's timer branch is enabled -/
def St.timerEnabled (s : St) : Bool := s.closest.isSome

end TT.QuicTimers
