import TT.Model.Bytes
import TT.Model.Util
/-
Model of `lib/src/rules.rs` (`Rule::matches`, `RulesEngine::evaluate`) and of
`core.rs evaluate_connection_rules` (peer canonicalisation, accept-path ordering).
CIDR *parsing* stays in the `ipnet` crate: a rule's CIDR arrives here already parsed
(`net`), unparsable (`invalid`) or absent.
-/
namespace TT.Rules
open TT

inductive Action where
  | allow | deny
deriving Repr, DecidableEq

/-- addresses as integers: IPv4 in [0, 2^32), IPv6 in [0, 2^128) -/
inductive Addr where
  | v4 (n : Nat)
  | v6 (n : Nat)
deriving Repr, DecidableEq

inductive Cidr where
  | absent
  | invalid                                  -- `cidr_str.parse::<IpNet>()` failed
  | net (a : Addr) (len : Nat)               -- parsed network: address and prefix length
deriving Repr, DecidableEq

structure Rule where
  cidr : Cidr
  /-- `client_random_prefix`, raw text as written in the rules file -/
  pattern : Option (List Char)
  action : Action
deriving Repr, DecidableEq

/-- `IpNet::contains(&IpAddr)`: same family and equal leading `len` bits -/
def cidrContains (a : Addr) (len : Nat) (ip : Addr) : Bool :=
  match a, ip with
  | .v4 n, .v4 m => n / 2 ^ (32 - len) == m / 2 ^ (32 - len)
  | .v6 n, .v6 m => n / 2 ^ (128 - len) == m / 2 ^ (128 - len)
  | _, _ => false

/-- `hex::decode` on the characters of a `&str` -/
def hexDecode (s : List Char) : Option Bytes := hexDecodeChars s

/-- `str::find('/')` + `split_at` + skip the slash -/
def splitSlash : List Char → Option (List Char × List Char)
  | [] => none
  | c :: rest =>
    if c == '/' then some ([], rest)
    else match splitSlash rest with
      | some (a, b) => some (c :: a, b)
      | none => none

/-- the masked comparison loop over the first `n` bytes -/
def maskedEq : Nat → Bytes → Bytes → Bytes → Bool
  | 0, _, _, _ => true
  | n+1, r :: rs, m :: ms, p :: ps => (r &&& m) == (p &&& m) && maskedEq n rs ms ps
  | _+1, _, _, _ => true   -- unreachable: n ≤ all three lengths

/-- outcome of the client-random part of `Rule::matches`: `none` = early `return false` -/
def patternMatches (pat : List Char) (random : Bytes) : Option Bool :=
  match splitSlash pat with
  | some (pre, mask) =>
    match hexDecode pre, hexDecode mask with
    | some p, some m =>
      let n := min (min m.length p.length) random.length
      some (decide (n > 0) && maskedEq n random m p)
    | _, _ => none
  | none =>
    match hexDecode pat with
    | some p => some (p.isPrefixOf random)
    | none => none

/-- `Rule::matches` -/
def Rule.matches (r : Rule) (ip : Addr) (random : Option Bytes) : Bool :=
  match r.cidr with
  | .invalid => false
  | c =>
    let m1 := match c with
      | .net a len => cidrContains a len ip
      | _ => true
    match r.pattern with
    | none => m1
    | some pat =>
      match random with
      | none => false
      | some rnd =>
        match patternMatches pat rnd with
        | none => false
        | some b => m1 && b

inductive Verdict where
  | allow | deny
deriving Repr, DecidableEq

def Action.toVerdict : Action → Verdict
  | .allow => .allow
  | .deny => .deny

def firstMatch (rules : List Rule) (ip : Addr) (random : Option Bytes) : Verdict :=
  match rules.find? (fun r => r.matches ip random) with
  | some r => r.action.toVerdict
  | none => .allow

/-- `RulesEngine::evaluate` -/
def evaluate (rules : List Rule) (ip : Addr) (random : Option Bytes) : Verdict :=
  if random.isNone && rules.any (fun r => r.pattern.isSome) then .deny
  else firstMatch rules ip random

/-- `IpAddr::to_canonical`: `::ffff:a.b.c.d` becomes `a.b.c.d` -/
def canonical : Addr → Addr
  | .v4 n => .v4 n
  | .v6 n => if n / 2 ^ 32 == 0xffff then .v4 (n % 2 ^ 32) else .v6 n

/-- `Core::evaluate_connection_rules`: `engine = none` when no rules engine is configured,
`ip = none` when the peer address could not be obtained (QUIC) -/
def evaluateConnection (engine : Option (List Rule)) (ip : Option Addr) (random : Option Bytes) : Verdict :=
  match engine, ip with
  | some rules, some ip => evaluate rules (canonical ip) random
  | _, _ => .allow

/-! ### accept path ordering (`core.rs on_new_tls_connection` / `on_new_quic_connection`) -/

inductive Step where
  | readClientHello       -- TlsListener::listen (peek, no bytes written)
  | requireSni
  | evalRules
  | drop
  | selectHost            -- TlsDemux::select
  | tlsAccept             -- the first point at which the endpoint writes (ServerHello)
  | quicHandshakeDone     -- QUIC: handshake is completed by the multiplexer before Core sees the socket
  | createCodec           -- Http3Codec::new / make_tcp_http_codec
  | serveRequests
deriving Repr, DecidableEq

def tcpAcceptPath (hasSni : Bool) (v : Verdict) : List Step :=
  [.readClientHello, .requireSni] ++
  (if !hasSni then [.drop] else
   [.evalRules] ++ (match v with
    | .deny => [.drop]
    | .allow => [.selectHost, .tlsAccept, .createCodec, .serveRequests]))

def quicAcceptPath (v : Verdict) : List Step :=
  [.quicHandshakeDone, .evalRules] ++ (match v with
    | .deny => [.drop]
    | .allow => [.createCodec, .serveRequests])

end TT.Rules
