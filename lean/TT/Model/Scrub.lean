/-
Model of `lib/src/net_utils.rs` `scrub_request` / `scrub_sni` and of the `Debug` form of
`tls_demultiplexer::ConnectionMeta`.
-/
namespace TT.Scrub

def placeholder : String := "scrubbed"

/-- header names are compared case-insensitively by the `http` crate: they arrive lower-cased -/
def sensitive : List String := ["authorization", "proxy-authorization", "cookie"]

abbrev Headers := List (String × String)

/-- `HeaderMap::insert(name, value)` when the name is present: the first entry of that name gets
the value, the other entries of that name are removed -/
def insertReplace (hs : Headers) (name value : String) : Headers :=
  let rec go : Headers → Bool → Headers
    | [], _ => []
    | (n, v) :: rest, done =>
      if n == name then (if done then go rest true else (n, value) :: go rest true)
      else (n, v) :: go rest done
  go hs false

/-- `scrub_request` on the header list (method, URI and version are copied unchanged) -/
def scrubHeaders (hs : Headers) : Headers :=
  sensitive.foldl (fun acc name => if acc.any (fun h => h.1 == name) then insertReplace acc name placeholder else acc) hs

/-- `scrub_sni`: everything before the first dot is replaced -/
def scrubSni (sni : List Char) : List Char :=
  match sni.span (· != '.') with
  | (_, []) => sni
  | (_, rest) => placeholder.toList ++ rest

/-- `Debug for ConnectionMeta`: the SNI is scrubbed when the connection carries SNI credentials,
and the credentials field prints a placeholder -/
def metaDebug (sni : List Char) (creds : Option (List Char)) (protocol channel : String) : List Char :=
  let shown := if creds.isSome then scrubSni sni else sni
  "ConnectionMeta { sni: \"".toList ++ shown ++ "\", protocol: ".toList ++ protocol.toList ++ ", channel: ".toList ++
    channel.toList ++ ", sni_auth_creds: ".toList ++ (if creds.isSome then "Some(\"scrubbed\")".toList else "None".toList) ++ " }".toList

/-! ## The loggers' filter (`log_utils::is_loggable`)

Levels as in the `log` crate: error = 1 … trace = 5; a maximum of 0 is "off". Records of the TLS library at
trace level are dropped whatever the maximum: they dump whole handshake messages, the ClientHello with its
server name (and the credentials label in it) among them. -/

def traceLevel : Nat := 5

def tlsLibrary : List Char := ['r', 'u', 's', 't', 'l', 's']

def loggable (maxLevel level : Nat) (target : List Char) : Bool :=
  decide (level ≤ maxLevel) && !(level == traceLevel && tlsLibrary.isPrefixOf target)

end TT.Scrub
