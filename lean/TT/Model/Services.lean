/-
Model of `lib/src/http_demultiplexer.rs` (`HttpDemux::select`), `http_speedtest_handler.rs`
(`prepare_speedtest`, the download byte countdown, the upload countdown),
`http_ping_handler.rs`, and the request translation / fixed destination of `reverse_proxy.rs`.
-/
namespace TT.Services

inductive Channel where
  | ping | speedtest | reverseProxy | tunnel
deriving Repr, DecidableEq

inductive Proto where
  | h1 | h2 | h3
deriving Repr, DecidableEq

structure ReqView where
  method : String
  path : List Char
  /-- `x-ping: 1` or `sec-fetch-mode: navigate` present -/
  pingMarker : Bool
  hasUpgrade : Bool
  contentLength : Option (List Char)
deriving Repr, DecidableEq

structure Cfg where
  speedtestEnable : Bool
  /-- reverse proxy path mask, when the reverse proxy is configured -/
  pathMask : Option (List Char)
deriving Repr, DecidableEq

def stripPrefix (p : List Char) (s : List Char) : Option (List Char) :=
  if p.isPrefixOf s then some (s.drop p.length) else none

def speedSegment : List Char := "speed".toList

/-- `check_speedtest`: path is `/speed/...` -/
def checkSpeedtest (cfg : Cfg) (r : ReqView) : Bool :=
  cfg.speedtestEnable &&
  (match stripPrefix ['/'] r.path with
   | some x => match stripPrefix speedSegment x with
     | some y => (stripPrefix ['/'] y).isSome
     | none => false
   | none => false)

def checkReverseProxy (cfg : Cfg) (proto : Proto) (r : ReqView) : Bool :=
  (match proto with
   | .h1 => r.hasUpgrade
   | .h3 => true
   | .h2 => false) &&
  (match cfg.pathMask with
   | some m => m.isPrefixOf r.path
   | none => false)

/-- `HttpDemux::select` -/
def select (cfg : Cfg) (proto : Proto) (r : ReqView) : Channel :=
  if r.pingMarker then .ping
  else if checkSpeedtest cfg r then .speedtest
  else if checkReverseProxy cfg proto r then .reverseProxy
  else .tunnel

/-! ### speedtest -/

def maxDownloadMb : Nat := 100
def maxUploadMb : Nat := 120
def mib : Nat := 1048576
def chunkSize : Nat := 65536

def digitsVal : List Char → Option Nat
  | [] => some 0
  | c :: rest =>
    if '0' ≤ c ∧ c ≤ '9' then
      match digitsVal rest with
      | some v => some ((c.toNat - '0'.toNat) * 10 ^ rest.length + v)
      | none => none
    else none

/-- `str::parse::<u32>()`: optional `+`, at least one digit, value ≤ u32::MAX -/
def parseU32 (s : List Char) : Option Nat :=
  let body := match s with
    | '+' :: rest => rest
    | _ => s
  if body.isEmpty then none else
  match digitsVal body with
  | some v => if v < 4294967296 then some v else none
  | none => none

inductive Speedtest where
  | download (bytes : Nat)
  | upload (bytes : Nat)
  | bad                       -- 400
deriving Repr, DecidableEq

def stripSuffix (suf s : List Char) : Option (List Char) :=
  if suf.isSuffixOf s then some (s.take (s.length - suf.length)) else none

/-- `prepare_speedtest` -/
def prepareSpeedtest (r : ReqView) : Speedtest :=
  let path := match stripPrefix ['/'] r.path with
    | some x => match stripPrefix speedSegment x with
      | some y => y
      | none => r.path
    | none => r.path
  if r.method == "GET" then
    match stripPrefix ['/'] path with
    | some x =>
      match stripSuffix "mb.bin".toList x with
      | some n =>
        match parseU32 n with
        | some v => if 0 < v && v ≤ maxDownloadMb then .download (v * mib) else .bad
        | none => .bad
      | none => .bad
    | none => .bad
  else if r.method == "POST" then
    if path != "/upload.html".toList then .bad else
    match r.contentLength with
    | some cl =>
      match parseU32 cl with
      | some v => if 0 < v && v ≤ maxUploadMb * mib then .upload v else .bad
      | none => .bad
    | none => .bad
  else .bad

/-- `run_download_test`: `n` bytes remain; each round offers `min(chunk, n)` bytes of which the
sink accepts `k` (the acceptance script; larger values are clamped to what was offered).  Returns
the total number of body bytes handed to the client and the remaining count when the script ends. -/
def downloadLoop : Nat → List Nat → Nat × Nat
  | n, [] => (0, n)
  | 0, _ => (0, 0)
  | n+1, k :: ks =>
    let offered := min chunkSize (n + 1)
    let acc := min k offered
    let (sent, rem) := downloadLoop (n + 1 - acc) ks
    (acc + sent, rem)
termination_by n ks => ks.length

/-- `run_upload_test`: the client's chunks are counted down from `n`; the test ends (and 200 is
sent) when the count reaches zero or the client ends the stream -/
def uploadLoop : Nat → List Nat → Nat × Bool
  | 0, _ => (0, true)
  | n, [] => (n, true)          -- Eof: respond anyway
  | n, c :: cs => uploadLoop (n - c) cs

/-! ### reverse proxy -/

structure OriginReq where
  method : String
  path : List Char
  /-- header names (lower case) in order, with the protocol marker appended -/
  headers : List (String × String)
deriving Repr, DecidableEq

def protoStr : Proto → String
  | .h1 => "HTTP1"
  | .h2 => "HTTP2"
  | .h3 => "HTTP3"

def insertHeader (hs : List (String × String)) (n v : String) : List (String × String) :=
  if hs.any (fun h => h.1 == n) then hs.map (fun h => if h.1 == n then (n, v) else h) else hs ++ [(n, v)]

/-- `handle_stream`: the request sent to the origin, and where it is sent (always the configured
origin, an input that the client cannot influence) -/
def translate (proto : Proto) (h3compat : Bool) (method : String) (path : List Char) (headers : List (String × String)) : OriginReq :=
  let m := if proto == .h3 && h3compat && method == "GET" && path == ['/'] then "CONNECT" else method
  ⟨m, path, insertHeader headers "x-original-protocol" (protoStr proto)⟩

end TT.Services
