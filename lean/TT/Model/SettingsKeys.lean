import TT.Gen.SettingsKeys
/-
C13 — which field a key of a settings file sets: the table of (struct, field, accepted keys) is read from
`settings.rs` (serde field names, `rename` and `alias` attributes) by the translator on every run.
-/
namespace TT.SettingsKeys

abbrev Table := List (String × String × List String)

/-- the fields of section (struct) `s` that a file's key `k` sets -/
def fieldsOf (table : Table) (s k : String) : List String :=
  (table.filter fun r => r.1 == s && r.2.2.contains k).map (·.2.1)

/-- every accepted key sets exactly the field it is attached to -/
def Unambiguous (table : Table) : Bool :=
  table.all fun r => r.2.2.all fun k => fieldsOf table r.1 k == [r.2.1]

/-- every accepted key names its field: it is the field's name, a tail of it (the legacy short names), or the
field's name with a unit behind it (`…_secs`) -/
def NamesItsField (table : Table) : Bool :=
  table.all fun r => r.2.2.all fun k => k.toList.isSuffixOf r.2.1.toList || r.2.1.toList.isPrefixOf k.toList

end TT.SettingsKeys
