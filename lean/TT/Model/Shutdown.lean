/-
Model of `lib/src/shutdown.rs`: `Shutdown` (broadcast notification of capacity 1, completion
channel whose receiver ends when every `CompletionGuard` is dropped), `Notification::wait`
(tolerates lag), and the way `Tunnel::listen` / the service handlers / `Core::listen` use it
(`notification_handler()` + `completion_guard()` taken together at registration).
-/
namespace TT.Shutdown

structure Part where
  /-- subscribed (has a `Notification`) and not yet finished -/
  alive : Bool := true
  /-- a shutdown message is waiting in this receiver (set by `submit`, cleared by a successful
  `wait`; further submits before that only cause lag, which `wait` skips) -/
  unseen : Bool := false
  /-- holds a `CompletionGuard` -/
  guard : Bool := false
deriving Repr, DecidableEq

structure St where
  parts : List Part := []
  /-- `completion()` has been called: the original sender is dropped, no new guards -/
  completing : Bool := false
deriving Repr, DecidableEq

inductive Op where
  | register                 -- notification_handler() + completion_guard()
  | waitPoll (i : Nat)       -- poll `Notification::wait()` of participant i once
  | submit
  | finish (i : Nat)         -- participant i ends: drops its notification and its guard
  | completionPoll           -- poll `Shutdown::completion()` once
deriving Repr, DecidableEq

inductive Out where
  | registered (idx : Nat) (hasGuard : Bool)
  | ready                    -- wait() -> Ok(())
  | pending
  | none_                    -- no output (submit, finish, bad index)
  | done                     -- completion() returned
deriving Repr, DecidableEq

def setAt (l : List Part) (i : Nat) (f : Part → Part) : List Part :=
  l.mapIdx (fun j p => if j == i then f p else p)

def step (s : St) : Op → St × Out
  | .register =>
    let g := !s.completing
    ({ s with parts := s.parts ++ [{ alive := true, unseen := false, guard := g }] }, .registered s.parts.length g)
  | .waitPoll i =>
    match s.parts[i]? with
    | some p =>
      if p.alive && p.unseen then ({ s with parts := setAt s.parts i (fun p => { p with unseen := false }) }, .ready)
      else (s, .pending)
    | none => (s, .none_)
  | .submit => ({ s with parts := s.parts.map (fun p => if p.alive then { p with unseen := true } else p) }, .none_)
  | .finish i => ({ s with parts := setAt s.parts i (fun _ => { alive := false, unseen := false, guard := false }) }, .none_)
  | .completionPoll =>
    let s' := { s with completing := true }
    if s'.parts.all (fun p => !p.guard) then (s', .done) else (s', .pending)

def run (s : St) : List Op → St × List Out
  | [] => (s, [])
  | op :: rest =>
    let (s1, o) := step s op
    let (s2, os) := run s1 rest
    (s2, o :: os)

end TT.Shutdown
