import TT.Model.Bytes
import TT.Model.Ip
import TT.Model.Icmp
import TT.Model.Utf8
/-
Model of `lib/src/socks5_client.rs` (message encoders, method negotiation, reply parser, the
whole `connect_inner` dialogue against a server byte stream, UDP datagram wrap/unwrap) and of
`socks5_forwarder.rs` `make_auth` / `make_extended_auth` and the reply-code -> error mapping.
Strings are byte lists (UTF-8 of Rust `str`).
-/
namespace TT.Socks
open TT TT.Bytes

inductive ExtVal where
  | domain (s : Bytes)            -- 0x01
  | clientAddr (ip : Ip.Ip)       -- 0x02
  | userAgent (s : Bytes)         -- 0x03
  | basicProxyAuth (s : Bytes)    -- 0x04
  | sniAuth                       -- 0x05
deriving Repr, DecidableEq

inductive Auth where
  | userPass (u p : Bytes)
  | extended (vals : List ExtVal)
deriving Repr, DecidableEq

inductive Addr where
  | ip (a : Ip.Ip)
  | domain (s : Bytes)
deriving Repr, DecidableEq

inductive Request where
  | connect (a : Addr) (port : Nat)
  /-- UDP ASSOCIATE; the locally bound socket address is an input of the model -/
  | udpAssociate (local_ : Ip.Sock)
deriving Repr, DecidableEq

/-! ### encoders (`SocksWriter`) -/

def ipBytes : Ip.Ip → Bytes
  | .v4 a b c d => [a, b, c, d]
  | .v6 x => u16be x.s0 ++ u16be x.s1 ++ u16be x.s2 ++ u16be x.s3 ++ u16be x.s4 ++ u16be x.s5 ++ u16be x.s6 ++ u16be x.s7

def methodOf : Option Auth → Nat
  | none => 0x00
  | some (.userPass ..) => 0x02
  | some (.extended _) => 0x80

/-- `write_selection_message(&[auth method or NoAuth, NoAuth])` -/
def encodeSelection (auth : Option Auth) : Bytes := [5, 2, methodOf auth, 0]

def encodeExtVal : ExtVal → Option Bytes
  | .domain s => if s.length > 65535 then none else some ([1] ++ u16be s.length ++ s)
  | .clientAddr ip => some ([2] ++ u16be (ipBytes ip).length ++ ipBytes ip)
  | .userAgent s => if s.length > 65535 then none else some ([3] ++ u16be s.length ++ s)
  | .basicProxyAuth s => if s.length > 65535 then none else some ([4] ++ u16be s.length ++ s)
  | .sniAuth => some [5, 0, 0]

def encodeExtVals : List ExtVal → Option Bytes
  | [] => some []
  | v :: rest =>
    match encodeExtVal v, encodeExtVals rest with
    | some a, some b => some (a ++ b)
    | _, _ => none

/-- `write_authentication_message`; `none` = `Error::Protocol` before anything is written -/
def encodeAuth : Auth → Option Bytes
  | .userPass u p =>
    if u.length > 255 || p.length > 255 then none
    else some ([1, u.length] ++ u ++ [p.length] ++ p)
  | .extended vals =>
    match encodeExtVals vals with
    | some b => some ([1] ++ b ++ [0, 0, 0])
    | none => none

def addrType : Addr → Nat
  | .ip (.v4 ..) => 1
  | .ip (.v6 _) => 4
  | .domain _ => 3

/-- `write_request(command, destination, port)` -/
def encodeRequest (cmd : Nat) (a : Addr) (port : Nat) : Option Bytes :=
  match a with
  | .ip ip => some ([5, cmd, 0, addrType a] ++ ipBytes ip ++ u16be port)
  | .domain s => if s.length ≤ 255 then some ([5, cmd, 0, 3, s.length] ++ s ++ u16be port) else none

/-! ### independent RFC 1928 / 1929 readers of what the client emits -/

/-- RFC 1928 section 3: VER NMETHODS METHODS -/
def rfcParseSelection (b : Bytes) : Option (List Nat × Bytes) :=
  match b with
  | 5 :: n :: rest => if 1 ≤ n ∧ n ≤ rest.length then some (rest.take n, rest.drop n) else none
  | _ => none

/-- RFC 1929 section 2: VER ULEN UNAME PLEN PASSWD -/
def rfcParseUserPass (b : Bytes) : Option (Bytes × Bytes × Bytes) :=
  match b with
  | 1 :: ulen :: rest =>
    if ulen > 255 ∨ rest.length < ulen + 1 then none else
    let u := rest.take ulen
    match rest.drop ulen with
    | plen :: rest2 => if plen > 255 ∨ rest2.length < plen then none else some (u, rest2.take plen, rest2.drop plen)
    | [] => none
  | _ => none

/-- RFC 1928 section 4: VER CMD RSV ATYP DST.ADDR DST.PORT -/
def rfcParseRequest (b : Bytes) : Option (Nat × Addr × Nat × Bytes) :=
  match b with
  | 5 :: cmd :: 0 :: 1 :: a :: b' :: c :: d :: p0 :: p1 :: rest => some (cmd, .ip (.v4 a b' c d), p0 * 256 + p1, rest)
  | 5 :: cmd :: 0 :: 3 :: n :: rest =>
    if n > 255 ∨ rest.length < n + 2 then none else
    match rest.drop n with
    | p0 :: p1 :: rest2 => some (cmd, .domain (rest.take n), p0 * 256 + p1, rest2)
    | _ => none
  | 5 :: cmd :: 0 :: 4 :: rest =>
    if rest.length < 18 then none else
    let s := rest.take 16
    let h (i : Nat) : Nat := s.getD (2 * i) 0 * 256 + s.getD (2 * i + 1) 0
    match rest.drop 16 with
    | p0 :: p1 :: rest2 => some (cmd, .ip (.v6 ⟨h 0, h 1, h 2, h 3, h 4, h 5, h 6, h 7⟩), p0 * 256 + p1, rest2)
    | _ => none
  | _ => none

/-- extended authentication message: VER, TLV extensions, TERM (type 0, length 0) -/
def rfcParseExtFuel : Nat → Bytes → Option (List (Nat × Bytes) × Bytes)
  | 0, _ => none
  | fuel+1, b =>
    match b with
    | t :: l0 :: l1 :: rest =>
      let len := l0 * 256 + l1
      if t == 0 then (if len == 0 then some ([], rest) else none)
      else if rest.length < len then none
      else match rfcParseExtFuel fuel (rest.drop len) with
        | some (vs, r) => some ((t, rest.take len) :: vs, r)
        | none => none
    | _ => none

def rfcParseExtended (b : Bytes) : Option (List (Nat × Bytes) × Bytes) :=
  match b with
  | 1 :: rest => rfcParseExtFuel (rest.length + 1) rest
  | _ => none

/-! ### server side of the dialogue as the client parses it (`SocksReader`) -/

inductive RErr where
  | io          -- EOF / read error (truncated reply)
  | protocol
  | auth
deriving Repr, DecidableEq

inductive Rd (α : Type) where
  | ok (a : α) (rest : Bytes)
  | err (e : RErr)
deriving Repr

def readU8 : Bytes → Rd Nat
  | [] => .err .io
  | a :: r => .ok a r

def readExact (n : Nat) (b : Bytes) : Rd Bytes :=
  if b.length < n then .err .io else .ok (b.take n) (b.drop n)

/-- `read_selection_response`: version, method ∈ {00, 02, 80, ff} -/
def readSelection (b : Bytes) : Rd Nat :=
  match readU8 b with
  | .err e => .err e
  | .ok v b =>
    if v != 5 then .err .protocol else
    match readU8 b with
    | .err e => .err e
    | .ok m b => if m == 0 || m == 2 || m == 0x80 || m == 0xff then .ok m b else .err .protocol

/-- `read_authentication_response` -/
def readAuthResponse (b : Bytes) : Rd Unit :=
  match readU8 b with
  | .err e => .err e
  | .ok v b =>
    if v != 1 then .err .protocol else
    match readU8 b with
    | .err e => .err e
    | .ok s b => if s != 0 then .err .auth else .ok () b

structure Reply where
  code : Nat
  bound : Addr
  port : Nat
deriving Repr, DecidableEq

/-- `read_reply` -/
def readReply (b : Bytes) : Rd Reply :=
  match readU8 b with
  | .err e => .err e
  | .ok v b =>
    if v != 5 then .err .protocol else
    match readU8 b with
    | .err e => .err e
    | .ok code b =>
      if code > 8 then .err .protocol else
      match readU8 b with
      | .err e => .err e
      | .ok rsv b =>
        if rsv != 0 then .err .protocol else
        match readU8 b with
        | .err e => .err e
        | .ok atyp b =>
          let addr : Rd Addr :=
            if atyp == 1 then
              match readExact 4 b with
              | .err e => .err e
              | .ok x b => .ok (.ip (.v4 (x.getD 0 0) (x.getD 1 0) (x.getD 2 0) (x.getD 3 0))) b
            else if atyp == 4 then
              match readExact 16 b with
              | .err e => .err e
              | .ok s b =>
                let h (i : Nat) : Nat := s.getD (2 * i) 0 * 256 + s.getD (2 * i + 1) 0
                .ok (.ip (.v6 ⟨h 0, h 1, h 2, h 3, h 4, h 5, h 6, h 7⟩)) b
            else if atyp == 3 then
              match readU8 b with
              | .err e => .err e
              | .ok n b =>
                match readExact n b with
                | .err e => .err e
                | .ok s b => if validUtf8 s then .ok (.domain s) b else .err .protocol
            else .err .protocol
          match addr with
          | .err e => .err e
          | .ok a b =>
            match readExact 2 b with
            | .err e => .err e
            | .ok p b => .ok ⟨code, a, p.getD 0 0 * 256 + p.getD 1 0⟩ b

/-! ### the dialogue (`connect_inner`) -/

inductive Outcome where
  | tcp                      -- ConnectResult::TcpConnection
  | udp (bound : Ip.Sock)    -- ConnectResult::UdpAssociation, connected to the bound address
  | failure (code : Nat)     -- ConnectResult::Failure(code), code ∈ 1..8
  | error (e : RErr)
deriving Repr, DecidableEq

/-- request / reply phase of `connect_inner` -/
def connectRequest (sent : Bytes) (req : Request) (server : Bytes) : Bytes × Outcome :=
  let (cmd, dst, port) : Nat × Addr × Nat :=
    match req with
    | .connect a p => (1, a, p)
    | .udpAssociate l => (3, .ip l.ip, l.port)
  match encodeRequest cmd dst port with
  | none => (sent, .error .protocol)
  | some msg =>
    let sent := sent ++ msg
    match readReply server with
    | .err e => (sent, .error e)
    | .ok r _ =>
      if r.code != 0 then (sent, .failure r.code)
      else match req with
        | .connect .. => (sent, .tcp)
        | .udpAssociate _ =>
          match r.bound with
          | .ip (.v4 a b c d) => (sent, .udp ⟨.v4 a b c d, r.port⟩)
          -- the association socket is bound to 0.0.0.0 (AF_INET): `connect()` to an IPv6 relay
          -- address fails in the kernel (model follows the observed behaviour)
          | .ip (.v6 _) => (sent, .error .io)
          | .domain _ => (sent, .error .protocol)

/-- `connect_inner(io, auth, request)` against the complete byte string `server` the server
will ever send (reads are exact-size pulls, so its segmentation is irrelevant by construction).
Returns everything the client writes and the outcome. -/
def connect (auth : Option Auth) (req : Request) (server : Bytes) : Bytes × Outcome :=
  let sent := encodeSelection auth
  match readSelection server with
  | .err e => (sent, .error e)
  | .ok m server =>
    if m == 0 then connectRequest sent req server
    else if (m == 2 && methodOf auth == 2) || (m == 0x80 && methodOf auth == 0x80) then
      match auth with
      | none => (sent, .error .auth)
      | some a =>
        match encodeAuth a with
        | none => (sent, .error .protocol)
        | some msg =>
          let sent := sent ++ msg
          match readAuthResponse server with
          | .err e => (sent, .error e)
          | .ok _ server => connectRequest sent req server
    else (sent, .error .auth)     -- 0xff (no acceptable) or a method that was not offered

/-- after a CONNECT dialogue that succeeded: what is left of the server's bytes - the destination's data, which is
what the tunnel over this connection hands to its client first (nothing of the reply, everything behind it) -/
def afterDialogue (server : Bytes) : Option Bytes :=
  match readSelection server with
  | .err _ => none
  | .ok m server =>
    let afterAuth : Option Bytes :=
      if m == 0 then some server
      else match readAuthResponse server with
        | .ok _ s => some s
        | .err _ => none
    match afterAuth with
    | none => none
    | some s =>
      match readReply s with
      | .ok _ rest => some rest
      | .err _ => none

/-! ### `socks5_forwarder.rs` -/

inductive Source where
  | sni (s : Bytes)
  /-- `ProxyBasic(token)`: the model receives what base64-decoding the token yields
  (`none` = not valid base64) - base64 itself is not modelled -/
  | proxyBasic (decoded : Option Bytes) (token : Bytes)
deriving Repr, DecidableEq

def splitFirstColon : Bytes → Option (Bytes × Bytes)
  | [] => none
  | c :: rest =>
    if c == 0x3a then some ([], rest)
    else match splitFirstColon rest with
      | some (a, b) => some (c :: a, b)
      | none => none

/-- `make_auth` -/
def makeAuth : Source → Option Auth
  | .sni s => some (.userPass s s)
  | .proxyBasic none _ => none
  | .proxyBasic (some d) _ =>
    if !validUtf8 d then none else
    match splitFirstColon d with
    | some (u, p) => some (.userPass u p)
    | none => none

/-- `make_extended_auth` -/
def makeExtendedAuth (src : Source) (tlsDomain : Bytes) (client : Ip.Ip) (ua : Option Bytes) : Auth :=
  .extended ([.domain tlsDomain, .clientAddr client] ++ (match ua with | some u => [.userAgent u] | none => []) ++
    [match src with
     | .sni _ => .sniAuth
     | .proxyBasic _ token => .basicProxyAuth token])

inductive TunnelErr where
  | connected | hostUnreachable | timeout | refused | other | io | authentication
deriving Repr, DecidableEq

/-- `TcpConnector::connect` result mapping -/
def mapOutcome : Outcome → TunnelErr
  | .tcp => .connected
  | .udp _ => .other          -- unreachable!() for a CONNECT request
  | .failure 4 => .hostUnreachable
  | .failure 3 => .hostUnreachable
  | .failure 5 => .refused
  | .failure 6 => .timeout
  | .failure _ => .other
  | .error .io => .io
  | .error .protocol => .other
  | .error .auth => .authentication

/-! ### relayed UDP datagrams (RFC 1928 section 7) -/

/-- `UdpAssociation::send_to` -/
def udpWrap (dst : Ip.Sock) (data : Bytes) : Bytes :=
  [0, 0, 0] ++ (match dst.ip with | .v4 .. => [1] | .v6 _ => [4]) ++ ipBytes dst.ip ++ u16be dst.port ++ data

inductive UdpIn where
  | ok (src : Ip.Sock) (data : Bytes)
  | protocol
  | panic
deriving Repr, DecidableEq

/-- `UdpAssociation::recv_from` on one received datagram -/
def udpUnwrap (pkt : Bytes) : UdpIn :=
  if pkt.length < 10 then .protocol else
  match pkt with
  | r0 :: r1 :: frag :: atyp :: rest =>
    if r0 != 0 || r1 != 0 then .protocol
    else if frag != 0 then .protocol
    else if atyp == 1 then
      match rest with
      | a :: b :: c :: d :: p0 :: p1 :: data => .ok ⟨.v4 a b c d, p0 * 256 + p1⟩ data
      | _ => .panic
    else if atyp == 4 then
      if rest.length < 16 then .protocol else
      let s := rest.take 16
      let h (i : Nat) : Nat := s.getD (2 * i) 0 * 256 + s.getD (2 * i + 1) 0
      match rest.drop 16 with
      | p0 :: p1 :: data => .ok ⟨.v6 ⟨h 0, h 1, h 2, h 3, h 4, h 5, h 6, h 7⟩, p0 * 256 + p1⟩ data
      | _ => .protocol
    else .protocol
  | _ => .protocol

end TT.Socks
