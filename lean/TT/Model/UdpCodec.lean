import TT.Model.Bytes
import TT.Model.Ip
import TT.Model.Icmp
import TT.Model.Utf8
/-
Model of `lib/src/http_udp_codec.rs` (PROTOCOL.md 6.3 decoder state machine with its
`buffered_read` helper and asserts, 6.4 encoder) and of the re-queueing glue
`http_downstream::DatagramDecoder::read`.
-/
namespace TT.Udp
open TT TT.Bytes TT.Icmp

/-- UDPPKT_IN_FIXED_HEADER_NO_LENGTH_SIZE = 2 * (16 + 2) + 1 -/
def hdrNoLen : Nat := 37
/-- MAX_UDP_IN_PAYLOAD_SIZE = MAX_UDP_PAYLOAD_SIZE - hdrNoLen = 65508 - 37 -/
def maxIn : Nat := 65471

inductive RecvState where
  | length
  | fixedHeader
  | appName (n : Nat)
  | payload (n : Nat)
  | dropping (n : Nat)
deriving Repr, DecidableEq

structure Datagram where
  src : Ip.Sock
  dst : Ip.Sock
  app : Bytes
  payload : Bytes
deriving Repr, DecidableEq

structure Dec where
  st : RecvState := .length
  total : Nat := 0
  buffer : Bytes := []
  src : Option Ip.Sock := none
  dst : Option Ip.Sock := none
  app : Option Bytes := none
deriving Repr, DecidableEq

inductive BR where
  | need (buffer : Bytes)                 -- `None`: everything buffered, input exhausted
  | got (field tail : Bytes)              -- `Some((field, tail))`, buffer taken
  | panic
deriving Repr, DecidableEq

/-- `Decoder::buffered_read(input, cap)` with both asserts -/
def bufferedRead (buffer input : Bytes) (cap : Nat) : BR :=
  if !(buffer.length < cap || cap == 0) then .panic else
  let toDrain := min input.length (cap - buffer.length)
  let buffer' := buffer ++ input.take toDrain
  let input' := input.drop toDrain
  if buffer'.length < cap then
    (if !input'.isEmpty then .panic else .need buffer')
  else .got buffer' input'

/-- result of one `decode_chunk_once` -/
inductive Once where
  | next (d : Dec) (out : Option Datagram) (tail : Bytes)
  | panic
deriving Repr

def parseSock (b : Bytes) : Res (Ip.Sock × Bytes) :=
  match getFixedIp b with
  | .panic => .panic
  | .ok (ip, b) =>
    match getU16 b with
    | .panic => .panic
    | .ok (port, b) => .ok (⟨ip, port⟩, b)

def decodeOnce (d : Dec) (data : Bytes) : Once :=
  match d.st with
  | .length =>
    match bufferedRead d.buffer data 4 with
    | .panic => .panic
    | .need b => .next { d with buffer := b } none []
    | .got raw tail =>
      match getU32 raw with
      | .panic => .panic
      | .ok (total, _) =>
        if total ≥ hdrNoLen then .next { d with buffer := [], total := total, st := .fixedHeader } none tail
        else .next { d with buffer := [], total := total, st := .dropping total } none tail
  | .fixedHeader =>
    match bufferedRead d.buffer data hdrNoLen with
    | .panic => .panic
    | .need b => .next { d with buffer := b } none []
    | .got header tail =>
      match parseSock header with
      | .panic => .panic
      | .ok (src, header) =>
        match parseSock header with
        | .panic => .panic
        | .ok (dst, header) =>
          match getU8 header with
          | .panic => .panic
          | .ok (l, _) =>
            let d := { d with buffer := [], src := some src, dst := some dst }
            if d.total > maxIn - l then .next { d with st := .dropping (d.total - hdrNoLen) } none tail
            else if d.total ≥ hdrNoLen + l then .next { d with st := .appName l } none tail
            else .next { d with st := .dropping (d.total - hdrNoLen) } none tail
  | .appName l =>
    match bufferedRead d.buffer data l with
    | .panic => .panic
    | .need b => .next { d with buffer := b } none []
    | .got name tail =>
      let plen := d.total - hdrNoLen - l
      if validUtf8 name then .next { d with buffer := [], app := some name, st := .payload plen } none tail
      else .next { d with buffer := [], st := .dropping plen } none tail
  | .payload n =>
    let emit (toSend tail : Bytes) : Once :=
      match d.src, d.dst with
      | some s, some t => .next { d with buffer := [], app := none, st := .length } (some ⟨s, t, d.app.getD [], toSend⟩) tail
      | _, _ => .panic   -- `unwrap()` on `None`
    if d.buffer.isEmpty && data.length ≥ n then emit (data.take n) (data.drop n)
    else
      let toDrain := min data.length (n - d.buffer.length)
      let buffer' := d.buffer ++ data.take toDrain
      let data' := data.drop toDrain
      if buffer'.length < n then .next { d with buffer := buffer' } none data'
      else emit buffer' data'
  | .dropping r =>
    let toDrop := min r data.length
    let st' := if r ≤ toDrop then RecvState.length else .dropping (r - toDrop)
    .next { d with st := st' } none (data.drop toDrop)

/-- states in which `decode_chunk` keeps going on empty input (zero-length field pending) -/
def pendingEmpty : RecvState → Bool
  | .appName 0 => true
  | .payload 0 => true
  | _ => false

inductive Chunk where
  | wantMore (d : Dec)
  | complete (d : Dec) (dg : Datagram) (tail : Bytes)
  | panic
deriving Repr

/-- `Decoder::decode_chunk`: loop of `decode_chunk_once` (fuel: every iteration consumes input
or advances a zero-length field, so `3 * data.length + 3` always suffices) -/
def decodeChunk : Nat → Dec → Bytes → Chunk
  | 0, d, _ => .wantMore d
  | fuel+1, d, data =>
    if data.isEmpty && !pendingEmpty d.st then .wantMore d else
    match decodeOnce d data with
    | .panic => .panic
    | .next d' (some dg) tail => .complete d' dg tail
    | .next d' none tail => decodeChunk fuel d' tail

def chunkFuel (data : Bytes) : Nat := 3 * data.length + 3

/-- `DatagramDecoder::read` over a scripted chunk list; datagrams in order, final decoder state.
`none` = panic. -/
def decodeStream : Nat → Dec → List Bytes → List Datagram → Option (List Datagram × Dec)
  | 0, d, _, acc => some (acc.reverse, d)
  | _+1, d, [], acc => some (acc.reverse, d)
  | fuel+1, d, chunk :: rest, acc =>
    match decodeChunk (chunkFuel chunk) d chunk with
    | .panic => none
    | .wantMore d' => decodeStream fuel d' rest acc
    | .complete d' dg tail => decodeStream fuel d' (if tail.isEmpty then rest else tail :: rest) (dg :: acc)

/-! ### 6.4 encoder (`Encoder::encode_packet`) -/

def encodeOut (src dst : Ip.Sock) (payload : Bytes) : Bytes :=
  u32be (36 + payload.length) ++ putFixedIp src.ip ++ u16be src.port ++ putFixedIp dst.ip ++ u16be dst.port ++ payload

/-! ### Specification: the stream as a sequence of length-prefixed records (PROTOCOL.md 6.3) -/

/-- client-side encoder of 6.3 -/
def encodeIn (dg : Datagram) : Bytes :=
  u32be (hdrNoLen + dg.app.length + dg.payload.length) ++ putFixedIp dg.src.ip ++ u16be dg.src.port ++
    putFixedIp dg.dst.ip ++ u16be dg.dst.port ++ [dg.app.length] ++ dg.app ++ dg.payload

/-- what an independent reader of 6.3 does with one complete record body (`len` bytes after
the length field): the datagram, or `none` when the endpoint will not accept the record -/
def specRecord (len : Nat) (body : Bytes) : Option Datagram :=
  if len < hdrNoLen then none else
  match parseSock body with
  | .ok (src, b) =>
    match parseSock b with
    | .ok (dst, b) =>
      match b with
      | l :: b =>
        if len > maxIn - l then none
        else if len < hdrNoLen + l then none
        else
          let name := b.take l
          if validUtf8 name then some ⟨src, dst, name, (b.drop l).take (len - hdrNoLen - l)⟩ else none
      | [] => none
    | .panic => none
  | .panic => none

/-- independent decoder: consecutive `[len:4][body:len]` records; an incomplete trailing record
yields nothing -/
def specDecode : Nat → Bytes → List Datagram
  | 0, _ => []
  | fuel+1, s =>
    match getU32 s with
    | .panic => []
    | .ok (len, rest) =>
      if rest.length < len then [] else
      match specRecord len (rest.take len) with
      | some dg => dg :: specDecode fuel (rest.drop len)
      | none => specDecode fuel (rest.drop len)

end TT.Udp
