/-
C07 — the UDP multiplexer: `udp_pipe::DuplexPipe` (flow table with last activity and pending
plain-DNS queries, expiry timer) coupled to `udp_forwarder` (one connected socket per flow), and
the loopback world the correspondence suite puts around it (servers that remember the socket
each flow last spoke from).

Sockets carry a fresh identity (`id`) so that "a reply arrives on the socket the query was sent
from" is a fact about the history and not an assumption: a server answers to the socket id it
saw last for that flow tag, and the multiplexer labels what arrives with the *socket's* key.
-/
namespace TT.UdpFlows

inductive Kind where
  | live     -- a server listens there
  | dns      -- a server listens there, port 53 (plain DNS bookkeeping applies)
  | dead     -- nobody listens: the first send succeeds, the ICMP error poisons the socket
  | unconn   -- `connect()` of the outbound socket fails
  deriving DecidableEq, Repr, Inhabited

/-- a flow key: indices of the client-side source and of the destination -/
structure Meta where
  src : Nat
  dst : Nat
  deriving DecidableEq, Repr, Inhabited

def Meta.reversed (m : Meta) : Meta := { src := m.dst, dst := m.src }

structure Cfg where
  timeout : Nat
  kinds : List Kind
  deriving Repr

def Cfg.kind (c : Cfg) (dst : Nat) : Kind := c.kinds.getD dst .unconn

/-- `udp_pipe::UdpConnection` -/
structure PipeEntry where
  key : Meta
  last : Nat
  /-- `plain_dns_info`: `some pending_queries` for a port-53 destination -/
  pending : Option Nat
  deriving DecidableEq, Repr

/-- `udp_forwarder::Connection`: a UDP socket connected to `dest` -/
structure Sock where
  key : Meta
  id : Nat
  dest : Nat
  /-- an asynchronous socket error is pending: the next send reports it -/
  poisoned : Bool
  deriving DecidableEq, Repr

structure St where
  now : Nat := 0
  nextTick : Nat := 0
  pipe : List PipeEntry := []
  socks : List Sock := []
  /-- world: the socket id a server last saw a datagram tagged with this flow come from -/
  peers : List (Meta × Nat) := []
  nextId : Nat := 0
  up : Nat := 0
  down : Nat := 0
  finished : Bool := false
  deriving Repr

def init (c : Cfg) : St := { nextTick := c.timeout / 4 }

inductive Op where
  | dg (m : Meta) (len : Nat)
  | reply (m : Meta) (len : Nat)
  | adv (ms : Nat)
  | close
  deriving Repr

/-- what the world and the client observe during one operation -/
structure Obs where
  /-- datagrams received by servers: (destination index, flow tag, length) -/
  srv : List (Nat × Meta × Nat) := []
  /-- datagrams delivered to the client: (flow according to the labels, flow tag, length) -/
  cli : List (Meta × Meta × Nat) := []
  deriving Repr

def hasPipe (s : St) (m : Meta) : Bool := s.pipe.any (·.key == m)
def findSock (s : St) (m : Meta) : Option Sock := s.socks.find? (·.key == m)
def removePipe (s : St) (m : Meta) : St := { s with pipe := s.pipe.filter (·.key != m) }
/-- `on_connection_closed` -/
def removeSock (s : St) (m : Meta) : St := { s with socks := s.socks.filter (·.key != m) }

def setPeer (ps : List (Meta × Nat)) (m : Meta) (id : Nat) : List (Meta × Nat) :=
  (m, id) :: ps.filter (·.1 != m)

/-- `register_outgoing_packet` -/
def touchOut (now : Nat) (e : PipeEntry) : PipeEntry :=
  { e with last := now, pending := e.pending.map (· + 1) }

/-- `MultiplexerSink::write` followed by the `LeftPipe::exchange` match on its result -/
def sinkWrite (c : Cfg) (s : St) (m : Meta) (len : Nat) : St × Obs :=
  match findSock s m with
  | none =>
    -- NotFound: the flow error branch
    (removeSock (removePipe s m) m, {})
  | some k =>
    if k.poisoned then
      -- the send reports the pending socket error: the flow is forgotten, nothing counted
      (removeSock (removePipe s m) m, {})
    else
      let s := { s with up := s.up + len }
      match c.kind k.dest with
      | .live | .dns =>
        ({ s with peers := setPeer s.peers m k.id }, { srv := [(k.dest, m, len)] })
      | .dead =>
        ({ s with socks := s.socks.map fun x => if x.key == m then { x with poisoned := true } else x }, {})
      | .unconn => (s, {})

/-- a client datagram: `LeftPipe::on_udp_packet`, then the sink -/
def stepDg (c : Cfg) (s : St) (m : Meta) (len : Nat) : St × Obs :=
  if hasPipe s m then
    let s := { s with pipe := s.pipe.map fun e => if e.key == m then touchOut s.now e else e }
    sinkWrite c s m len
  else
    -- insert, then `on_new_udp_connection`
    match findSock s m with
    | some _ => (s, {})          -- "Already present": the entry is removed again, datagram dropped
    | none =>
      match c.kind m.dst with
      | .unconn => (s, {})       -- the socket cannot be connected: dropped, nothing kept
      | k =>
        let e : PipeEntry := touchOut s.now
          { key := m, last := s.now, pending := if k == .dns then some 0 else none }
        let sock : Sock := { key := m, id := s.nextId, dest := m.dst, poisoned := false }
        let s := { s with pipe := e :: s.pipe, socks := sock :: s.socks, nextId := s.nextId + 1 }
        sinkWrite c s m len

/-- `register_incoming_packet`: `true` = Done -/
def touchIn (now : Nat) (e : PipeEntry) : PipeEntry × Bool :=
  match e.pending with
  | none => ({ e with last := now }, false)
  | some n => ({ e with last := now, pending := some (n - 1) }, n - 1 == 0)

/-- the server of flow tag `m` answers to the socket it last saw that flow come from -/
def stepReply (c : Cfg) (s : St) (m : Meta) (len : Nat) : St × Obs :=
  match s.peers.find? (·.1 == m) with
  | none => (s, {})
  | some (_, id) =>
    match s.socks.find? (·.id == id) with
    | none => (s, {})            -- that socket is closed: the reply is lost
    | some k =>
      match c.kind k.dest with
      | .live | .dns =>
        -- `read_pending_socket` labels with the socket's key; `RightPipe::exchange`
        let s := { s with down := s.down + len }
        let obs : Obs := { cli := [(k.key, m, len)] }
        match s.pipe.find? (·.key == k.key) with
        | none => (s, obs)
        | some e =>
          let (e', done) := touchIn s.now e
          if done then
            (removeSock (removePipe s k.key) k.key, obs)
          else
            ({ s with pipe := s.pipe.map fun x => if x.key == k.key then e' else x }, obs)
      | _ => (s, {})

/-- `on_timer_tick` at time `now` -/
def expire (c : Cfg) (s : St) : St :=
  let dead := (s.pipe.filter fun e => e.last + c.timeout < s.now).map (·.key)
  { s with pipe := s.pipe.filter (fun e => !(e.last + c.timeout < s.now)),
           socks := s.socks.filter (fun k => !dead.contains k.key) }

def stepAdv (c : Cfg) (s : St) (ms : Nat) : St :=
  let s := { s with now := s.now + ms }
  if s.nextTick ≤ s.now then
    { expire c s with nextTick := s.now + c.timeout / 4 }
  else s

def step (c : Cfg) (s : St) (op : Op) : St × Obs :=
  if s.finished then (s, {}) else
  match op with
  | .dg m len => stepDg c s m len
  | .reply m len => stepReply c s m len
  | .adv ms => (stepAdv c s ms, {})
  | .close => ({ s with finished := true, pipe := [], socks := [] }, {})

def run (c : Cfg) : St → List Op → St × List Obs
  | s, [] => (s, [])
  | s, op :: ops =>
    let (s', o) := step c s op
    let (s'', os) := run c s' ops
    (s'', o :: os)

def runFrom (c : Cfg) (ops : List Op) : St × List Obs := run c (init c) ops

/-- `outbound_udp_sockets` / open sockets -/
def St.gauge (s : St) : Nat := s.socks.length
/-- size of the pipe's table -/
def St.flows (s : St) : Nat := s.pipe.length

end TT.UdpFlows
