/-
C07, SOCKS5 variant — the same `udp_pipe::DuplexPipe` (flow table, pending DNS queries, expiry
timer; re-used from `TT.UdpFlows`) coupled to the SOCKS5 forwarder's multiplexer
(`socks5_forwarder.rs`): one UDP association per client *source* address, shared by all flows of
that source and released when its last flow is closed. The world is a SOCKS5 proxy with one
outbound socket per association, and servers that remember the proxy socket each flow last spoke
from.
-/
import TT.Model.UdpFlows
namespace TT.UdpSocks
open TT.UdpFlows

/-- `socks5_forwarder::UdpAssociation` -/
structure Assoc where
  src : Nat
  id : Nat
  /-- destination indices of the flows using this association -/
  peers : List Nat
  deriving DecidableEq, Repr

structure St where
  now : Nat := 0
  nextTick : Nat := 0
  pipe : List PipeEntry := []
  assocs : List Assoc := []
  /-- world: the association id a server last saw a datagram tagged with this flow come from -/
  seenFrom : List (Meta × Nat) := []
  nextId : Nat := 0
  up : Nat := 0
  down : Nat := 0
  finished : Bool := false
  deriving Repr

def init (c : Cfg) : St := { nextTick := c.timeout / 4 }

def hasPipe (s : St) (m : Meta) : Bool := s.pipe.any (·.key == m)
def findAssoc (s : St) (src : Nat) : Option Assoc := s.assocs.find? (·.src == src)
def removePipe (s : St) (m : Meta) : St := { s with pipe := s.pipe.filter (·.key != m) }

/-- `on_connection_closed` for flow `m`: the peer leaves its association, an association without
peers is released -/
def closeFlow (s : St) (m : Meta) : St :=
  { s with assocs := s.assocs.filterMap fun a =>
      if a.src == m.src then
        let ps := a.peers.filter (· != m.dst)
        if ps.isEmpty then none else some { a with peers := ps }
      else some a }

/-- `DatagramSink::write` and the pipe's reaction to its result -/
def sinkWrite (c : Cfg) (s : St) (m : Meta) (len : Nat) : St × Obs :=
  match findAssoc s m.src with
  | none => (closeFlow (removePipe s m) m, {})      -- NotFound: the flow error branch
  | some a =>
    let s := { s with up := s.up + len }
    match c.kind m.dst with
    | .live | .dns =>
      ({ s with seenFrom := setPeer s.seenFrom m a.id }, { srv := [(m.dst, m, len)] })
    | _ => (s, {})                                   -- the proxy's datagram goes nowhere

def stepDg (c : Cfg) (s : St) (m : Meta) (len : Nat) : St × Obs :=
  if hasPipe s m then
    let s := { s with pipe := s.pipe.map fun e => if e.key == m then touchOut s.now e else e }
    sinkWrite c s m len
  else
    let e : PipeEntry := touchOut s.now
      { key := m, last := s.now, pending := if c.kind m.dst == .dns then some 0 else none }
    -- `on_new_udp_connection`: join the source's association or open one
    let s : St := match findAssoc s m.src with
      | some _ =>
        { s with assocs := s.assocs.map fun (a : Assoc) =>
            if a.src == m.src && !a.peers.contains m.dst then ({ a with peers := a.peers ++ [m.dst] } : Assoc) else a }
      | none => { s with assocs := s.assocs ++ [{ src := m.src, id := s.nextId, peers := [m.dst] }], nextId := s.nextId + 1 }
    sinkWrite c { s with pipe := e :: s.pipe } m len

/-- the server of flow tag `m` answers to the proxy socket it last saw that flow come from -/
def stepReply (c : Cfg) (s : St) (m : Meta) (len : Nat) : St × Obs :=
  match c.kind m.dst with
  | .live | .dns =>
    match s.seenFrom.find? (·.1 == m) with
    | none => (s, {})
    | some (_, id) =>
      match s.assocs.find? (·.id == id) with
      | none => (s, {})          -- that association is gone: the proxy socket is closed
      | some a =>
        -- the proxy wraps the datagram with the server's address; the multiplexer labels it with
        -- that address and the association's source
        let lbl : Meta := { src := a.src, dst := m.dst }
        let s := { s with down := s.down + len }
        let obs : Obs := { cli := [(lbl, m, len)] }
        match s.pipe.find? (·.key == lbl) with
        | none => (s, obs)
        | some e =>
          let (e', done) := touchIn s.now e
          if done then (closeFlow (removePipe s lbl) lbl, obs)
          else ({ s with pipe := s.pipe.map fun x => if x.key == lbl then e' else x }, obs)
  | _ => (s, {})

def expire (c : Cfg) (s : St) : St :=
  let dead := (s.pipe.filter fun e => e.last + c.timeout < s.now).map (·.key)
  dead.foldl closeFlow { s with pipe := s.pipe.filter (fun e => !(e.last + c.timeout < s.now)) }

def stepAdv (c : Cfg) (s : St) (ms : Nat) : St :=
  let s := { s with now := s.now + ms }
  if s.nextTick ≤ s.now then { expire c s with nextTick := s.now + c.timeout / 4 } else s

def step (c : Cfg) (s : St) (op : Op) : St × Obs :=
  if s.finished then (s, {}) else
  match op with
  | .dg m len => stepDg c s m len
  | .reply m len => stepReply c s m len
  | .adv ms => (stepAdv c s ms, {})
  | .close => ({ s with finished := true, pipe := [], assocs := [] }, {})

def run (c : Cfg) : St → List Op → St × List Obs
  | s, [] => (s, [])
  | s, op :: ops =>
    let (s', o) := step c s op
    let (s'', os) := run c s' ops
    (s'', o :: os)

def runFrom (c : Cfg) (ops : List Op) : St × List Obs := run c (init c) ops

/-- `outbound_udp_sockets`: one per association -/
def St.gauge (s : St) : Nat := s.assocs.length
def St.flows (s : St) : Nat := s.pipe.length

end TT.UdpSocks
