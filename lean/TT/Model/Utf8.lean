/-
`std::str::from_utf8` validity (Unicode 15 table 3-7, well-formed UTF-8 byte sequences).
-/
namespace TT

def inR (lo hi x : Nat) : Bool := lo ≤ x && x ≤ hi

def validUtf8 : List Nat → Bool
  | [] => true
  | b0 :: rest =>
    if b0 ≤ 0x7f then validUtf8 rest
    else if inR 0xc2 0xdf b0 then
      match rest with
      | b1 :: r => inR 0x80 0xbf b1 && validUtf8 r
      | _ => false
    else if b0 == 0xe0 then
      match rest with
      | b1 :: b2 :: r => inR 0xa0 0xbf b1 && inR 0x80 0xbf b2 && validUtf8 r
      | _ => false
    else if inR 0xe1 0xec b0 || inR 0xee 0xef b0 then
      match rest with
      | b1 :: b2 :: r => inR 0x80 0xbf b1 && inR 0x80 0xbf b2 && validUtf8 r
      | _ => false
    else if b0 == 0xed then
      match rest with
      | b1 :: b2 :: r => inR 0x80 0x9f b1 && inR 0x80 0xbf b2 && validUtf8 r
      | _ => false
    else if b0 == 0xf0 then
      match rest with
      | b1 :: b2 :: b3 :: r => inR 0x90 0xbf b1 && inR 0x80 0xbf b2 && inR 0x80 0xbf b3 && validUtf8 r
      | _ => false
    else if inR 0xf1 0xf3 b0 then
      match rest with
      | b1 :: b2 :: b3 :: r => inR 0x80 0xbf b1 && inR 0x80 0xbf b2 && inR 0x80 0xbf b3 && validUtf8 r
      | _ => false
    else if b0 == 0xf4 then
      match rest with
      | b1 :: b2 :: b3 :: r => inR 0x80 0x8f b1 && inR 0x80 0xbf b2 && inR 0x80 0xbf b3 && validUtf8 r
      | _ => false
    else false

end TT
