/-
Shared helpers for the executable models and the line-protocol driver (core only).
-/
namespace TT

/-- hex string (lower case, `-` for empty) to bytes; `none` on malformed input -/
def hexVal (c : Char) : Option Nat :=
  if '0' ≤ c ∧ c ≤ '9' then some (c.toNat - '0'.toNat)
  else if 'a' ≤ c ∧ c ≤ 'f' then some (c.toNat - 'a'.toNat + 10)
  else if 'A' ≤ c ∧ c ≤ 'F' then some (c.toNat - 'A'.toNat + 10)
  else none

def hexDecodeChars : List Char → Option (List Nat)
  | [] => some []
  | [_] => none
  | a :: b :: rest =>
    match hexVal a, hexVal b, hexDecodeChars rest with
    | some x, some y, some r => some ((x * 16 + y) :: r)
    | _, _, _ => none

def parseHex (s : String) : Option (List Nat) :=
  if s == "-" then some [] else hexDecodeChars s.toList

def hexDigit (n : Nat) : Char :=
  if n < 10 then Char.ofNat ('0'.toNat + n) else Char.ofNat ('a'.toNat + (n - 10))

def toHex (bs : List Nat) : String :=
  if bs.isEmpty then "-" else
  String.ofList (bs.foldr (fun b acc => hexDigit (b / 16 % 16) :: hexDigit (b % 16) :: acc) [])

/-- maximal closed intervals of `[0, n)` on which `f` is true (ascending) -/
def trueIntervals (f : Nat → Bool) (n : Nat) : List (Nat × Nat) := Id.run do
  let mut out : Array (Nat × Nat) := #[]
  let mut cur : Option Nat := none
  for i in [0:n] do
    if f i then
      if cur.isNone then cur := some i
    else
      match cur with
      | some st => out := out.push (st, i - 1); cur := none
      | none => pure ()
  match cur with
  | some st => out := out.push (st, n - 1)
  | none => pure ()
  return out.toList

def fmtIntervals (l : List (Nat × Nat)) : String :=
  if l.isEmpty then "-" else ",".intercalate (l.map fun p => s!"{p.1}-{p.2}")

end TT
