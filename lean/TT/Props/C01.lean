import TT.Model.Dispatch
import TT.Lemmas.Dispatch
import TT.Props.C13
/-!
# C01  Authentication gate: no egress without valid credentials
-/
namespace TT.Dispatch
open TT TT.Gen

/-- **Gate soundness**: with an authenticator configured a request passes only if its
Proxy-Authorization carries a Basic token the authenticator accepts, or it has no such header
and the connection's SNI credentials were accepted -/
theorem gate_sound (info : AuthInfo) (policy : Policy) (a : Authn) (fa : Option Source)
    (h : gate info policy (some a) = .pass fa) :
    (∃ t, info = .basic t ∧ a.accepts (.proxyBasic t) = true ∧ fa = some (.proxyBasic t)) ∨
    (info = .absent ∧ ∃ src, policy = .authenticated src ∧ fa = some src) := by
  cases info <;> cases policy <;> simp [gate] at h ⊢
  · exact h.symm
  all_goals
    split at h
    · simp at h; simp [*]
    · simp at h

/-- the connection-level policy is `authenticated` only for SNI credentials the authenticator accepted -/
theorem policy_authenticated_only_if_accepted (a : Authn) (sni : Option (List Char)) (src : Source)
    (h : sessionPolicy (some a) sni = some (.authenticated src)) :
    ∃ c, sni = some c ∧ src = .sni c ∧ a.accepts (.sni c) = true := by
  cases sni with
  | none => simp [sessionPolicy] at h
  | some c =>
    simp only [sessionPolicy] at h
    split at h
    · simp at h; exact ⟨c, rfl, h.symm, by assumption⟩
    · simp at h

/-- a connection whose SNI credentials the authenticator rejects is dropped before any request -/
theorem rejected_sni_no_session (a : Authn) (c : List Char) (h : a.accepts (.sni c) = false) :
    sessionPolicy (some a) (some c) = none := by
  simp [sessionPolicy, h]

/-- the registry authenticator accepts exactly the Basic tokens of configured pairs and no SNI source -/
theorem registry_accepts_iff (clients : List Creds.Client) (s : Source) :
    (registryAuthn clients).accepts s = true ↔
      ∃ t, s = .proxyBasic t ∧ ∃ c ∈ clients, t = Creds.credToken c.user c.pass := by
  cases s with
  | sni c => simp [registryAuthn]
  | proxyBasic t => simp [registryAuthn, Creds.accepted_iff_listed]

/-- **Everything else is answered 407 with a Basic challenge and causes no outbound traffic** -/
theorem reject_is_407_no_egress (r : Req) (policy : Policy) (authn : Option Authn) (env : Env)
    (h : gate (authInfo r.authHdr) policy authn = .reject) :
    handle r policy authn env = [.response ⟨407, [.challenge]⟩] := by
  simp [handle, h, failWith, statusOf, warnOf]

/-- **No egress and no 200 without a pass**: any outbound action (TCP connect, UDP / ICMP
multiplexer, upstream authentication) and any 200 (health check included) belongs to a request
that passed the gate -/
theorem egress_only_after_pass (r : Req) (policy : Policy) (authn : Option Authn) (env : Env) (e : Event)
    (he : e ∈ handle r policy authn env) (hk : (∃ x, e = .egress x) ∨ e = ok200) :
    ∃ fa, gate (authInfo r.authHdr) policy authn = .pass fa := by
  cases hg : gate (authInfo r.authHdr) policy authn with
  | pass fa => exact ⟨fa, rfl⟩
  | reject =>
    rw [reject_is_407_no_egress r policy authn env hg] at he
    rcases hk with ⟨x, rfl⟩ | rfl <;> simp [ok200] at he

/-- the two statements combined, for a configured registry: an egress or a 200 implies the
request carried the token of a configured pair, or it carried no header on an SNI-authenticated
connection (which a registry never grants) -/
theorem registry_no_egress_without_credentials (clients : List Creds.Client) (r : Req) (sni : Option (List Char))
    (policy : Policy) (hp : sessionPolicy (some (registryAuthn clients)) sni = some policy) (env : Env) (e : Event)
    (he : e ∈ handle r policy (some (registryAuthn clients)) env) (hk : (∃ x, e = .egress x) ∨ e = ok200) :
    ∃ t, authInfo r.authHdr = .basic t ∧ ∃ c ∈ clients, t = Creds.credToken c.user c.pass := by
  obtain ⟨fa, hg⟩ := egress_only_after_pass r policy _ env e he hk
  rcases gate_sound _ _ _ _ hg with ⟨t, ht, hacc, -⟩ | ⟨-, src, hsrc, -⟩
  · obtain ⟨t', ht', hc⟩ := (registry_accepts_iff clients _).1 hacc
    cases ht'
    exact ⟨t, ht, hc⟩
  · subst hsrc
    obtain ⟨c, -, rfl, hacc⟩ := policy_authenticated_only_if_accepted _ _ _ hp
    simp [registryAuthn] at hacc

/-- **Per-request decision**: on a session every request is decided on its own - what request
`i` gets does not depend on the other requests, in particular not on an earlier accepted one -/
theorem decision_history_independent (policy : Policy) (authn : Option Authn) (pre post : List (Req × Env))
    (r : Req) (env : Env) :
    (session policy authn (pre ++ (r, env) :: post))[pre.length]? = some (handle r policy authn env) := by
  simp [session]

/-- header forms: only `Basic <token>` in visible ASCII is credentials; other schemes, a missing
space, another letter case or non-ASCII bytes are unreadable, hence rejected whatever the policy -/
theorem unreadable_always_rejected (policy : Policy) (authn : Option Authn) :
    gate .unreadable policy authn = .reject := by
  simp [gate]

/-- **Completeness of the gate**: a request carrying the token of a configured pair passes, on every
connection (whatever its SNI policy) - configured clients are never turned away by the gate -/
theorem configured_client_passes (clients : List Creds.Client) (c : Creds.Client) (hc : c ∈ clients) (policy : Policy) :
    gate (.basic (Creds.credToken c.user c.pass)) policy (some (registryAuthn clients)) =
      .pass (some (.proxyBasic (Creds.credToken c.user c.pass))) := by
  have h : (registryAuthn clients).accepts (.proxyBasic (Creds.credToken c.user c.pass)) = true :=
    (registry_accepts_iff clients _).2 ⟨_, rfl, c, hc, rfl⟩
  cases policy <;> simp [gate, h]

/-- **A presented token is what counts**: a request whose Basic token the authenticator rejects is
rejected even on a connection whose SNI credentials were accepted - accepted connection-level
credentials are no fallback for a wrong header -/
theorem wrong_token_rejected_on_authenticated_connection (a : Authn) (t : List Char) (policy : Policy)
    (h : a.accepts (.proxyBasic t) = false) : gate (.basic t) policy (some a) = .reject := by
  cases policy <;> simp [gate, h]

example : authInfo (some [66, 101, 97, 114, 101, 114, 32, 120]) = .unreadable := by decide  -- "Bearer x"
example : authInfo (some [98, 97, 115, 105, 99, 32, 100, 84, 112, 119]) = .unreadable := by decide  -- "basic dTpw"
example : authInfo (some [66, 97, 115, 105, 99, 32, 0xff]) = .unreadable := by decide
example : authInfo (some [66, 97, 115, 105, 99, 32, 100, 84, 112, 119]) = .basic "dTpw".toList := by decide  -- "Basic dTpw"

end TT.Dispatch
