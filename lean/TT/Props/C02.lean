import TT.Model.Pipe
import TT.Lemmas.Pipe
import TT.Model.H3Streams
import TT.Lemmas.H3Streams
/-!
# C02  TCP tunnel relays the byte stream exactly, both ways

All statements quantify over *every* sequence of environment answers: every chunking of the
source, every partial-write quota of the sink (including 0), every position of a read / write /
consume / eof / flush error, and every interleaving of timer expirations (which cancel and
restart the copy loop).
-/
namespace TT.Pipe
open TT

/-- states reachable from a fresh pipe -/
def Reachable (s : St) : Prop := ∃ rs, s = run {} rs

/-- **No loss, duplication or reordering**: at every moment, what the sink has accepted followed
by what the pipe still holds is exactly what the source has produced -/
theorem stream_invariant (rs : List Resp) (h : (run {} rs).phase ≠ .failed) :
    (run {} rs).delivered ++ pendingBytes (run {} rs) = (run {} rs).readSoFar := by
  have hi := inv_reach rs
  generalize run {} rs = s at h hi
  unfold Inv at hi
  unfold pendingBytes
  split at hi <;> simp_all

/-- even on the failure path nothing is invented or reordered: delivered bytes are a prefix of
what was read -/
theorem delivered_is_prefix (rs : List Resp) : (run {} rs).delivered <+: (run {} rs).readSoFar := by
  exact (inv_weak (inv_reach rs)).1

/-- **Credit equals bytes forwarded**: the receive-window credit returned to the sender
(`consume`) never exceeds, and at every loop head equals, the number of its bytes the sink
accepted; the metrics callback reports the same amounts -/
theorem credit_le_forwarded (rs : List Resp) :
    (run {} rs).consumed ≤ (run {} rs).delivered.length ∧ (run {} rs).metered ≤ (run {} rs).delivered.length := by
  exact (inv_weak (inv_reach rs)).2

theorem credit_eq_forwarded_at_loop_head (rs : List Resp) (h : (run {} rs).phase = .top) :
    (run {} rs).consumed = (run {} rs).delivered.length ∧ (run {} rs).metered = (run {} rs).delivered.length := by
  have hi := inv_reach rs
  simp only [Inv, h] at hi
  exact hi.2

/-- **End-of-stream is passed on only after all preceding bytes were delivered**, and a finished
direction delivered everything: `Finished` implies the source reported EOF, every byte read was
accepted by the sink, and all of it was credited -/
theorem finished_complete (rs : List Resp) (h : (run {} rs).phase = .finished) :
    (run {} rs).sawEof = true ∧ (run {} rs).delivered = (run {} rs).readSoFar ∧
    (run {} rs).pending = none ∧ (run {} rs).consumed = (run {} rs).delivered.length := by
  have hi := inv_reach rs
  simp only [Inv, h] at hi
  exact ⟨hi.2.2.1, hi.2.1, hi.1, hi.2.2.2.1⟩

theorem eof_only_when_drained (rs : List Resp)
    (h : (run {} rs).phase = .eofing ∨ (run {} rs).phase = .flushing) :
    (run {} rs).delivered = (run {} rs).readSoFar ∧ (run {} rs).pending = none := by
  have hi := inv_reach rs
  rcases h with h | h <;> simp only [Inv, h] at hi <;> exact ⟨hi.2.1, hi.1⟩

/-- order of calls: `eof()` is issued after the last `write`, `flush()` after `eof()` -/
theorem eof_after_writes (rs : List Resp) (pre post : List Call) (h : calls {} rs = pre ++ Call.sinkEof :: post) :
    (∀ c ∈ post, ∀ d, c ≠ Call.write d) ∧ (∀ c ∈ post, c = Call.flush) := by
  have hf := calls_split_eof rs pre post h
  refine ⟨fun c hc d hcd => ?_, hf⟩
  have := hf c hc
  rw [this] at hcd
  cases hcd

/-- **Cancellation and restart by the idle timer loses nothing**: a `timeout` answer changes
neither the delivered bytes, nor the pending chunk, nor the credit -/
theorem restart_preserves (s : St) (h : s.phase = .top) :
    let s' := feed s .timeout
    s'.phase = .top ∧ s'.pending = s.pending ∧ s'.delivered = s.delivered ∧ s'.readSoFar = s.readSoFar ∧
    s'.consumed = s.consumed := by
  simp [feed, h]

/-- **A failure stops the direction at once**: after an error no further call is issued -/
theorem no_call_after_failure (rs rs' : List Resp) (h : (run {} rs).phase = .failed) :
    next (run {} (rs ++ rs')) = none ∧ (run {} (rs ++ rs')).delivered = (run {} rs).delivered := by
  rw [run_append]
  have := run_failed rs' h
  exact ⟨by simp [next, this.1], this.2⟩

/-! ### both directions -/

/-- **Clean end iff both directions ended**, and a failure on either side tears the whole tunnel
down: the outcome is `ok` exactly when both simplex pipes finished, and once the outcome is
decided neither direction is advanced any more (no write after the failure, in either direction) -/
theorem duplex_clean_end (evs : List (Dir × Resp)) :
    (drun {} evs).outcome = .ok → (drun {} evs).left.phase = .finished ∧ (drun {} evs).right.phase = .finished := by
  exact (dinv_reach evs).1

theorem duplex_error_teardown (evs evs' : List (Dir × Resp)) (h : (drun {} evs).outcome = .error) :
    drun {} (evs ++ evs') = drun {} evs := by
  rw [drun_append]
  exact drun_decided evs' (by simp [h])

theorem duplex_failure_is_error (evs : List (Dir × Resp)) (h : (drun {} evs).outcome = .running) :
    (drun {} evs).left.phase ≠ .failed ∧ (drun {} evs).right.phase ≠ .failed := by
  exact (dinv_reach evs).2.1 h

/-- each direction of a duplex pipe is itself a reachable simplex pipe, so all the statements
above hold for both directions of every tunnel -/
theorem duplex_directions_reachable (evs : List (Dir × Resp)) :
    Reachable (drun {} evs).left ∧ Reachable (drun {} evs).right := by
  exact (dinv_reach evs).2.2

example : (run {} [.chunk [1, 2, 3], .accepted 2, .unit, .unit, .timeout, .unit, .accepted 1, .unit, .unit,
    .eof, .unit, .unit]).phase = .finished := by decide
example : (run {} [.chunk [1, 2, 3], .accepted 2, .unit, .unit, .timeout, .unit, .accepted 1, .unit, .unit,
    .eof, .unit, .unit]).delivered = [1, 2, 3] := by decide

end TT.Pipe

/-! ### the HTTP/3 codec's stream table (`http3_codec.rs`, model `TT.H3Streams`)

An HTTP/3 tunnel's two directions end independently; the codec's table says which half of which
stream is still open. -/
namespace TT.H3Streams

def Op.streamId : Op → Nat
  | .request id | .readFinished id | .close id | .shutdown id _ | .failed id => id

/-- one entry per stream, and no entry with both directions shut down: such a stream is removed -/
def Inv (t : Table) : Prop :=
  (t.map (·.id)).Nodup ∧ ∀ e ∈ t, ¬ (e.readShut = true ∧ e.writeShut = true)

theorem table_invariant (ops : List Op) : Inv (run [] ops) := by
  have hstep : ∀ (t : Table) (op : Op), Inv t → Inv (step t op) := by
    intro t op h
    cases op with
    | request id =>
      refine ⟨?_, ?_⟩
      · show ((t.filter (fun x => x.id != id) ++ [(⟨id, false, false⟩ : Entry)]).map (fun x : Entry => x.id)).Nodup
        rw [List.map_append, List.nodup_append]
        refine ⟨filter_ids_nodup _ h.1, by simp, ?_⟩
        intro a ha b hb
        rcases List.mem_map.1 ha with ⟨x, hx, rfl⟩
        have hb' : b = id := by simpa using hb
        rw [hb']
        exact filter_ne_id t id x hx
      · intro e he
        rcases List.mem_append.1 he with he | he
        · exact h.2 e (List.mem_filter.1 he).1
        · have : e = ⟨id, false, false⟩ := by simpa using he
          rw [this]
          simp
    | readFinished id => exact h
    | close id => exact ⟨shutdown_nodup t id _ h.1, shutdown_no_dead t id _ h.2⟩
    | shutdown id d => exact ⟨shutdown_nodup t id _ h.1, shutdown_no_dead t id _ h.2⟩
    | failed id => exact ⟨shutdown_nodup t id _ h.1, shutdown_no_dead t id _ h.2⟩
  have hrun : ∀ (ops : List Op) (t : Table), Inv t → Inv (run t ops) := by
    intro ops
    induction ops with
    | nil => intro t h; exact h
    | cons op ops ih => intro t h; exact ih (step t op) (hstep t op h)
  exact hrun ops [] ⟨List.Pairwise.nil, fun e he => by cases he⟩

/-- **The end of the client's sending side leaves the response side alone** (the table is not
touched: the stream stays until its own writer ends it) -/
theorem read_finished_keeps_response_side (t : Table) (id : Nat) : step t (.readFinished id) = t := rfl

/-- a reset by the client removes the stream, whatever state it was in -/
theorem reset_removes_stream (t : Table) (id : Nat) (h : Inv t) : ∀ e ∈ step t (.close id), e.id ≠ id := by
  have _ := h
  exact shutdown_both_removes t id

/-- shutting one half down keeps the stream with exactly that half closed; the second half removes it,
in either order -/
theorem halves_end_independently (t : Table) (id : Nat) (h : Inv t) (he : ⟨id, false, false⟩ ∈ t) :
    (⟨id, true, false⟩ ∈ step t (.shutdown id .read)) ∧
    (⟨id, false, true⟩ ∈ step t (.shutdown id .write)) ∧
    (∀ e ∈ run t [.shutdown id .read, .shutdown id .write], e.id ≠ id) ∧
    (∀ e ∈ run t [.shutdown id .write, .shutdown id .read], e.id ≠ id) := by
  have hf : t.find? (fun x => x.id == id) = some ⟨id, false, false⟩ := find_of_mem h.1 he
  have hr : step t (.shutdown id .read) = t.map (fun x => if x.id == id then
      { x with readShut := true, writeShut := false } else x) :=
    shutdown_keeps t id .read _ hf (by simp [Dir.closesRead, Dir.closesWrite])
  have hw : step t (.shutdown id .write) = t.map (fun x => if x.id == id then
      { x with readShut := false, writeShut := true } else x) :=
    shutdown_keeps t id .write _ hf (by simp [Dir.closesRead, Dir.closesWrite])
  have hmr : (⟨id, true, false⟩ : Entry) ∈ step t (.shutdown id .read) := by
    rw [hr]
    exact List.mem_map.2 ⟨_, he, by simp⟩
  have hmw : (⟨id, false, true⟩ : Entry) ∈ step t (.shutdown id .write) := by
    rw [hw]
    exact List.mem_map.2 ⟨_, he, by simp⟩
  have hnr : ((step t (.shutdown id .read)).map (·.id)).Nodup := shutdown_nodup t id _ h.1
  have hnw : ((step t (.shutdown id .write)).map (·.id)).Nodup := shutdown_nodup t id _ h.1
  refine ⟨hmr, hmw, ?_, ?_⟩
  · show ∀ e ∈ shutdownStream (step t (.shutdown id .read)) id .write, e.id ≠ id
    rw [shutdown_removes _ id .write _ (find_of_mem hnr hmr) (by simp [Dir.closesRead, Dir.closesWrite])]
    exact filter_ne_id _ id
  · show ∀ e ∈ shutdownStream (step t (.shutdown id .write)) id .read, e.id ≠ id
    rw [shutdown_removes _ id .read _ (find_of_mem hnw hmw) (by simp [Dir.closesRead, Dir.closesWrite])]
    exact filter_ne_id _ id

/-- **Streams do not disturb each other**: an operation on one stream leaves every other stream's
entry exactly as it was -/
theorem other_streams_untouched (t : Table) (op : Op) (e : Entry) (hne : e.id ≠ op.streamId) :
    e ∈ step t op ↔ e ∈ t := by
  cases op with
  | request id =>
    have hne' : e.id ≠ id := hne
    show e ∈ t.filter (fun x => x.id != id) ++ [⟨id, false, false⟩] ↔ e ∈ t
    rw [List.mem_append, List.mem_filter]
    constructor
    · rintro (h | h)
      · exact h.1
      · have : e = ⟨id, false, false⟩ := by simpa using h
        rw [this] at hne'
        exact absurd rfl hne'
    · intro h
      exact Or.inl ⟨h, by simpa using hne'⟩
  | readFinished id => exact Iff.rfl
  | close id => exact shutdown_mem_of_ne t id _ e hne
  | shutdown id d => exact shutdown_mem_of_ne t id _ e hne
  | failed id => exact shutdown_mem_of_ne t id _ e hne

/-- an operation on a stream that is not (or no longer) in the table changes nothing - except a new
request, which adds exactly one open entry -/
theorem unknown_stream_is_noop (t : Table) (op : Op) (hu : ∀ e ∈ t, e.id ≠ op.streamId) :
    step t op = match op with
      | .request id => t ++ [⟨id, false, false⟩]
      | _ => t := by
  cases op with
  | request id =>
    show t.filter (fun x => x.id != id) ++ [⟨id, false, false⟩] = t ++ [⟨id, false, false⟩]
    have : t.filter (fun x => x.id != id) = t := by
      rw [List.filter_eq_self]
      intro a ha
      have hu' : a.id ≠ id := hu a ha
      simpa using hu'
    rw [this]
  | readFinished id => rfl
  | close id => exact shutdown_of_unknown t id _ hu
  | shutdown id d => exact shutdown_of_unknown t id _ hu
  | failed id => exact shutdown_of_unknown t id _ hu

/-- **A stream that is gone stays gone**: once a stream has no entry (both halves ended, or reset),
no later operation - late shutdown messages from its dropped halves, failures, operations on other
streams - brings an entry for it back; only a new request with that id does. So late messages of a
finished stream cannot leave a stale entry behind -/
theorem removed_stays_removed (ops : List Op) (t : Table) (id : Nat) (hu : ∀ e ∈ t, e.id ≠ id)
    (hno : ∀ op ∈ ops, op ≠ .request id) : ∀ e ∈ run t ops, e.id ≠ id := by
  induction ops generalizing t with
  | nil => exact hu
  | cons op ops ih =>
    show ∀ e ∈ run (step t op) ops, e.id ≠ id
    apply ih
    · intro e he heq
      by_cases hs : op.streamId = id
      · have hnoop := unknown_stream_is_noop t op (by rw [hs]; exact hu)
        have hne : op ≠ .request id := hno op (by simp)
        cases op with
        | request i =>
          have : i = id := hs
          exact hne (by rw [this])
        | readFinished i => rw [hnoop] at he; exact hu e he heq
        | close i => rw [hnoop] at he; exact hu e he heq
        | shutdown i d => rw [hnoop] at he; exact hu e he heq
        | failed i => rw [hnoop] at he; exact hu e he heq
      · have := (other_streams_untouched t op e (by rw [heq]; exact fun h => hs h.symm)).1 he
        exact hu e this heq
    · intro o ho
      exact hno o (by simp [ho])

/-- after a reset of a stream, whatever follows short of a new request with its id (late messages of its
halves, traffic of other streams) leaves no entry for it -/
theorem finished_stream_leaves_no_entry (t : Table) (id : Nat) (late : List Op)
    (hno : ∀ op ∈ late, op ≠ .request id) : ∀ e ∈ run (step t (.close id)) late, e.id ≠ id :=
  removed_stays_removed late _ id (shutdown_both_removes t id) hno

/-- a new request opens its stream with both halves open, whatever an earlier stream of that id left
behind: afterwards the only entry for the id is the fresh one -/
theorem request_opens_fresh (t : Table) (id : Nat) :
    (⟨id, false, false⟩ : Entry) ∈ step t (.request id) ∧
    ∀ e ∈ step t (.request id), e.id = id → e = ⟨id, false, false⟩ := by
  refine ⟨by simp [step], ?_⟩
  intro e he heq
  simp only [step, List.mem_append, List.mem_filter, List.mem_singleton] at he
  rcases he with ⟨_, hne⟩ | h
  · simp [heq] at hne
  · exact h

example : run [] [.request 0, .shutdown 0 .both, .request 4, .readFinished 4, .shutdown 4 .read, .request 8,
    .shutdown 4 .write, .close 8, .failed 8] = [] := by decide
example : run [] [.request 0, .request 4, .readFinished 0, .shutdown 0 .read, .shutdown 4 .write]
    = [⟨0, true, false⟩, ⟨4, false, true⟩] := by decide

end TT.H3Streams
