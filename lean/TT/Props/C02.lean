import TT.Model.Pipe
import TT.Lemmas.Pipe
/-!
# C02  TCP tunnel relays the byte stream exactly, both ways

All statements quantify over *every* sequence of environment answers: every chunking of the
source, every partial-write quota of the sink (including 0), every position of a read / write /
consume / eof / flush error, and every interleaving of timer expirations (which cancel and
restart the copy loop).
-/
namespace TT.Pipe
open TT

/-- states reachable from a fresh pipe -/
def Reachable (s : St) : Prop := ∃ rs, s = run {} rs

/-- **No loss, duplication or reordering**: at every moment, what the sink has accepted followed
by what the pipe still holds is exactly what the source has produced -/
theorem stream_invariant (rs : List Resp) (h : (run {} rs).phase ≠ .failed) :
    (run {} rs).delivered ++ pendingBytes (run {} rs) = (run {} rs).readSoFar := by
  have hi := inv_reach rs
  generalize run {} rs = s at h hi
  unfold Inv at hi
  unfold pendingBytes
  split at hi <;> simp_all

/-- even on the failure path nothing is invented or reordered: delivered bytes are a prefix of
what was read -/
theorem delivered_is_prefix (rs : List Resp) : (run {} rs).delivered <+: (run {} rs).readSoFar := by
  exact (inv_weak (inv_reach rs)).1

/-- **Credit equals bytes forwarded**: the receive-window credit returned to the sender
(`consume`) never exceeds, and at every loop head equals, the number of its bytes the sink
accepted; the metrics callback reports the same amounts -/
theorem credit_le_forwarded (rs : List Resp) :
    (run {} rs).consumed ≤ (run {} rs).delivered.length ∧ (run {} rs).metered ≤ (run {} rs).delivered.length := by
  exact (inv_weak (inv_reach rs)).2

theorem credit_eq_forwarded_at_loop_head (rs : List Resp) (h : (run {} rs).phase = .top) :
    (run {} rs).consumed = (run {} rs).delivered.length ∧ (run {} rs).metered = (run {} rs).delivered.length := by
  have hi := inv_reach rs
  simp only [Inv, h] at hi
  exact hi.2

/-- **End-of-stream is passed on only after all preceding bytes were delivered**, and a finished
direction delivered everything: `Finished` implies the source reported EOF, every byte read was
accepted by the sink, and all of it was credited -/
theorem finished_complete (rs : List Resp) (h : (run {} rs).phase = .finished) :
    (run {} rs).sawEof = true ∧ (run {} rs).delivered = (run {} rs).readSoFar ∧
    (run {} rs).pending = none ∧ (run {} rs).consumed = (run {} rs).delivered.length := by
  have hi := inv_reach rs
  simp only [Inv, h] at hi
  exact ⟨hi.2.2.1, hi.2.1, hi.1, hi.2.2.2.1⟩

theorem eof_only_when_drained (rs : List Resp)
    (h : (run {} rs).phase = .eofing ∨ (run {} rs).phase = .flushing) :
    (run {} rs).delivered = (run {} rs).readSoFar ∧ (run {} rs).pending = none := by
  have hi := inv_reach rs
  rcases h with h | h <;> simp only [Inv, h] at hi <;> exact ⟨hi.2.1, hi.1⟩

/-- order of calls: `eof()` is issued after the last `write`, `flush()` after `eof()` -/
theorem eof_after_writes (rs : List Resp) (pre post : List Call) (h : calls {} rs = pre ++ Call.sinkEof :: post) :
    (∀ c ∈ post, ∀ d, c ≠ Call.write d) ∧ (∀ c ∈ post, c = Call.flush) := by
  have hf := calls_split_eof rs pre post h
  refine ⟨fun c hc d hcd => ?_, hf⟩
  have := hf c hc
  rw [this] at hcd
  cases hcd

/-- **Cancellation and restart by the idle timer loses nothing**: a `timeout` answer changes
neither the delivered bytes, nor the pending chunk, nor the credit -/
theorem restart_preserves (s : St) (h : s.phase = .top) :
    let s' := feed s .timeout
    s'.phase = .top ∧ s'.pending = s.pending ∧ s'.delivered = s.delivered ∧ s'.readSoFar = s.readSoFar ∧
    s'.consumed = s.consumed := by
  simp [feed, h]

/-- **A failure stops the direction at once**: after an error no further call is issued -/
theorem no_call_after_failure (rs rs' : List Resp) (h : (run {} rs).phase = .failed) :
    next (run {} (rs ++ rs')) = none ∧ (run {} (rs ++ rs')).delivered = (run {} rs).delivered := by
  rw [run_append]
  have := run_failed rs' h
  exact ⟨by simp [next, this.1], this.2⟩

/-! ### both directions -/

/-- **Clean end iff both directions ended**, and a failure on either side tears the whole tunnel
down: the outcome is `ok` exactly when both simplex pipes finished, and once the outcome is
decided neither direction is advanced any more (no write after the failure, in either direction) -/
theorem duplex_clean_end (evs : List (Dir × Resp)) :
    (drun {} evs).outcome = .ok → (drun {} evs).left.phase = .finished ∧ (drun {} evs).right.phase = .finished := by
  exact (dinv_reach evs).1

theorem duplex_error_teardown (evs evs' : List (Dir × Resp)) (h : (drun {} evs).outcome = .error) :
    drun {} (evs ++ evs') = drun {} evs := by
  rw [drun_append]
  exact drun_decided evs' (by simp [h])

theorem duplex_failure_is_error (evs : List (Dir × Resp)) (h : (drun {} evs).outcome = .running) :
    (drun {} evs).left.phase ≠ .failed ∧ (drun {} evs).right.phase ≠ .failed := by
  exact (dinv_reach evs).2.1 h

/-- each direction of a duplex pipe is itself a reachable simplex pipe, so all the statements
above hold for both directions of every tunnel -/
theorem duplex_directions_reachable (evs : List (Dir × Resp)) :
    Reachable (drun {} evs).left ∧ Reachable (drun {} evs).right := by
  exact (dinv_reach evs).2.2

example : (run {} [.chunk [1, 2, 3], .accepted 2, .unit, .unit, .timeout, .unit, .accepted 1, .unit, .unit,
    .eof, .unit, .unit]).phase = .finished := by decide
example : (run {} [.chunk [1, 2, 3], .accepted 2, .unit, .unit, .timeout, .unit, .accepted 1, .unit, .unit,
    .eof, .unit, .unit]).delivered = [1, 2, 3] := by decide

end TT.Pipe
