import TT.Model.Ip
import TT.Lemmas.Ip
/-!
# C03  Private-network egress policy is exact for every destination spelling

Property theorems only.  The model (`TT/Model/Ip.lean`) transcribes `is_global_ip*` and the
destination selection of `TcpForwarder::connect`; the correspondence suite `c03` evaluates the
real classifier on all 2^32 IPv4 addresses and on structural classes of IPv6 addresses and runs
the real `connect()` with scripted resolver answers.
-/
namespace TT.Ip

/-- Octets come from `u8`, hextets from `u16`. -/
def V6.WF (x : V6) : Prop :=
  x.s0 < 65536 ∧ x.s1 < 65536 ∧ x.s2 < 65536 ∧ x.s3 < 65536 ∧
  x.s4 < 65536 ∧ x.s5 < 65536 ∧ x.s6 < 65536 ∧ x.s7 < 65536

def Ip.WF : Ip → Prop
  | .v4 a b c d => a < 256 ∧ b < 256 ∧ c < 256 ∧ d < 256
  | .v6 x => x.WF

/-- **IPv4, all 2^32 addresses**: the classifier refuses exactly the IANA blocks the property
names (0/8, 10/8, 100.64/10, 127/8, 169.254/16, 172.16/12, 192.0.0/24 minus .9 and .10,
192.0.2/24, 192.168/16, 198.18/15, 198.51.100/24, 203.0.113/24, 240/4 incl. broadcast) and
nothing else. -/
theorem v4_exact (a b c d : Nat) (ha : a < 256) (hb : b < 256) (hc : c < 256) (hd : d < 256) :
    isGlobalV4 a b c d = !v4Blocked (toN a b c d) := by
  have h1 := isGlobalV4_iff_oct ha hb hc hd
  have h2 := v4Blocked_iff ha hb hc hd
  cases hg : isGlobalV4 a b c d <;> cases hb' : v4Blocked (toN a b c d) <;> simp_all

/-- non-vacuity / sanity: sample points on both sides of block boundaries -/
example : isGlobalV4 8 8 8 8 = true ∧ isGlobalV4 127 0 0 1 = false ∧ isGlobalV4 192 0 0 9 = true
    ∧ isGlobalV4 192 0 0 8 = false ∧ isGlobalV4 100 63 255 255 = true ∧ isGlobalV4 100 64 0 0 = false
    ∧ isGlobalV4 239 255 255 255 = true ∧ isGlobalV4 255 255 255 255 = false := by decide +kernel

/-- **IPv6 unicast, not IPv4-mapped**: refused exactly for ::1, ::, fe80::/10, fc00::/7 and
2001:db8::/32 - every other unicast address is allowed (so 2001:4860:4860::8888 is, and fd0e::1,
fe8e::1 are not). -/
theorem v6_unicast_exact (x : V6) (hw : x.WF) (hm : v6Mapped x = none) (hu : v6IsMulticast x = false) :
    isGlobalV6 x = !v6UnicastBlocked x := by
  obtain ⟨h0, -⟩ := hw
  unfold isGlobalV6
  rw [hm]; simp only [hu, Bool.false_eq_true, if_false]
  unfold isUnicastGlobalV6 v6UnicastBlocked
  rw [hu]
  have e1 : ((x.s0 &&& 0xffc0) == 0xfe80) = (decide (0xfe80 ≤ x.s0) && decide (x.s0 ≤ 0xfebf)) := by
    rw [and_ffc0, Bool.eq_iff_iff]; simp only [beq_iff_eq, Bool.and_eq_true, decide_eq_true_eq]; omega
  have e2 : ((x.s0 &&& 0xfe00) == 0xfc00) = (decide (0xfc00 ≤ x.s0) && decide (x.s0 ≤ 0xfdff)) := by
    rw [and_fe00, Bool.eq_iff_iff]; simp only [beq_iff_eq, Bool.and_eq_true, decide_eq_true_eq]; omega
  rw [e1, e2]
  cases v6IsLoopback x <;> cases v6IsUnspecified x <;>
    cases (decide (0xfe80 ≤ x.s0) && decide (x.s0 ≤ 0xfebf)) <;>
    cases (decide (0xfc00 ≤ x.s0) && decide (x.s0 ≤ 0xfdff)) <;>
    cases (x.s0 == 0x2001 && x.s1 == 0xdb8) <;> rfl

example : isGlobalV6 ⟨0x2001, 0x4860, 0x4860, 0, 0, 0, 0, 0x8888⟩ = true
    ∧ isGlobalV6 ⟨0xfd0e, 0, 0, 0, 0, 0, 0, 1⟩ = false
    ∧ isGlobalV6 ⟨0xfe8e, 0, 0, 0, 0, 0, 0, 1⟩ = false
    ∧ isGlobalV6 ⟨0, 0, 0, 0, 0, 0, 0, 1⟩ = false := by decide +kernel

theorem hi_byte (a b : Nat) (hb : b < 256) : (a * 256 + b) / 256 = a := by omega
theorem lo_byte (a b : Nat) (hb : b < 256) : (a * 256 + b) % 256 = b := by omega

/-- **IPv4-mapped IPv6**: `::ffff:a.b.c.d` is classified exactly as `a.b.c.d`. -/
theorem v6_mapped_consistent (a b c d : Nat) (ha : a < 256) (hb : b < 256) (hc : c < 256) (hd : d < 256) :
    isGlobalV6 ⟨0, 0, 0, 0, 0, 0xffff, a * 256 + b, c * 256 + d⟩ = isGlobalV4 a b c d := by
  have e1 := hi_byte a b hb
  have e2 := lo_byte a b hb
  have e3 := hi_byte c d hd
  have e4 := lo_byte c d hd
  simp [isGlobalV6, v6Mapped, e1, e2, e3, e4]

/-- hence a mapped address is refused iff the embedded IPv4 address is in a listed block -/
theorem v6_mapped_exact (a b c d : Nat) (ha : a < 256) (hb : b < 256) (hc : c < 256) (hd : d < 256) :
    isGlobalV6 ⟨0, 0, 0, 0, 0, 0xffff, a * 256 + b, c * 256 + d⟩ = !v4Blocked (toN a b c d) := by
  rw [v6_mapped_consistent a b c d ha hb hc hd, v4_exact a b c d ha hb hc hd]

example : isGlobalV6 ⟨0, 0, 0, 0, 0, 0xffff, 0x7f00, 0x0001⟩ = false
    ∧ isGlobalV6 ⟨0, 0, 0, 0, 0, 0xffff, 0x0a00, 0x0001⟩ = false
    ∧ isGlobalV6 ⟨0, 0, 0, 0, 0, 0xffff, 0x0808, 0x0808⟩ = true := by decide +kernel

/-! ### Destination selection (`TcpForwarder::connect`) -/

/-- the loop only ever yields a `suitable` element of the answer list which is global (or the
policy allows everything), has an admissible family, and all *earlier* admissible answers were
non-global: i.e. it is the first suitable answer. -/
theorem selectLoop_suitable (allow v6ok : Bool) :
    ∀ (l : List Sock) (st : Option Sel) (a : Sock), (∀ b, st ≠ some (.suitable b)) →
      selectLoop allow v6ok st l = some (.suitable a) →
      ∃ pre post, l = pre ++ a :: post ∧ (isGlobal a.ip || allow) = true ∧
        (a.ip.isV6 && !v6ok) = false ∧
        ∀ b ∈ pre, (b.ip.isV6 && !v6ok) = true ∨ (isGlobal b.ip || allow) = false := by
  intro l
  induction l with
  | nil => intro st a hst h; simp [selectLoop] at h; exact absurd h (hst a)
  | cons x rest ih =>
    intro st a hst h
    unfold selectLoop at h
    split at h
    · rename_i hskip
      obtain ⟨pre, post, e, h1, h2, h3⟩ := ih st a hst h
      refine ⟨x :: pre, post, by simp [e], h1, h2, ?_⟩
      intro b hb
      rcases List.mem_cons.1 hb with rfl | hb
      · left; exact hskip
      · exact h3 b hb
    · rename_i hskip
      split at h
      · rename_i hok
        injection h with h; injection h with h; subst h
        exact ⟨[], rest, rfl, hok, by simpa using hskip, by simp⟩
      · rename_i hok
        have hx : (isGlobal x.ip || allow) = false := by simpa using hok
        split at h
        all_goals
          obtain ⟨pre, post, e, h1, h2, h3⟩ := ih _ a (by intro b; simp) h
          refine ⟨x :: pre, post, by simp [e], h1, h2, ?_⟩
          intro b hb
          rcases List.mem_cons.1 hb with rfl | hb
          · right; exact hx
          · exact h3 b hb

/-- **No connection attempt to a non-global address** when private networks are disallowed,
for literals and for every resolver answer in every order; and the address connected to is
the very address that passed the check (an element of the single resolver answer). -/
theorem connect_only_global (v6ok : Bool) (dst : Dest) (a : Sock)
    (h : connectDecision false v6ok dst = .connect a) :
    isGlobal a.ip = true ∧
    (match dst with
     | .addr lit => a = lit
     | .host none => False
     | .host (some answers) => ∃ pre post, answers = pre ++ a :: post ∧
         (a.ip.isV6 && !v6ok) = false ∧
         ∀ b ∈ pre, (b.ip.isV6 && !v6ok) = true ∨ isGlobal b.ip = false) := by
  cases dst with
  | addr lit =>
    simp only [connectDecision, Bool.not_false, Bool.true_and] at h
    split at h
    · split at h <;> cases h
    · rename_i hg
      injection h with h; subst h
      exact ⟨by simpa using hg, rfl⟩
  | host ans =>
    cases ans with
    | none => simp [connectDecision] at h
    | some answers =>
      simp only [connectDecision] at h
      split at h
      · cases h
      · cases h
      · cases h
      · rename_i b hb
        injection h with h; subst h
        obtain ⟨pre, post, e, h1, h2, h3⟩ := selectLoop_suitable false v6ok answers none b (by intro b; simp) hb
        simp only [Bool.or_false] at h1 h3
        exact ⟨h1, pre, post, e, h2, h3⟩

/-- **A globally routable literal destination is never refused by the policy** -/
theorem global_literal_never_refused (allow v6ok : Bool) (lit : Sock) (hg : isGlobal lit.ip = true) :
    connectDecision allow v6ok (.addr lit) = .connect lit := by
  simp [connectDecision, hg]

theorem selectLoop_finds (allow v6ok : Bool) :
    ∀ (l : List Sock) (st : Option Sel), (∃ a ∈ l, (a.ip.isV6 && !v6ok) = false ∧ isGlobal a.ip = true) →
      ∃ b, selectLoop allow v6ok st l = some (.suitable b) := by
  intro l
  induction l with
  | nil => intro st ⟨a, ha, _⟩; cases ha
  | cons x rest ih =>
    intro st ⟨a, ha, h1, h2⟩
    unfold selectLoop
    rcases List.mem_cons.1 ha with rfl | ha
    · simp [h1, h2]
    · split
      · exact ih st ⟨a, ha, h1, h2⟩
      · split
        · exact ⟨x, rfl⟩
        · split
          · exact ih _ ⟨a, ha, h1, h2⟩
          · exact ih _ ⟨a, ha, h1, h2⟩

/-- ... and a host name with at least one admissible globally routable answer is connected -/
theorem global_host_never_refused (allow v6ok : Bool) (answers : List Sock)
    (h : ∃ a ∈ answers, (a.ip.isV6 && !v6ok) = false ∧ isGlobal a.ip = true) :
    ∃ b, connectDecision allow v6ok (.host (some answers)) = .connect b := by
  obtain ⟨b, hb⟩ := selectLoop_finds allow v6ok answers none h
  exact ⟨b, by simp [connectDecision, hb]⟩

/-- **Refusals are reported, not attempted**: a non-global literal under the restrictive policy
yields the loopback (311) or non-routable (310) outcome and never a connect. -/
theorem literal_refusal (v6ok : Bool) (lit : Sock) (hg : isGlobal lit.ip = false) :
    connectDecision false v6ok (.addr lit) = (if isLoopback lit.ip then .loopback else .nonroutable) := by
  simp [connectDecision, hg]

/-- with the policy switched off (allow = true) every literal is connected as given -/
theorem allow_connects_literal (v6ok : Bool) (lit : Sock) :
    connectDecision true v6ok (.addr lit) = .connect lit := by
  simp [connectDecision]

/-- **A name that resolves only to non-global addresses is refused**, whatever the number and order of
the answers: no connection attempt is made to any of them -/
theorem host_without_global_answer_refused (v6ok : Bool) (answers : List Sock)
    (h : ∀ a ∈ answers, isGlobal a.ip = false) (b : Sock) :
    connectDecision false v6ok (.host (some answers)) ≠ .connect b := by
  intro hb
  obtain ⟨hg, pre, post, e, _, _⟩ := connect_only_global v6ok _ b hb
  have := h b (by rw [e]; simp)
  rw [hg] at this
  cases this

/-- a resolver error or an empty answer is reported as a failure, never connected anywhere -/
theorem no_answer_no_connection (allow v6ok : Bool) :
    connectDecision allow v6ok (.host none) = .resolveFailed ∧
    connectDecision allow v6ok (.host (some [])) = .resolveFailed := by
  simp [connectDecision, selectLoop]

/-- the resolver's answers behind the first suitable one do not matter -/
theorem answers_after_first_suitable_irrelevant (allow v6ok : Bool) (pre post post' : List Sock) (a : Sock)
    (st : Option Sel) (hf : (a.ip.isV6 && !v6ok) = false) (hg : (isGlobal a.ip || allow) = true) :
    selectLoop allow v6ok st (pre ++ a :: post) = selectLoop allow v6ok st (pre ++ a :: post') := by
  induction pre generalizing st with
  | nil => simp [selectLoop, hf, hg]
  | cons x xs ih =>
    simp only [List.cons_append]
    unfold selectLoop
    split
    · exact ih st
    · split
      · rfl
      · split
        · exact ih _
        · exact ih _

example : connectDecision false true (.host (some [⟨.v4 10 0 0 1, 80⟩, ⟨.v4 8 8 8 8, 80⟩]))
    = .connect ⟨.v4 8 8 8 8, 80⟩ := by decide +kernel
example : connectDecision false true (.host (some [⟨.v4 127 0 0 1, 80⟩, ⟨.v4 10 0 0 1, 80⟩])) = .nonroutable := by decide +kernel
example : connectDecision false true (.host (some [⟨.v4 127 0 0 1, 80⟩])) = .loopback := by decide +kernel

end TT.Ip
