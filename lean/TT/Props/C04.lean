import TT.Model.Rules
import TT.Lemmas.Rules
/-!
# C04  Connection filtering rules: first match wins, fail closed, enforced early
-/
namespace TT.Rules
open TT

/-- **First match wins**: the verdict is the action of the first rule, in file order, that
matches; rules after it are irrelevant (when a client random is available or no rule needs one). -/
theorem first_match_wins (pre : List Rule) (r : Rule) (post : List Rule) (ip : Addr) (random : Option Bytes)
    (hpre : ∀ q ∈ pre, q.matches ip random = false) (hr : r.matches ip random = true)
    (hrand : random.isSome ∨ ∀ q ∈ pre ++ r :: post, q.pattern = none) :
    evaluate (pre ++ r :: post) ip random = r.action.toVerdict := by
  have hfind : (pre ++ r :: post).find? (fun q => q.matches ip random) = some r := by
    rw [List.find?_append]
    have : pre.find? (fun q => q.matches ip random) = none := by
      rw [List.find?_eq_none]; intro q hq; simp [hpre q hq]
    simp [this, hr]
  unfold evaluate firstMatch
  rw [hfind]
  rcases hrand with h | h
  · cases random <;> simp_all
  · have : (pre ++ r :: post).any (fun q => q.pattern.isSome) = false := by
      rw [List.any_eq_false]; intro q hq; simp [h q hq]
    simp [this]

/-- **Default allow** when no rule matches -/
theorem default_allow (rules : List Rule) (ip : Addr) (random : Option Bytes)
    (h : ∀ q ∈ rules, q.matches ip random = false)
    (hrand : random.isSome ∨ ∀ q ∈ rules, q.pattern = none) :
    evaluate rules ip random = .allow := by
  have hfind : rules.find? (fun q => q.matches ip random) = none := by
    rw [List.find?_eq_none]; intro q hq; simp [h q hq]
  unfold evaluate firstMatch
  rw [hfind]
  rcases hrand with h | h
  · cases random <;> simp_all
  · have : rules.any (fun q => q.pattern.isSome) = false := by
      rw [List.any_eq_false]; intro q hq; simp [h q hq]
    simp [this]

/-- **Fail closed**: if any rule needs a client random and none is available, deny -/
theorem fail_closed_without_random (rules : List Rule) (ip : Addr) (r : Rule) (hr : r ∈ rules)
    (hp : r.pattern.isSome) : evaluate rules ip none = .deny := by
  have : rules.any (fun q => q.pattern.isSome) = true := List.any_eq_true.2 ⟨r, hr, hp⟩
  simp [evaluate, this]

/-- **Prefix semantics**: a pattern without mask matches iff the random starts with the decoded bytes -/
theorem prefix_semantics (pat : List Char) (p random : Bytes) (hs : splitSlash pat = none)
    (hd : hexDecode pat = some p) :
    patternMatches pat random = some (p.isPrefixOf random) := by
  simp [patternMatches, hs, hd]

/-- **Mask semantics**: `prefix/mask` with equal lengths not longer than the random matches iff
every byte agrees under the mask (bitwise), and an empty pattern never matches -/
theorem mask_semantics (pat pre mask : List Char) (p m random : Bytes)
    (hs : splitSlash pat = some (pre, mask)) (hp : hexDecode pre = some p) (hm : hexDecode mask = some m)
    (hl : m.length = p.length) (hr : p.length ≤ random.length) :
    patternMatches pat random = some (decide (0 < p.length) &&
      (List.range p.length).all (fun i => (random.getD i 0 &&& m.getD i 0) == (p.getD i 0 &&& m.getD i 0))) := by
  have hn : min (min m.length p.length) random.length = p.length := by omega
  simp only [patternMatches, hs, hp, hm, hn]
  rw [maskedEq_eq_all p.length random m p hr (by omega) (Nat.le_refl _)]

/-- unequal lengths: only the common leading part is compared (documented behaviour of the code;
the property fixes only the equal-length case) -/
theorem mask_truncation (pat pre mask : List Char) (p m random : Bytes)
    (hs : splitSlash pat = some (pre, mask)) (hp : hexDecode pre = some p) (hm : hexDecode mask = some m) :
    patternMatches pat random = some (decide (0 < min (min m.length p.length) random.length) &&
      maskedEq (min (min m.length p.length) random.length) random m p) := by
  simp [patternMatches, hs, hp, hm]

/-- **Malformed fields never match**: an unparsable CIDR or a pattern that is not valid hex
(odd length, non-hex characters, on either side of the slash) makes the rule match nothing -/
theorem malformed_never_matches (r : Rule) (ip : Addr) (random : Option Bytes)
    (h : r.cidr = .invalid ∨ ∃ pat rnd, r.pattern = some pat ∧ random = some rnd ∧ patternMatches pat rnd = none) :
    r.matches ip random = false := by
  rcases h with h | ⟨pat, rnd, h1, h2, h3⟩
  · simp [Rule.matches, h]
  · unfold Rule.matches
    cases hc : r.cidr <;> simp [h1, h2, h3]

example : patternMatches "aabbcc/".toList [0xaa, 0xbb, 0xcc] = some false := by decide
example : patternMatches "abc".toList [0xab, 0xc0] = none := by decide
example : patternMatches "a0b0/f0f0".toList [0xa5, 0xb5, 0xcc] = some true := by decide

/-- **The verdict is about the peer's actual address**: an IPv4 peer seen through a dual-stack
listener as `::ffff:a.b.c.d` gets the verdict of `a.b.c.d` -/
theorem mapped_peer_eq_v4_peer (rules : List Rule) (n : Nat) (hn : n < 2 ^ 32) (random : Option Bytes) :
    evaluateConnection (some rules) (some (.v6 (0xffff * 2 ^ 32 + n))) random =
    evaluateConnection (some rules) (some (.v4 n)) random := by
  have e1 : (0xffff * 2 ^ 32 + n) / 2 ^ 32 = 0xffff := by omega
  have e2 : (0xffff * 2 ^ 32 + n) % 2 ^ 32 = n := by omega
  simp [evaluateConnection, canonical, e1, e2]

/-- CIDR containment is prefix equality: for IPv4, `a/len` contains `m` iff the leading `len` bits agree -/
theorem cidr_v4_contains (n m len : Nat) :
    cidrContains (.v4 n) len (.v4 m) = true ↔ n / 2 ^ (32 - len) = m / 2 ^ (32 - len) := by
  simp [cidrContains]

theorem cidr_family_mismatch (n m len : Nat) :
    cidrContains (.v4 n) len (.v6 m) = false ∧ cidrContains (.v6 n) len (.v4 m) = false := by
  simp [cidrContains]

/-- **Enforced early**: on TCP a denied connection is dropped before the endpoint writes its
first TLS byte; on QUIC before any codec exists / request is processed -/
theorem deny_precedes_handshake (hasSni : Bool) :
    Step.tlsAccept ∉ tcpAcceptPath hasSni .deny ∧ Step.serveRequests ∉ tcpAcceptPath hasSni .deny ∧
    Step.createCodec ∉ quicAcceptPath .deny ∧ Step.serveRequests ∉ quicAcceptPath .deny := by
  cases hasSni <;> decide

/-- in the allowed case the rules are evaluated before the handshake is answered -/
theorem rules_before_accept :
    (tcpAcceptPath true .allow).idxOf Step.evalRules < (tcpAcceptPath true .allow).idxOf Step.tlsAccept := by
  decide

/-- **Rules behind a matching rule are irrelevant**, whatever precedes it: replacing everything
after a rule that matches the connection leaves the verdict unchanged -/
theorem rules_after_a_match_irrelevant (pre post post' : List Rule) (r : Rule) (ip : Addr) (rnd : Bytes)
    (hr : r.matches ip (some rnd) = true) :
    evaluate (pre ++ r :: post) ip (some rnd) = evaluate (pre ++ r :: post') ip (some rnd) := by
  simp [evaluate, firstMatch, List.find?_append, hr]

/-- **A catch-all deny closes the list**: a first rule without CIDR and without pattern whose action
is deny denies every connection, with or without a client random, whatever follows it -/
theorem catch_all_deny_first (rules : List Rule) (ip : Addr) (random : Option Bytes) :
    evaluate (⟨.absent, none, .deny⟩ :: rules) ip random = .deny := by
  unfold evaluate
  split
  · rfl
  · simp [firstMatch, Rule.matches, Action.toVerdict]

/-- ... and a trailing catch-all deny turns the default into deny: a connection no earlier rule
matches is denied -/
theorem catch_all_deny_last (rules : List Rule) (ip : Addr) (rnd : Bytes)
    (h : ∀ q ∈ rules, q.matches ip (some rnd) = false) :
    evaluate (rules ++ [⟨.absent, none, .deny⟩]) ip (some rnd) = .deny := by
  have := first_match_wins rules ⟨.absent, none, .deny⟩ [] ip (some rnd) h (by simp [Rule.matches]) (Or.inl rfl)
  simpa [Action.toVerdict] using this

/-- without a rules engine every connection is allowed -/
theorem no_engine_allows (ip : Option Addr) (random : Option Bytes) :
    evaluateConnection none ip random = .allow := by
  simp [evaluateConnection]

example : evaluate [⟨.net (.v4 0x0a000000) 8, none, .allow⟩, ⟨.absent, none, .deny⟩] (.v4 0x0a010203) (some [1]) = .allow ∧
    evaluate [⟨.net (.v4 0x0a000000) 8, none, .allow⟩, ⟨.absent, none, .deny⟩] (.v4 0x0b010203) (some [1]) = .deny := by decide

end TT.Rules
