import TT.Model.Demux
import TT.Lemmas.Demux
/-!
# C05  SNI/ALPN demultiplexing selects the right host, channel and protocol
-/
namespace TT.Demux

/-- the protocols a channel permits -/
def permits : Channel → Proto → Bool
  | .reverseProxy, .h2 => false
  | _, _ => true

/-- the host entry an SNI designates, by the precedence the property states: exact host name
(own class), configured alternative SNI, `<credentials>.<main host>` -/
def designated (cfg : Cfg) (sni : String) : Option (Channel × String × Option String) :=
  if cfg.main.contains sni then some (.tunnel, sni, none)
  else if cfg.rproxy.contains sni then some (.reverseProxy, sni, none)
  else if cfg.ping.contains sni then some (.ping, sni, none)
  else if cfg.speed.contains sni then some (.speedtest, sni, none)
  else match cfg.alt.find? (fun e => e.1 == sni && cfg.main.contains e.2) with
    | some e => some (.tunnel, e.2, none)
    | none =>
      match splitOnceDot sni.toList with
      | some (a, b) => if cfg.main.contains (String.ofList b) then some (.tunnel, String.ofList b, some (String.ofList a)) else none
      | none => none

theorem permits_eq : permits = permitsL := by
  funext c p; cases c <;> cases p <;> rfl

theorem designated_eq : designated = designatedL := rfl

/-- **Right host and channel**: whenever a connection is accepted, it is served with the entry the
SNI designates (certificate identity = class and configured name), on that entry's channel, with
the credentials label only in the `<credentials>.<host>` form -/
theorem select_designated_host (cfg : Cfg) (alpn : List Alpn) (sni : String) (m : Meta)
    (h : select cfg alpn sni = some m) :
    ∃ ch name creds, designated cfg sni = some (ch, name, creds) ∧
      m.channel = ch ∧ m.host = (ch, name) ∧ m.creds = creds ∧ m.sni = sni := by
  obtain ⟨_, ch, name, creds, p, hd, _, rfl⟩ := select_some h
  exact ⟨ch, name, creds, by rw [designated_eq]; exact hd, rfl, rfl, rfl, rfl⟩

/-- **An SNI designating no entry is refused**, as is a missing SNI on TCP -/
theorem no_entry_refused (cfg : Cfg) (alpn : List Alpn) (sni : String) (h : designated cfg sni = none) :
    select cfg alpn sni = none ∧ tcpAccept cfg alpn none = none := by
  refine ⟨?_, rfl⟩
  rw [select_eq, ← designated_eq, h]
  split <;> rfl

/-- with host names unique across classes an exact name designates its own class
(so the lookup order among classes is immaterial) -/
theorem exact_name_own_class (cfg : Cfg) (sni : String)
    (hu : namesUnique (cfg.main ++ cfg.ping ++ cfg.speed ++ cfg.rproxy) = true) :
    (sni ∈ cfg.ping → designated cfg sni = some (.ping, sni, none)) ∧
    (sni ∈ cfg.speed → designated cfg sni = some (.speedtest, sni, none)) ∧
    (sni ∈ cfg.rproxy → designated cfg sni = some (.reverseProxy, sni, none)) ∧
    (sni ∈ cfg.main → designated cfg sni = some (.tunnel, sni, none)) := by
  have h123 := namesUnique_append_left hu
  have h12 := namesUnique_append_left h123
  have dR : ∀ {x}, x ∈ cfg.main ++ cfg.ping ++ cfg.speed → x ∉ cfg.rproxy :=
    fun hx => namesUnique_disjoint hu hx
  have dS : ∀ {x}, x ∈ cfg.main ++ cfg.ping → x ∉ cfg.speed :=
    fun hx => namesUnique_disjoint h123 hx
  have dP : ∀ {x}, x ∈ cfg.main → x ∉ cfg.ping :=
    fun hx => namesUnique_disjoint h12 hx
  refine ⟨?_, ?_, ?_, ?_⟩
  · intro hp
    have h1 : sni ∉ cfg.main := fun hm => dP hm hp
    have h2 : sni ∉ cfg.rproxy := dR (by simp [hp])
    simp [designated, h1, h2, hp]
  · intro hs
    have h1 : sni ∉ cfg.main := fun hm => dS (by simp [hm]) hs
    have h2 : sni ∉ cfg.rproxy := dR (by simp [hs])
    have h3 : sni ∉ cfg.ping := fun hp => dS (by simp [hp]) hs
    simp [designated, h1, h2, h3, hs]
  · intro hr
    have h1 : sni ∉ cfg.main := fun hm => dR (by simp [hm]) hr
    simp [designated, h1, hr]
  · intro hm
    simp [designated, hm]

/-- **Most preferred common protocol**: the protocol of an accepted connection was offered by the
client, is enabled on the listener and permitted by the channel, and no offered+enabled+permitted
protocol is preferred to it - unless the client offered no ALPN at all, in which case it is
HTTP/1.1 and HTTP/1.1 is enabled -/
theorem protocol_is_best_common (cfg : Cfg) (alpn : List Alpn) (sni : String) (m : Meta)
    (h : select cfg alpn sni = some m) :
    (alpn = [] ∧ m.protocol = .h1 ∧ .h1 ∈ cfg.enabled) ∨
    (some m.protocol ∈ alpn ∧ m.protocol ∈ cfg.enabled ∧ permits m.channel m.protocol = true ∧
      ∀ q, some q ∈ alpn → q ∈ cfg.enabled → permits m.channel q = true → q.rank ≤ m.protocol.rank) := by
  obtain ⟨_, ch, name, creds, p, _, hp, rfl⟩ := select_some h
  rw [permits_eq]
  rcases protoFor_some hp with ⟨h1, h2, h3, h4⟩ | ⟨_, h2, h3, h4⟩
  · refine Or.inr ⟨mem_parsed.1 h1, h2, h3, ?_⟩
    intro q hq he hpq
    exact h4 q (mem_parsed.2 hq) he hpq
  · refine Or.inl ⟨?_, h4, h3⟩
    simpa using h2

/-- ... and whenever the designated entry exists and some offered protocol is enabled and
permitted, the connection is not refused for protocol reasons -/
theorem common_protocol_accepted (cfg : Cfg) (alpn : List Alpn) (sni : String) (ch : Channel) (name : String)
    (creds : Option String) (hd : designated cfg sni = some (ch, name, creds)) (q : Proto)
    (hq : some q ∈ alpn) (he : q ∈ cfg.enabled) (hp : permits ch q = true) :
    (select cfg alpn sni).isSome = true := by
  rw [designated_eq] at hd
  rw [permits_eq] at hp
  rw [select_eq, unknownOnly_false_of_mem hq, hd]
  simp only [Bool.false_eq_true, if_false, Option.bind_some, Option.isSome_map]
  exact protoFor_isSome (mem_parsed.2 hq) he hp

/-- **HTTP/1.1 is assumed only for an empty offer**: a non-empty offer never yields a protocol
that was not offered -/
theorem default_only_when_no_alpn (cfg : Cfg) (alpn : List Alpn) (sni : String) (m : Meta)
    (h : select cfg alpn sni = some m) (hne : alpn ≠ []) : some m.protocol ∈ alpn := by
  rcases protocol_is_best_common cfg alpn sni m h with ⟨h0, _⟩ | ⟨h1, _⟩
  · exact absurd h0 hne
  · exact h1

/-- **Unknown ALPN identifiers are ignored** next to known ones (and an offer of unknown
identifiers only is refused) -/
theorem unknown_alpn_ignored (cfg : Cfg) (alpn : List Alpn) (sni : String) (hk : ∃ p, some p ∈ alpn) :
    select cfg alpn sni = select cfg (alpn.filter Option.isSome) sni := by
  obtain ⟨p, hp⟩ := hk
  have hp' : some p ∈ alpn.filter Option.isSome := by simp [List.mem_filter, hp]
  have e1 : alpn.isEmpty = false := by cases alpn with
    | nil => cases hp
    | cons _ _ => rfl
  have e2 : (alpn.filter Option.isSome).isEmpty = false := by
    cases hf : alpn.filter Option.isSome with
    | nil => rw [hf] at hp'; cases hp'
    | cons _ _ => rfl
  rw [select_eq, select_eq, unknownOnly_false_of_mem hp, unknownOnly_false_of_mem hp',
    filterMap_id_filter_isSome, e1, e2]

theorem only_unknown_refused (cfg : Cfg) (alpn : List Alpn) (sni : String) (hne : alpn ≠ [])
    (hu : ∀ a ∈ alpn, a = none) : select cfg alpn sni = none := by
  have e1 : alpn.isEmpty = false := by cases alpn with
    | nil => exact absurd rfl hne
    | cons _ _ => rfl
  rw [select_eq]
  simp [unknownOnly, filterMap_id_eq_nil hu, e1]

/-- **HTTP/3 is never selected on a TCP connection** -/
theorem tcp_never_h3 (cfg : Cfg) (alpn : List Alpn) (sni : Option String) (m : Meta)
    (h : tcpAccept cfg alpn sni = some m) : m.protocol ≠ .h3 := by
  unfold tcpAccept at h
  split at h
  · cases h
  · split at h
    · next m' _ =>
      split at h
      · cases h
      · next hne =>
        simp only [Option.some.injEq] at h
        subst h
        simpa using hne
    · cases h

/-- **QUIC connections speak HTTP/3 only**: whatever the SNI, an accepted QUIC connection is an
HTTP/3 one -/
theorem quic_always_h3 (cfg : Cfg) (sni : Option String) (m : Meta) (h : quicAccept cfg sni = some m) :
    m.protocol = .h3 := by
  have hb : ∀ m', bootstrap cfg = some m' → m'.protocol = .h3 := by
    intro m' hm'
    unfold bootstrap at hm'
    cases hh : cfg.main.head? with
    | none => simp [hh] at hm'
    | some x => simp [hh] at hm'; subst hm'; rfl
  unfold quicAccept at h
  split at h
  · exact hb m h
  · split at h
    · exact hb m h
    · split at h
      · next m' hs =>
        simp only [Option.some.injEq] at h
        subst h
        rcases protocol_is_best_common cfg [some .h3] _ m' hs with ⟨he, _, _⟩ | ⟨hmem, _, _, _⟩
        · cases he
        · simpa using hmem
      · exact hb m h

/-- **On QUIC too the designated entry is served**: when the SNI designates an entry whose channel
admits HTTP/3 and HTTP/3 is enabled, the QUIC connection gets that entry's certificate and
channel (with the credentials label of the `<credentials>.<host>` form) -/
theorem quic_designated_host (cfg : Cfg) (sni : String) (hne : sni.isEmpty = false) (ch : Channel) (name : String)
    (creds : Option String) (hd : designated cfg sni = some (ch, name, creds)) (he : Proto.h3 ∈ cfg.enabled) :
    ∃ m, quicAccept cfg (some sni) = some m ∧ m.channel = ch ∧ m.host = (ch, name) ∧ m.creds = creds ∧ m.protocol = .h3 := by
  have hp : permits ch .h3 = true := by cases ch <;> rfl
  have hsome := common_protocol_accepted cfg [some .h3] sni ch name creds hd .h3 (by simp) he hp
  obtain ⟨m, hm⟩ := Option.isSome_iff_exists.1 hsome
  refine ⟨m, ?_, ?_⟩
  · simp [quicAccept, hne, hm]
  · have hq : quicAccept cfg (some sni) = some m := by simp [quicAccept, hne, hm]
    have h3 := quic_always_h3 cfg (some sni) m hq
    obtain ⟨ch', name', creds', hd', hc, hh, hcr, _⟩ := select_designated_host cfg [some .h3] sni m hm
    rw [hd] at hd'
    simp only [Option.some.injEq, Prod.mk.injEq] at hd'
    obtain ⟨e1, e2, e3⟩ := hd'
    subst e1 e2 e3
    exact ⟨hc, hh, hcr, h3⟩

/-- an SNI designating no entry (or none at all) is not refused on QUIC: the connection is a
tunnel connection of the first main host (noted, not required by the property, which speaks of TCP) -/
theorem quic_unknown_sni_is_bootstrap (cfg : Cfg) (sni : String) (h : designated cfg sni = none) :
    quicAccept cfg (some sni) = bootstrap cfg ∧ quicAccept cfg none = bootstrap cfg := by
  have hs := (no_entry_refused cfg [some .h3] sni h).1
  constructor
  · simp only [quicAccept]
    split
    · rfl
    · rw [hs]
  · rfl

example : quicAccept ⟨["main.example"], ["ping.example"], [], [], [], [.h1, .h2, .h3]⟩ (some "ping.example") =
    some ⟨"ping.example", .h3, .ping, (.ping, "ping.example"), none⟩ := by decide
example : quicAccept ⟨["main.example"], ["ping.example"], [], [], [], [.h1, .h2, .h3]⟩ (some "nope") =
    some ⟨"main.example", .h3, .tunnel, (.tunnel, "main.example"), none⟩ := by decide

/-- **A failed reload leaves the previous configuration in force; a successful one replaces it
wholesale** -/
theorem reload_failure_keeps_old (enabled : List Proto) (rp : Bool) (cur : Cfg) (h : HostsSettings)
    (hv : h.valid = false) : reload enabled rp cur h = (cur, false) := by
  simp [reload, hv]

theorem reload_success_replaces (enabled : List Proto) (rp : Bool) (cur : Cfg) (h : HostsSettings)
    (hv : h.valid = true) : reload enabled rp cur h = (mkCfg enabled rp h, true) := by
  simp [reload, hv]

/-- **Atomic switch**: in any history every selection is answered entirely from one
configuration - the one installed by the last successful reload before it (or the initial one) -/
def cfgAt (enabled : List Proto) (rp : Bool) : Cfg → List Ev → Cfg
  | cur, [] => cur
  | cur, .reload h :: rest => cfgAt enabled rp (reload enabled rp cur h).1 rest
  | cur, .select _ _ :: rest => cfgAt enabled rp cur rest

theorem reload_atomic (enabled : List Proto) (rp : Bool) (cur : Cfg) (pre : List Ev) (a : List Alpn) (s : String)
    (post : List Ev) :
    (run enabled rp cur (pre ++ .select a s :: post))[(run enabled rp cur pre).length]? =
      some (select (cfgAt enabled rp cur pre) a s) := by
  induction pre generalizing cur with
  | nil => simp [run, cfgAt]
  | cons e rest ih =>
    cases e with
    | reload h => simpa [run, cfgAt] using ih (reload enabled rp cur h).1
    | select a' s' => simpa [run, cfgAt] using ih cur

example : (select ⟨["main.example"], ["ping.example"], [], [], [("alt.main.example", "main.example")], [.h1, .h2]⟩
    [some .h2, some .h1] "alt.main.example").map (fun m => (m.protocol, m.creds)) = some (.h2, none) := by decide
example : (select ⟨["main.example"], ["ping.example"], [], [], [], [.h1]⟩ [some .h2] "ping.example") = none := by decide
example : (select ⟨["main.example"], [], [], [], [], [.h1, .h2]⟩ [some .h2] "user.main.example").map (·.creds) = some (some "user") := by decide


/-- the selections of a history, each answered from one fixed configuration -/
def selectionsUnder (cfg : Cfg) : List Ev → List (Option Meta)
  | [] => []
  | .reload _ :: rest => selectionsUnder cfg rest
  | .select a s :: rest => select cfg a s :: selectionsUnder cfg rest

/-- **Failed reloads are invisible**: however many reloads with settings that do not validate are
interleaved with the connections, every connection is answered exactly as if no reload had been
attempted - from the configuration in force before -/
theorem failed_reloads_invisible (enabled : List Proto) (rp : Bool) (cur : Cfg) (evs : List Ev)
    (h : ∀ hs, Ev.reload hs ∈ evs → hs.valid = false) :
    run enabled rp cur evs = selectionsUnder cur evs := by
  induction evs with
  | nil => rfl
  | cons e rest ih =>
    have ih' := ih (fun hs hm => h hs (List.mem_cons_of_mem _ hm))
    cases e with
    | reload hs =>
      have hv := h hs (by simp)
      simp only [run, selectionsUnder, reload_failure_keeps_old enabled rp cur hs hv]
      exact ih'
    | select a s =>
      simp only [run, selectionsUnder, ih']

/-- reloading the same valid settings again changes nothing -/
theorem reload_idempotent (enabled : List Proto) (rp : Bool) (cur : Cfg) (hs : HostsSettings) :
    (reload enabled rp (reload enabled rp cur hs).1 hs).1 = (reload enabled rp cur hs).1 := by
  unfold reload
  split <;> simp_all

end TT.Demux
