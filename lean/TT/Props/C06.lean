import TT.Model.UdpCodec
import TT.Lemmas.UdpCodec
/-!
# C06  UDP multiplexer wire codec is exact, segmentation-invariant and resynchronising

Property theorems only (helper lemmas: `TT/Lemmas/UdpCodec.lean`).
-/
namespace TT.Udp
open TT TT.Bytes TT.Icmp

/-- **Segmentation invariance, resynchronisation and absence of panics in one statement**: for
every split of the client's byte stream into chunks (empty chunks included), the real decoder
loop behind the re-queueing glue never trips an assertion and produces exactly what an
independent reader of PROTOCOL.md 6.3 produces from the concatenated stream: the accepted
records in order; records it will not accept (declared length < 37, too large, non-UTF-8 name)
are skipped in their entirety. -/
theorem decode_segmentation (chunks : List Bytes) (fuel : Nat)
    (hf : fuel ≥ 2 * (chunks.length + chunks.flatten.length) + 2) :
    ∃ d', decodeStream fuel {} chunks [] = some (specDecode (chunks.flatten.length + 1) chunks.flatten, d') := by
  have h := stream_ok fuel {} chunks [] (by simp [SInv]) rfl (by have : nu ({} : Dec).st = 0 := rfl; omega)
  simpa [specFrom, spec] using h

/-- well-formed datagrams: what 6.3 can carry and the endpoint accepts -/
def SockWF (s : Ip.Sock) : Prop :=
  s.port < 65536 ∧
  (match s.ip with
   | .v4 a b c d => a < 256 ∧ b < 256 ∧ c < 256 ∧ d < 256
   | .v6 x => x.s0 < 65536 ∧ x.s1 < 65536 ∧ x.s2 < 65536 ∧ x.s3 < 65536 ∧ x.s4 < 65536 ∧ x.s5 < 65536 ∧
       x.s6 < 65536 ∧ x.s7 < 65536 ∧ ¬ (x.s0 = 0 ∧ x.s1 = 0 ∧ x.s2 = 0 ∧ x.s3 = 0 ∧ x.s4 = 0 ∧ x.s5 = 0))

def Datagram.WF (dg : Datagram) : Prop :=
  SockWF dg.src ∧ SockWF dg.dst ∧ dg.app.length ≤ 255 ∧ validUtf8 dg.app = true ∧
  hdrNoLen + dg.app.length + dg.payload.length ≤ maxIn - dg.app.length

/-- **Exactness**: the datagrams the client encoded per 6.3 are decoded back, all fields equal,
in order (zero-length names and payloads included). -/
theorem spec_decode_encode (dgs : List Datagram) (h : ∀ dg ∈ dgs, dg.WF) (fuel : Nat) (hf : fuel ≥ dgs.length + 1) :
    specDecode fuel (dgs.map encodeIn).flatten = dgs := by
  induction dgs generalizing fuel with
  | nil =>
    match fuel, hf with
    | f + 1, _ => rfl
  | cons dg dgs ih =>
    match fuel, hf with
    | f + 1, hf =>
      obtain ⟨⟨hsp, hsi⟩, ⟨hdp, hdi⟩, _, hu, hl⟩ := h dg (List.mem_cons_self)
      have hlen : hdrNoLen + dg.app.length + dg.payload.length < 4294967296 := by
        have : maxIn = 65471 := rfl
        omega
      simp only [List.map_cons, List.flatten_cons, encodeIn_eq]
      rw [specDecode_record _ hlen _ _ (encBody_length dg), specRecord_encBody dg hsp hsi hdp hdi hu hl,
        ih (fun dg' hm => h dg' (List.mem_cons_of_mem _ hm)) f (by simp only [List.length_cons] at hf; omega)]
      rfl

/-- hence, end to end, for every segmentation -/
theorem decode_encode (dgs : List Datagram) (h : ∀ dg ∈ dgs, dg.WF) (chunks : List Bytes)
    (hc : chunks.flatten = (dgs.map encodeIn).flatten) (fuel : Nat)
    (hf : fuel ≥ 2 * (chunks.length + chunks.flatten.length) + 2) :
    ∃ d', decodeStream fuel {} chunks [] = some (dgs, d') := by
  obtain ⟨d', hd'⟩ := decode_segmentation chunks fuel hf
  refine ⟨d', ?_⟩
  rw [hd', hc, spec_decode_encode dgs h _ (by have := encodeIn_flatten_length dgs; omega)]

/-- **Resynchronisation**: a complete record the endpoint does not accept is skipped entirely and
decoding resumes at the next record boundary -/
theorem resync (len : Nat) (hl : len < 4294967296) (body rest : Bytes) (hb : body.length = len)
    (hr : specRecord len body = none) (fuel : Nat) :
    specDecode (fuel + 1) (u32be len ++ body ++ rest) = specDecode fuel rest := by
  rw [specDecode_record len hl body rest hb fuel, hr]; rfl

example : specRecord 5 [1, 2, 3, 4, 5] = none := by decide

/-- **6.4 format**: big-endian length excluding itself, 16-byte addresses, IPv4 zero-padded -/
theorem encode_out_length (s d : Ip.Sock) (p : Bytes) :
    (encodeOut s d p).take 4 = u32be (36 + p.length) ∧
    (∀ a b c e, putFixedIp (.v4 a b c e) = [0, 0, 0, 0, 0, 0, 0, 0, 0, 0, 0, 0, a, b, c, e]) ∧
    (∀ ip, (putFixedIp ip).length = 16) := by
  refine ⟨?_, fun _ _ _ _ => rfl, putFixedIp_length⟩
  simp [encodeOut, u32be]

/-- **Bounded buffering**: the decoder never holds more than one maximal payload -/
def Dec.Inv (d : Dec) : Prop :=
  match d.st with
  | .length => d.buffer.length < 4
  | .fixedHeader => d.buffer.length < hdrNoLen ∧ hdrNoLen ≤ d.total
  | .appName l => (d.buffer.length < l ∨ d.buffer = []) ∧ l ≤ 255 ∧ hdrNoLen + l ≤ d.total ∧ d.total ≤ maxIn - l ∧ d.src.isSome ∧ d.dst.isSome
  | .payload n => (d.buffer.length < n ∨ d.buffer = []) ∧ n ≤ maxIn ∧ d.src.isSome ∧ d.dst.isSome
  | .dropping _ => d.buffer = []

theorem inv_init : ({} : Dec).Inv := by
  simp [Dec.Inv]

theorem inv_step (d : Dec) (data : Bytes) (h : d.Inv) (hw : ∀ x ∈ data, x < 256) (hbw : ∀ x ∈ d.buffer, x < 256) :
    ∃ d' out tail, decodeOnce d data = .next d' out tail ∧ d'.Inv :=
  fullInv_step d data h hw hbw

theorem inv_buffer_bounded (d : Dec) (h : d.Inv) : d.buffer.length ≤ maxIn :=
  fullInv_buffer_bounded d h

/-- **6.4 framing**: the encoded reply is 40 header bytes followed by the payload, verbatim and
complete, and its length field counts exactly what follows it - so a reader that trusts the length
field finds the next reply's length field right behind the payload, for every payload size -/
theorem encode_out_framed (s d : Ip.Sock) (p : Bytes) :
    (encodeOut s d p).length = 4 + (36 + p.length) ∧ (encodeOut s d p).drop 40 = p ∧
    (encodeOut s d p).take 4 = u32be ((encodeOut s d p).length - 4) := by
  have hs := putFixedIp_length s.ip
  have hd := putFixedIp_length d.ip
  have hlen : (encodeOut s d p).length = 4 + (36 + p.length) := by
    simp [encodeOut, u32be, u16be, hs, hd]; omega
  refine ⟨hlen, ?_, ?_⟩
  · have : encodeOut s d p =
        (u32be (36 + p.length) ++ putFixedIp s.ip ++ u16be s.port ++ putFixedIp d.ip ++ u16be d.port) ++ p := rfl
    rw [this, List.drop_left' (by simp [u32be, u16be, hs, hd])]
  · rw [hlen]
    simp [encodeOut, u32be]

/-- consecutive replies on one stream: dropping the first reply's declared length leaves exactly the
second reply -/
theorem encode_out_concat (s d s' d' : Ip.Sock) (p p' : Bytes) :
    (encodeOut s d p ++ encodeOut s' d' p').drop (4 + (36 + p.length)) = encodeOut s' d' p' := by
  rw [← (encode_out_framed s d p).1]
  exact List.drop_left

example : encodeOut ⟨.v4 1 2 3 4, 53⟩ ⟨.v4 10 0 0 1, 40000⟩ [7, 8] =
    [0, 0, 0, 38, 0, 0, 0, 0, 0, 0, 0, 0, 0, 0, 0, 0, 1, 2, 3, 4, 0, 53, 0, 0, 0, 0, 0, 0, 0, 0, 0, 0, 0, 0, 10, 0, 0, 1, 156, 64, 7, 8] := by
  decide

end TT.Udp
