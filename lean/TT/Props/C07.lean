import TT.Gen.Consts
import TT.Model.UdpFlows
import TT.Lemmas.UdpFlows
import TT.Model.UdpSocks
import TT.Lemmas.UdpSocks
/-!
# C07  UDP flows: correct routing, isolation, expiry and bounded sockets

Every theorem quantifies over *all* histories of {client datagram, server reply, time advance,
close} from the initial state, over all flow sets, destination kinds (live, port 53, dead port,
not connectable), lengths and advance amounts - the expiry timer's firing times are determined
by the advance amounts, so every interleaving of the timer with the operations is covered.
-/
namespace TT.UdpFlows

/-- the state after a history -/
def after (c : Cfg) (ops : List Op) : St := (runFrom c ops).1
/-- the observations of a history -/
def obsOf (c : Cfg) (ops : List Op) : List Obs := (runFrom c ops).2

/-- the operation concerns flow `m` -/
def touches (m : Meta) : Op → Bool
  | .dg m' _ => m' == m
  | .reply m' _ => m' == m
  | .adv _ => false
  | .close => false

def advSum : List Op → Nat
  | [] => 0
  | .adv ms :: r => ms + advSum r
  | _ :: r => advSum r

def pipeEntry (s : St) (m : Meta) : Option PipeEntry := s.pipe.find? (·.key == m)

/-! ## Routing -/

/-- **a client datagram is sent to exactly its destination**: whatever a server receives carries
the tag of a flow whose destination is that server -/
theorem sent_to_own_destination (c : Cfg) (ops : List Op) :
    ∀ o ∈ obsOf c ops, ∀ x ∈ o.srv, x.1 = x.2.1.dst := by
  intro o ho
  exact (run_obs_forall (P := fun o => (∀ x ∈ o.srv, x.1 = x.2.1.dst) ∧ (∀ x ∈ o.cli, x.1 = x.2.1))
    (fun _ op h => step_obs h op) (inv_init c) ops o ho).1

/-- one client datagram reaches at most its own destination, once, unchanged in length, and
nothing is delivered to the client by it -/
theorem datagram_step_output (c : Cfg) (ops : List Op) (m : Meta) (len : Nat) :
    let o := (step c (after c ops) (.dg m len)).2
    (o.srv = [] ∨ o.srv = [(m.dst, m, len)]) ∧ o.cli = [] := by
  exact step_dg_obs (runFrom_inv c ops) m len

/-- **a datagram arriving on a flow's socket is returned labelled with that flow, never
another**: the flow the labels name is the flow the server answered -/
theorem reply_labelled_with_own_flow (c : Cfg) (ops : List Op) :
    ∀ o ∈ obsOf c ops, ∀ x ∈ o.cli, x.1 = x.2.1 := by
  intro o ho
  exact (run_obs_forall (P := fun o => (∀ x ∈ o.srv, x.1 = x.2.1.dst) ∧ (∀ x ∈ o.cli, x.1 = x.2.1))
    (fun _ op h => step_obs h op) (inv_init c) ops o ho).2

/-- a live flow's reply is delivered (not merely "if delivered then labelled correctly") -/
theorem reply_delivered_on_live_flow (c : Cfg) (ops : List Op) (m : Meta) (len : Nat)
    (hs : (findSock (after c ops) m).isSome)
    (hk : c.kind m.dst = .live ∨ c.kind m.dst = .dns) :
    (step c (after c ops) (.reply m len)).2.cli = [(m, m, len)] := by
  exact step_reply_live (runFrom_inv c ops) len hs hk

/-! ## The two tables stay coupled; sockets follow flows -/

/-- **the pipe's table and the forwarder's table hold the same flows**, each once; so the
number of open sockets (the `outbound_udp_sockets` gauge) equals the number of live flows -/
theorem tables_coupled (c : Cfg) (ops : List Op) :
    let s := after c ops
    (∀ m, hasPipe s m = (findSock s m).isSome) ∧
    (s.pipe.map (·.key)).Nodup ∧ (s.socks.map (·.key)).Nodup ∧
    s.gauge = s.flows := by
  have h : Inv c (after c ops) := runFrom_inv c ops
  refine ⟨h.core.coupled, h.core.nodupK, h.core.nodupSK, ?_⟩
  have := congrArg List.length h.core.keys
  simpa [St.gauge, St.flows] using this

/-- every open socket belongs to a flow the client actually sent a datagram on, and is
connected to that flow's destination: the socket count is bounded by the number of distinct
flows in the history -/
theorem sockets_from_history (c : Cfg) (ops : List Op) :
    ∀ k ∈ (after c ops).socks, k.dest = k.key.dst ∧ ∃ len, Op.dg k.key len ∈ ops := by
  exact runFrom_socks c ops

/-! ## Expiry -/

/-- **a flow idle for longer than the timeout is released**: if no operation concerns flow `m`
while more than `timeout + timeout/4` (one timer period) elapses, then afterwards the flow has
neither a table entry nor a socket - wherever the timer ticks fell -/
theorem idle_flow_released (c : Cfg) (pre ops : List Op) (m : Meta)
    (hu : ∀ op ∈ ops, touches m op = false)
    (hd : c.timeout + c.timeout / 4 < advSum ops) :
    let s := after c (pre ++ ops)
    hasPipe s m = false ∧ findSock s m = none := by
  have hadv : ∀ l : List Op, advSum l = advTotal l := by
    intro l
    induction l with
    | nil => rfl
    | cons op l ih => cases op <;> simp [advSum, advTotal, ih]
  have hc : ∀ op, touches m op = concerns m op := fun op => by cases op <;> rfl
  have := idle_released (runFrom_inv c pre) ops m (fun op ho => by rw [← hc]; exact hu op ho)
    (by rw [← hadv]; exact hd)
  show hasPipe (run c (init c) (pre ++ ops)).1 m = false ∧ findSock (run c (init c) (pre ++ ops)).1 m = none
  rw [run_append_fst]
  exact this

/-- after the timer has fired no entry older than the timeout remains -/
theorem tick_expires_all_idle (c : Cfg) (ops : List Op) (ms : Nat)
    (hf : (after c ops).finished = false)
    (htick : (after c ops).nextTick ≤ (after c ops).now + ms) :
    ∀ e ∈ (after c (ops ++ [.adv ms])).pipe, e.last + c.timeout ≥ (after c ops).now + ms := by
  show ∀ e ∈ (run c (init c) (ops ++ [.adv ms])).1.pipe, _
  rw [run_snoc_fst]
  exact step_adv_tick ms hf htick

/-- **never early**: a time advance releases only flows idle for longer than the timeout -/
theorem fresh_flow_survives_advance (c : Cfg) (ops : List Op) (ms : Nat) (m : Meta) (e : PipeEntry)
    (he : pipeEntry (after c ops) m = some e)
    (hfresh : (after c ops).now + ms ≤ e.last + c.timeout) :
    let s' := after c (ops ++ [.adv ms])
    pipeEntry s' m = some e ∧ findSock s' m = findSock (after c ops) m := by
  show pipeEntry (run c (init c) (ops ++ [.adv ms])).1 m = some e ∧
    findSock (run c (init c) (ops ++ [.adv ms])).1 m = findSock (after c ops) m
  rw [run_snoc_fst]
  exact step_adv_fresh (runFrom_inv c ops) ms he hfresh

/-- the timer is never later than a quarter of the timeout -/
theorem tick_period (c : Cfg) (ops : List Op) :
    (after c ops).nextTick ≤ (after c ops).now + c.timeout / 4 := by
  exact (runFrom_inv c ops).core.tick

/-- **a port-53 flow whose queries have all been answered is released**: the reply that brings
the pending count to zero removes the flow from both tables (and is itself delivered) -/
theorem dns_flow_released_when_answered (c : Cfg) (ops : List Op) (m : Meta) (len : Nat) (e : PipeEntry)
    (he : pipeEntry (after c ops) m = some e) (hp : e.pending = some 1) :
    let r := step c (after c ops) (.reply m len)
    r.2.cli = [(m, m, len)] ∧ hasPipe r.1 m = false ∧ findSock r.1 m = none := by
  exact step_reply_dns_done (runFrom_inv c ops) len he hp

/-- ... and while queries are outstanding it stays, counting down -/
theorem dns_flow_kept_while_pending (c : Cfg) (ops : List Op) (m : Meta) (len n : Nat) (e : PipeEntry)
    (he : pipeEntry (after c ops) m = some e) (hp : e.pending = some (n + 2)) :
    let r := step c (after c ops) (.reply m len)
    r.2.cli = [(m, m, len)] ∧
    pipeEntry r.1 m = some { e with last := (after c ops).now, pending := some (n + 1) } ∧
    findSock r.1 m = findSock (after c ops) m := by
  exact step_reply_dns_pending (runFrom_inv c ops) len n he hp

/-- the pending count of a port-53 flow is the number of queries minus the number of answers
seen since the flow was created: each client datagram on an existing flow adds one -/
theorem dns_query_counts (c : Cfg) (ops : List Op) (m : Meta) (len n : Nat) (e : PipeEntry)
    (he : pipeEntry (after c ops) m = some e) (hp : e.pending = some n)
    (hs : ∀ k, findSock (after c ops) m = some k → k.poisoned = false) :
    pipeEntry (step c (after c ops) (.dg m len)).1 m
      = some { e with last := (after c ops).now, pending := some (n + 1) } := by
  have h : Inv c (after c ops) := runFrom_inv c ops
  have := step_dg_existing h len he hs
  unfold pipeEntry
  rw [this]
  simp [touchOut, hp]

/-- **a later datagram on the same pair simply starts a fresh flow**: on a connectable
destination, a datagram on a flow that is not in the table creates it in both tables with a
brand-new socket and reaches the destination -/
theorem datagram_starts_fresh_flow (c : Cfg) (ops : List Op) (m : Meta) (len : Nat)
    (hf : (after c ops).finished = false)
    (hn : hasPipe (after c ops) m = false)
    (hk : c.kind m.dst = .live ∨ c.kind m.dst = .dns) :
    let s := after c ops
    let r := step c s (.dg m len)
    r.2.srv = [(m.dst, m, len)] ∧ hasPipe r.1 m = true ∧
    findSock r.1 m = some { key := m, id := s.nextId, dest := m.dst, poisoned := false } ∧
    (∀ k ∈ s.socks, k.id ≠ s.nextId) := by
  exact step_dg_fresh (runFrom_inv c ops) len hf hn hk

/-! ## Isolation and confinement of errors -/

/-- **an operation on one flow never disturbs another**: the table entry and the socket of
every other flow are exactly what they were (this covers datagrams to dead or unconnectable
destinations and sends that report a socket error) -/
theorem other_flows_undisturbed (c : Cfg) (ops : List Op) (op : Op) (m m' : Meta)
    (ht : touches m op = true) (hne : m' ≠ m) :
    let s := after c ops
    let s' := (step c s op).1
    pipeEntry s' m' = pipeEntry s m' ∧ findSock s' m' = findSock s m' := by
  cases op with
  | dg m0 len =>
    have : m0 = m := by simpa [touches] using ht
    subst this
    exact step_dg_other m0 len hne
  | reply m0 len =>
    have : m0 = m := by simpa [touches] using ht
    subst this
    exact step_reply_other (runFrom_inv c ops) m0 len hne
  | adv ms => simp [touches] at ht
  | close => simp [touches] at ht

/-- **no flow error terminates the multiplexer**: only the client going away ends it -/
theorem only_close_terminates (c : Cfg) (ops : List Op) (h : ∀ op ∈ ops, op ≠ .close) :
    (after c ops).finished = false := by
  exact run_not_finished c (init c) ops rfl h

/-- a destination that cannot be connected leaves nothing behind -/
theorem unconnectable_leaves_nothing (c : Cfg) (ops : List Op) (m : Meta) (len : Nat)
    (hk : c.kind m.dst = .unconn) :
    let s := after c ops
    let r := step c s (.dg m len)
    r.2.srv = [] ∧ r.1.pipe = s.pipe ∧ r.1.socks = s.socks ∧ r.1.finished = s.finished := by
  exact step_dg_unconn (runFrom_inv c ops) len hk

/-- a send that reports a socket error releases that flow (both tables) and nothing else; the
next datagram on the pair starts afresh (`datagram_starts_fresh_flow`) -/
theorem socket_error_releases_flow (c : Cfg) (ops : List Op) (m : Meta) (len : Nat) (k : Sock)
    (hf : (after c ops).finished = false)
    (hs : findSock (after c ops) m = some k) (hp : k.poisoned = true) :
    let r := step c (after c ops) (.dg m len)
    hasPipe r.1 m = false ∧ findSock r.1 m = none ∧ r.1.finished = false ∧
    r.1.gauge + 1 = (after c ops).gauge := by
  have _ := hf
  exact step_dg_poisoned (runFrom_inv c ops) len hs hp

/-- when the client goes away everything is released -/
theorem close_releases_everything (c : Cfg) (ops : List Op) :
    (after c (ops ++ [.close])).gauge = 0 ∧ (after c (ops ++ [.close])).flows = 0 := by
  have h : Inv c (after c ops) := runFrom_inv c ops
  have e : after c (ops ++ [.close]) = (step c (after c ops) .close).1 := run_snoc_fst c (init c) ops _
  have := step_close h
  rw [e]
  simp [St.gauge, St.flows, this.1, this.2]

/-! ## Relayed bytes -/

/-- the peer → client byte count reported through `update_metrics` is exactly the payload
delivered to the client -/
theorem down_bytes_are_delivered_bytes (c : Cfg) (ops : List Op) :
    (after c ops).down = ((obsOf c ops).map fun o => (o.cli.map (·.2.2)).sum).sum := by
  have := run_down c (init c) ops
  show (run c (init c) ops).1.down = ((run c (init c) ops).2.map _).sum
  rw [this]
  exact Nat.zero_add _

/-! ## The receive buffer

The histories above treat a reply as delivered with the length it arrived with. That is a fact about
the receive buffer of the multiplexer: `recv` into a buffer of `cap` bytes keeps `min cap n` bytes of
an `n`-byte datagram and drops the rest without an error. The capacities are read from the source on
every run (`TT.Gen.udp_recv_capacity_direct`, `TT.Gen.udp_recv_capacity_socks`). -/

/-- what `recv` keeps of an `n`-byte datagram in a buffer of `cap` bytes -/
def recvInto (cap n : Nat) : Nat := min cap n

/-- the largest payload of a UDP datagram over IPv4: a 65535-byte packet less the two headers
(`net_utils.rs` assumes the slightly larger IPv6 datagrams away, and so does this theorem) -/
def maxIpv4UdpPayload : Nat := 65535 - TT.Gen.min_ipv4_header_size - TT.Gen.udp_header_size

/-- **a reply is handed on with the length it arrived with** (direct forwarder): every datagram an
IPv4 peer can send fits the buffer `read_pending_socket` receives into -/
theorem direct_reply_received_whole (n : Nat) (h : n ≤ maxIpv4UdpPayload) :
    recvInto TT.Gen.udp_recv_capacity_direct n = n := by
  have : maxIpv4UdpPayload ≤ TT.Gen.udp_recv_capacity_direct := by decide
  unfold recvInto; omega

/-- the same for the SOCKS5 forwarder, whose buffer receives the relay's datagram (header and payload) -/
theorem socks_relay_datagram_received_whole (n : Nat) (h : n ≤ maxIpv4UdpPayload) :
    recvInto TT.Gen.udp_recv_capacity_socks n = n := by
  have : maxIpv4UdpPayload ≤ TT.Gen.udp_recv_capacity_socks := by decide
  unfold recvInto; omega

/-- the bound is the one the wire has, and a shorter buffer would cut -/
example : maxIpv4UdpPayload = 65507 ∧ recvInto 65500 65507 = 65500 := by decide

/-! ## Non-vacuity -/

def exCfg : Cfg := { timeout := 8000, kinds := [.live, .live, .dns, .dead, .unconn] }

/-- expiry, reuse, DNS completion, dead port and unconnectable destination all happen in one
concrete history, with the hypotheses of the theorems above satisfied along the way -/
example :
    let ops := [Op.dg ⟨0, 0⟩ 10, .reply ⟨0, 0⟩ 12, .dg ⟨1, 2⟩ 5, .dg ⟨0, 3⟩ 7, .dg ⟨0, 4⟩ 7,
                .reply ⟨1, 2⟩ 9, .dg ⟨0, 3⟩ 7, .adv 10001, .dg ⟨0, 0⟩ 3]
    (after exCfg ops).gauge = 1 ∧ (after exCfg ops).up = 10 + 5 + 7 + 3 ∧ (after exCfg ops).down = 21
    ∧ (obsOf exCfg ops).map (·.srv.length) = [1, 0, 1, 0, 0, 0, 0, 0, 1]
    ∧ (after exCfg (ops.take 3)).gauge = 2 ∧ (after exCfg (ops.take 6)).gauge = 2
    ∧ (after exCfg (ops.take 7)).gauge = 1 ∧ (after exCfg (ops.take 8)).gauge = 0 := by
  decide

end TT.UdpFlows

/-!
## The SOCKS5 forwarder's multiplexer

Same pipe, different forwarder: one UDP association per client source address, shared by the flows
of that source (`TT/Model/UdpSocks.lean`). What the property asks of it: flows never get each
other's datagrams, closing one flow does not take the association away from its siblings, the
association is released with its last flow, and no flow error ends the multiplexer.
-/
namespace TT.UdpSocks
open TT.UdpFlows (Meta Cfg Op Obs PipeEntry Kind)

def after (c : Cfg) (ops : List Op) : St := (runFrom c ops).1
def obsOf (c : Cfg) (ops : List Op) : List Obs := (runFrom c ops).2

/-- **the flow table and the associations' peers hold the same flows**: one association per
source, none without a peer, so the gauge is the number of client sources with a live flow -/
theorem socks_tables_coupled (c : Cfg) (ops : List Op) :
    let s := after c ops
    (∀ m : Meta, hasPipe s m = s.assocs.any (fun a => a.src == m.src && a.peers.contains m.dst)) ∧
    (s.assocs.map (·.src)).Nodup ∧ (s.assocs.map (·.id)).Nodup ∧
    (∀ a ∈ s.assocs, a.peers ≠ [] ∧ a.peers.Nodup) ∧ (s.pipe.map (·.key)).Nodup := by
  have h : Inv (after c ops) := runFrom_inv c ops
  refine ⟨?_, h.a.srcNd, h.a.idNd, fun a ha => (h.a.good a ha).2, h.keyNd⟩
  intro m
  have hc := h.coupled m
  rw [Bool.eq_iff_iff]
  simp only [hasPipe, List.any_eq_true, beq_iff_eq, Bool.and_eq_true, List.contains_eq_mem,
    decide_eq_true_eq]
  simpa [Cov] using hc

/-- **closing one flow leaves the association to its siblings**: with two live flows of one
source, closing one keeps the same association (same socket), now without that peer -/
theorem sibling_flow_keeps_association (c : Cfg) (ops : List Op) (m m' : Meta) (a : Assoc)
    (hs : m.src = m'.src) (hd : m.dst ≠ m'.dst)
    (h1 : hasPipe (after c ops) m = true) (h2 : hasPipe (after c ops) m' = true)
    (ha : findAssoc (after c ops) m.src = some a) :
    findAssoc (closeFlow (after c ops) m) m.src = some { a with peers := a.peers.filter (· != m.dst) } ∧
    m'.dst ∈ a.peers.filter (· != m.dst) := by
  have h : Inv (after c ops) := runFrom_inv c ops
  obtain ⟨ha1, ha2⟩ := find?_src_some ha
  have hmem : m'.dst ∈ a.peers.filter (· != m.dst) := by
    have hp : ∃ e ∈ (after c ops).pipe, e.key = m' := by
      simpa [hasPipe] using h2
    obtain ⟨a', ha', hs', hd'⟩ := (h.coupled m').1 hp
    have : a' = a := eq_of_nodup_map (·.src) h.a.srcNd ha' ha1 (by rw [hs', ← hs, ha2])
    subst this
    simp only [List.mem_filter, bne_iff_ne]
    exact ⟨hd', fun e => hd e.symm⟩
  have _ := h1
  exact ⟨find?_close_keep _ ha (List.ne_nil_of_mem hmem), hmem⟩

/-- ... and the last flow of a source releases it -/
theorem last_flow_releases_association (c : Cfg) (ops : List Op) (m : Meta) (a : Assoc)
    (ha : findAssoc (after c ops) m.src = some a) (hp : a.peers = [m.dst]) :
    findAssoc (closeFlow (after c ops) m) m.src = none ∧
    (closeFlow (after c ops) m).gauge + 1 = (after c ops).gauge := by
  have h : Inv (after c ops) := runFrom_inv c ops
  exact find?_close_last _ h.a.srcNd ha (by simp [hp])

/-- **a datagram is sent to exactly its destination, a reply is labelled with the flow the server
answered** -/
theorem socks_routing (c : Cfg) (ops : List Op) :
    ∀ o ∈ obsOf c ops, (∀ x ∈ o.srv, x.1 = x.2.1.dst) ∧ (∀ x ∈ o.cli, x.1 = x.2.1) := by
  exact run_obs_forall (P := Routed) (fun s op hs => step_routed s op hs) (inv_init c) ops

/-- **only the client going away ends the multiplexer** -/
theorem socks_only_close_terminates (c : Cfg) (ops : List Op) (h : ∀ op ∈ ops, op ≠ .close) :
    (after c ops).finished = false := by
  exact run_not_finished c (init c) ops rfl h

/-- an operation on a flow of another source leaves a source's association untouched -/
theorem other_sources_undisturbed (c : Cfg) (ops : List Op) (m : Meta) (len src : Nat) (hne : src ≠ m.src) :
    findAssoc (step c (after c ops) (.dg m len)).1 src = findAssoc (after c ops) src := by
  exact step_dg_other c _ m len hne

example :
    let c : Cfg := { timeout := 8000, kinds := [.live, .live, .dns, .dead, .unconn] }
    let ops := [Op.dg ⟨0, 0⟩ 10, .dg ⟨0, 1⟩ 10, .dg ⟨1, 0⟩ 10, .reply ⟨1, 0⟩ 12, .adv 4000, .dg ⟨0, 1⟩ 10, .adv 6001,
                .reply ⟨0, 1⟩ 12, .adv 10001]
    (after c (ops.take 3)).gauge = 2 ∧ (after c (ops.take 7)).gauge = 1 ∧ (after c (ops.take 7)).flows = 1
    ∧ (obsOf c ops).map (·.cli.length) = [0, 0, 0, 1, 0, 0, 0, 1, 0] ∧ (after c ops).gauge = 0 := by
  decide

end TT.UdpSocks
