import TT.Model.H1
import TT.Lemmas.H1
import TT.Model.H1Relay
import TT.Lemmas.H1Relay
/-!
# C08  HTTP/1.1 transport is segmentation-invariant and never spins
-/
namespace TT.H1
open TT

/-- **Segmentation invariance of the request head and exactness of the payload**: for every
split of the client's byte stream `head ++ payload` into non-empty reads, the codec recognises
the same head and the payload bytes it hands on (tail after the head, then the remaining reads)
are exactly `payload`, nothing lost or duplicated.  (`head.length ≤ headCap`: longer heads may be
rejected, see `oversize_rejected`.) -/
theorem head_segmentation_invariant (p : Parser) (hp : PrefixConsistent p) (head payload : Bytes)
    (hh : p.parse head = .complete head.length) (hl : head.length ≤ headCap)
    (reads : List Bytes) (hne : ∀ r ∈ reads, r ≠ []) (hs : reads.flatten = head ++ payload) :
    ∃ tail rest, listenWaiting p [] reads = .request head tail rest ∧ tail ++ rest.flatten = payload := by
  exact listen_request p hp head payload hh hl reads hne [] (by simpa using hs)
    (hp head head.length hh).1

/-- the upload side then receives exactly the payload, chunk boundaries aside, up to end of stream -/
theorem payload_exact (tail : Bytes) (rest : List Bytes) (hne : ∀ r ∈ rest, r ≠ []) :
    (uploadChunks tail rest).flatten = tail ++ rest.flatten ∧ ∀ c ∈ uploadChunks tail rest, c ≠ [] := by
  have htw : rest.takeWhile (fun r => !r.isEmpty) = rest := by
    induction rest with
    | nil => rfl
    | cons r rs ih =>
      have hr : r ≠ [] := hne r (by simp)
      have hre : r.isEmpty = false := by cases r <;> simp_all
      rw [List.takeWhile_cons]
      simp only [hre, Bool.not_false, if_true]
      rw [ih (fun x hx => hne x (by simp [hx]))]
  unfold uploadChunks
  rw [htw]
  constructor
  · cases tail <;> simp
  · intro c hc
    cases tail with
    | nil => simp at hc; exact hne c hc
    | cons a t =>
      simp at hc
      rcases hc with hc | hc
      · simp [hc]
      · exact hne c hc

/-- while the rest of the head is outstanding the codec waits for input: with the reads
exhausted and the stream a strict prefix of a valid head the result is `starved` (awaiting the
transport), never an error and never a premature request -/
theorem incomplete_head_waits (p : Parser) (hp : PrefixConsistent p) (head : Bytes)
    (hh : p.parse head = .complete head.length) (hl : head.length ≤ headCap)
    (reads : List Bytes) (hne : ∀ r ∈ reads, r ≠ []) (n : Nat) (hn : n < head.length)
    (hs : reads.flatten = head.take n) :
    listenWaiting p [] reads = .starved (head.take n) := by
  exact listen_starved p hp head hh hl n hn reads hne [] (by simpa using hs)

/-- **Never spins**: every iteration of the loop that does not return awaits the transport (one
read per iteration), so the number of iterations is bounded by the number of reads -/
theorem no_spin (p : Parser) (buf : Bytes) (reads : List Bytes) :
    (∀ it ∈ itersWaiting p buf reads, it = .read ∨ it = .stop) ∧
    (itersWaiting p buf reads).length ≤ reads.length + 1 ∧
    ((itersWaiting p buf reads).filter (· == Iter.read)).length ≤ reads.length := by
  induction reads generalizing buf with
  | nil => simp [itersWaiting]
  | cons r rs ih =>
    rw [itersWaiting]
    split
    · simp
    · simp only []
      split
      · simp
      · split
        · have := ih (buf ++ r)
          refine ⟨?_, ?_, ?_⟩
          · intro it hit
            simp only [List.mem_cons] at hit
            rcases hit with hit | hit
            · exact Or.inl hit
            · exact this.1 it hit
          · simp only [List.length_cons]; omega
          · simp only [List.filter_cons, beq_self_eq_true, if_true, List.length_cons]; omega
        · simp
      · simp

/-- **Bounded head buffering**: what is buffered while waiting for a head never exceeds the limit
by more than one read, and a head that is still incomplete at the limit is rejected -/
theorem head_bounded (p : Parser) (buf : Bytes) (reads : List Bytes) (m : Nat) (hb : buf.length < headCap)
    (hm : ∀ r ∈ reads, r.length ≤ m) : maxBuffered p buf reads < headCap + m := by
  induction reads generalizing buf with
  | nil => simp [maxBuffered]; omega
  | cons r rs ih =>
    have hr : r.length ≤ m := hm r (by simp)
    have hm' : ∀ r ∈ rs, r.length ≤ m := fun x hx => hm x (by simp [hx])
    rw [maxBuffered]
    split
    · omega
    · simp only []
      split
      · split
        · next hlt =>
          have := ih (buf ++ r) hlt hm'
          rw [Nat.max_def]; split <;> omega
        · simp only [List.length_append]; omega
      · simp only [List.length_append]; omega

theorem oversize_rejected (p : Parser) (reads : List Bytes) (hne : ∀ r ∈ reads, r ≠ [])
    (hpar : ∀ n, p.parse (reads.flatten.take n) = .incomplete) (hl : headCap ≤ reads.flatten.length) :
    listenWaiting p [] reads = .error := by
  exact listen_oversize p reads.flatten hpar hl reads hne [] (by simp) headCap_pos

/-- **End of stream before a complete head is a graceful end**: if the client goes away while the
head is still incomplete (any strict prefix of a valid head, the empty one included, in any
segmentation), the call ends with `closed` - not with an error, and never with a request made of a
partial head -/
theorem eof_before_complete_head_closes (p : Parser) (hp : PrefixConsistent p) (head : Bytes)
    (hh : p.parse head = .complete head.length) (hl : head.length ≤ headCap)
    (reads : List Bytes) (hne : ∀ r ∈ reads, r ≠ []) (n : Nat) (hn : n < head.length)
    (hs : reads.flatten = head.take n) (post : List Bytes) :
    listenWaiting p [] (reads ++ [] :: post) = .closed := by
  rw [listen_append_of_starved p reads _ [] _ (incomplete_head_waits p hp head hh hl reads hne n hn hs)]
  simp [listenWaiting]

/-- and a head that arrives in two bursts with a pause in between (reads exhausted, then more) is
recognised exactly as if it had arrived without the pause -/
theorem head_across_a_pause (p : Parser) (reads more : List Bytes) (b : Bytes)
    (h : listenWaiting p [] reads = .starved b) :
    listenWaiting p [] (reads ++ more) = listenWaiting p b more :=
  listen_append_of_starved p reads more [] b h

/-- **Well-formed responses**: an independent reader recovers the status line and every header
line from `encode_response`, and the head ends exactly at the empty line -/
theorem response_wellformed (minor : Nat) (code reason : Bytes) (headers : List (Bytes × Bytes))
    (hc : ∀ x ∈ code ++ reason, x ≠ 13) (hh : ∀ h ∈ headers, (∀ x ∈ h.1 ++ h.2, x ≠ 13) ∧ h.1 ≠ []) (rest : Bytes) :
    readLines (headers.length + 2) (encodeResponse minor code reason headers ++ rest) =
      some (([72, 84, 84, 80, 47, 49, 46, 48 + minor, 32] ++ code ++ [32] ++ reason) ::
            headers.map (fun h => h.1 ++ [58, 32] ++ h.2), rest) := by
  have hs : ∀ x ∈ [72, 84, 84, 80, 47, 49, 46, 48 + minor, 32] ++ code ++ [32] ++ reason, x ≠ 13 := by
    intro x hx
    simp only [List.mem_append, List.mem_cons, List.not_mem_nil, or_false] at hx
    rcases hx with ((hx | hx) | hx) | hx
    · omega
    · exact hc x (by simp [hx])
    · omega
    · exact hc x (by simp [hx])
  have e : encodeResponse minor code reason headers ++ rest =
      ([72, 84, 84, 80, 47, 49, 46, 48 + minor, 32] ++ code ++ [32] ++ reason) ++
        13 :: 10 :: (encodeHeaders headers ++ rest) := by
    simp [encodeResponse, crlf]
  have h2 := readLines_headers headers rest hh
  rw [e, readLines, splitLine_crlf _ _ hs]
  simp only [h2]
  simp

end TT.H1

/-!
## The relaying phase: payload goes both ways until either side closes
-/
namespace TT.H1Relay
open TT

/-- how a closing event ends the call -/
def Ev.ending : Ev → End
  | .clientEof | .relayEof _ => .graceful
  | .relayGone fired => if fired then .graceful else .failed
  | _ => .failed

/-- the chunk that was queued behind an end-of-response notification is still written -/
def Ev.queued : Ev → Bytes
  | .relayEof q => q
  | _ => []

/-- **payload is relayed in both directions until either side closes**: while the client sends and
the relay side answers, everything is handed on, in order, in both directions, and the call goes on -/
theorem relaying_goes_on (evs : List Ev) (h : ∀ e ∈ evs, e.relays = true) :
    run {} evs = ({ upload := ups evs, written := downs evs }, none) := by
  have := run_relays {} evs rfl h []
  simpa [run] using this

/-- ... **and ends with the first close**: the client's end of stream, the relay side's orderly end
(`eof()`), the relay side going away without one, or a failed read end the call at once - gracefully
in the first two cases, with an error otherwise; every byte either side sent before that was handed
on (and the chunk queued behind an orderly end is still written), nothing that comes later is -/
theorem relayed_until_close (pre post : List Ev) (e : Ev)
    (hp : ∀ x ∈ pre, x.relays = true) (hc : e.closes = true) :
    run {} (pre ++ e :: post) =
      ({ upload := ups pre, written := downs pre ++ e.queued }, some e.ending) := by
  rw [run_relays {} pre rfl hp]
  cases e <;> simp_all [Ev.closes, run, step, Ev.queued, Ev.ending]

/-- a session never outlives either side: whatever else happens, once a closing event was seen
the call has returned -/
theorem session_ends_with_either_side (evs : List Ev) (h : ∃ e ∈ evs, e.closes = true) :
    (run {} evs).2.isSome = true :=
  run_ends {} evs h

/-- the relay side going away without an orderly end is an error, never a graceful end -/
theorem abort_is_not_graceful (pre post : List Ev) (hp : ∀ x ∈ pre, x.relays = true) :
    (run {} (pre ++ .relayGone false :: post)).2 = some .failed := by
  rw [relayed_until_close pre post _ hp rfl]; rfl

/-- client bytes that arrive after the relay side dropped the upload source end the call with an error
(they are not silently discarded) -/
theorem upload_without_source_fails (pre post : List Ev) (b : Bytes) (hp : ∀ x ∈ pre, x.relays = true) :
    (run {} (pre ++ .sourceGone :: .up b :: post)).2 = some .failed := by
  rw [run_relays {} pre rfl hp]
  simp [run, step]

/-- the hypotheses are met by a concrete session, and the three ends differ as stated -/
example :
    run {} [.up [1, 2], .down [9] true, .up [3], .relayEof [8], .up [4]]
      = ({ upload := [1, 2, 3], written := [9, 8] }, some .graceful)
    ∧ (run {} [.up [1], .relayGone false]).2 = some .failed
    ∧ (run {} [.up [1], .clientEof, .down [5] true]).1.written = []
    ∧ (run {} [.up [1], .down [5] true]).2 = none := by decide

end TT.H1Relay
