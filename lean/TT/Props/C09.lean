import TT.Props.C04
import TT.Props.C06
import TT.Props.C08
import TT.Props.C11
import TT.Props.C12
import TT.Props.C15
import TT.Lemmas.Fwd
/-!
# C09  No untrusted input can panic, wedge or unboundedly grow the endpoint

One theorem per parser of untrusted bytes: the model of the parser returns `panic` exactly where
the Rust primitives would (`Buf::advance`, `get_u8/16/32`, `split_to`, `split_off`, slice
indexing, `unwrap`, `assert!`), and the theorems show that value is unreachable; progress and
buffer bounds are stated next to them.  The byte-level models are tied to the code by the C06,
C08, C11, C12, C15 correspondence suites and by the dedicated `c09` suite (exhaustive short
strings over a reduced alphabet, under `catch_unwind`).
-/
namespace TT.C09
open TT

/-! ### UDP multiplexer stream (client bytes, any segmentation) -/

/-- never a panic, for every chunking (the decoder result exists) -/
theorem udp_stream_no_panic (chunks : List Bytes) :
    ∃ out d', Udp.decodeStream (2 * (chunks.length + chunks.flatten.length) + 2) {} chunks [] = some (out, d') := by
  obtain ⟨d', h⟩ := Udp.decode_segmentation chunks _ (Nat.le_refl _)
  exact ⟨_, d', h⟩

/-- one decoder step from any reachable state neither panics nor leaves the buffer bound -/
theorem udp_step_safe (d : Udp.Dec) (data : Bytes) (h : d.Inv) (hw : ∀ x ∈ data, x < 256)
    (hbw : ∀ x ∈ d.buffer, x < 256) :
    ∃ d' out tail, Udp.decodeOnce d data = .next d' out tail ∧ d'.Inv ∧ d'.buffer.length ≤ Udp.maxIn := by
  obtain ⟨d', out, tail, h1, h2⟩ := Udp.inv_step d data h hw hbw
  exact ⟨d', out, tail, h1, h2, Udp.inv_buffer_bounded d' h2⟩

/-! ### ICMP multiplexer stream and raw ICMP / ICMPv6 packets from the network -/

theorem icmp_request_decoder_safe (buffer chunk : Bytes) (hb : buffer.length < Icmp.reqSize) :
    Icmp.onMessageChunk buffer chunk ≠ .panic := by
  rcases Icmp.decoder_step_safe buffer chunk hb with ⟨b', h, _⟩ | ⟨raw, tail, h, _⟩ <;> simp [h]

theorem ip_header_skipping_safe (p : Bytes) :
    (Icmp.skipIpv4Header p).isOk = true ∧ (Icmp.skipIpv6Header p).isOk = true :=
  ⟨Icmp.skipIpv4_no_panic p, Icmp.skipIpv6_no_panic p⟩

theorem icmp_packets_safe (p : Bytes) (m : Icmp.Msg) :
    Icmp.deserializeV4 p ≠ .panic ∧ Icmp.deserializeV6 p ≠ .panic ∧
    Icmp.respondedV4 m ≠ .panic ∧ Icmp.respondedV6 m ≠ .panic :=
  ⟨Icmp.deserializeV4_no_panic p, Icmp.deserializeV6_no_panic p, Icmp.respondedV4_no_panic m, Icmp.respondedV6_no_panic m⟩

/-! ### first bytes of a TLS connection -/

/-- the ClientHello walk is a total function (no panicking primitive is used by the model: every
access is a pattern match or a length-checked `take`/`drop`), and the prebuffer is capped -/
theorem client_hello_prebuffer_bounded (avail : List Nat) (stream : Bytes) :
    (CH.readLoop avail [] stream).2.1.length ≤ CH.maxPrebuffer := by
  have key : ∀ (avail : List Nat) (pre stream : Bytes), pre.length ≤ CH.maxPrebuffer →
      (CH.readLoop avail pre stream).2.1.length ≤ CH.maxPrebuffer := by
    intro avail
    induction avail with
    | nil => intro pre stream h; simpa [CH.readLoop] using h
    | cons a rest ih =>
      intro pre stream h
      unfold CH.readLoop
      split
      · simpa using h
      · rename_i hlt
        split
        · simpa using h
        · simpa using h
        · dsimp only
          split
          · simpa using h
          · apply ih
            have hlt' : pre.length < CH.maxPrebuffer := by simpa using hlt
            simp only [List.length_append, List.length_take]
            have : min (min (max a 1) (min CH.readChunk (CH.maxPrebuffer - pre.length))) stream.length
                ≤ CH.maxPrebuffer - pre.length := by omega
            omega
  exact key avail [] stream (Nat.zero_le _)

/-! ### HTTP/1.1 request heads -/

theorem h1_head_bounded_and_progress (p : H1.Parser) (buf : Bytes) (reads : List Bytes) (m : Nat)
    (hb : buf.length < H1.headCap) (hm : ∀ r ∈ reads, r.length ≤ m) :
    H1.maxBuffered p buf reads < H1.headCap + m ∧
    (H1.itersWaiting p buf reads).length ≤ reads.length + 1 :=
  ⟨H1.head_bounded p buf reads m hb hm, (H1.no_spin p buf reads).2.1⟩

/-! ### SOCKS5 server replies and relayed datagrams -/

theorem socks_udp_datagram_safe (pkt : Bytes) : Socks.udpUnwrap pkt ≠ .panic := Socks.udp_unwrap_no_panic pkt

/-- a truncated reply is an error of the request, never a success -/
theorem socks_truncated_reply_is_error (b : Bytes) (r : Socks.Reply) (rest : Bytes)
    (h : Socks.readReply b = .ok r rest) (n : Nat) (hn : n < b.length - rest.length) :
    ∃ e, Socks.readReply (b.take n) = .err e ∧ e = .io := Socks.reply_truncation_is_error b r rest h n hn

/-! ### origin responses of a plain-HTTP forwarding (the origin is untrusted input too) -/

/-- **The response path never loops without consuming input**: in every state reached from the start by
any origin byte stream in any segmentation and any acceptance pattern of the client, one `write` of the
forwarded sink with non-empty data strictly decreases (bytes handed back as unsent + entries left in
the client's acceptance script) - so the pipe's write / wait_writable loop on a segment ends after at
most `segment length + script length` rounds, whatever the origin sent (bytes beyond the announced
Content-Length, a body on a bodiless response, broken chunk framing ...). -/
theorem forwarded_sink_never_spins (ver : Fwd.Ver) (method : Bytes) (quotas : List Nat) (segs : List Bytes) (d : Bytes)
    (hd : d ≠ []) :
    let s := Fwd.feed (Fwd.Sink.init ver method quotas) segs
    (s.write d).2.length + (s.write d).1.quotas.length < d.length + s.quotas.length :=
  (Fwd.write_post _ d (Fwd.runSink_core ver method quotas segs).2 hd).fuel

/-- with a client that takes everything it is offered, a `write` hands back strictly less than it was given -/
theorem forwarded_sink_consumes (s : Fwd.Sink) (d : Bytes) (hi : Fwd.Inv s) (hd : d ≠ []) (hq : s.quotas = []) :
    (s.write d).2.length < d.length := by
  have h := (Fwd.write_post s d hi hd).fuel
  rw [hq] at h
  simp only [List.length_nil] at h
  omega

/-- and a failed sink stays failed with nothing handed back (the pipe ends instead of retrying) -/
theorem forwarded_sink_failure_is_final (s : Fwd.Sink) (d : Bytes) (hi : Fwd.Inv s) (hd : d ≠ [])
    (hf : (s.write d).1.failed = true) : (s.write d).1.phase = .idle ∧ (s.write d).2 = [] :=
  (Fwd.write_post s d hi hd).dead hf

/-! ### rules -/

/-- rule matching is total and a malformed rule matches nothing (no panic on any rules text) -/
theorem rules_malformed_safe (r : Rules.Rule) (ip : Rules.Addr) (random : Option Bytes)
    (h : r.cidr = .invalid ∨ ∃ pat rnd, r.pattern = some pat ∧ random = some rnd ∧ Rules.patternMatches pat rnd = none) :
    r.matches ip random = false := Rules.malformed_never_matches r ip random h

end TT.C09
