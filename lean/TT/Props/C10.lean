import TT.Model.Dispatch
import TT.Lemmas.Dispatch
/-!
# C10  Every tunnel request gets exactly one, correctly coded, final response

`statusOf` / `warnOf` / the reserved authorities are the generated definitions of
`TT/Gen/Dispatch.lean`: the theorems are re-checked against the match arms of
`http_downstream.rs` on every run.
-/
namespace TT.Dispatch
open TT TT.Gen

/-- **Exactly one final response** for every CONNECT request, whatever the credentials, the
authority and the outcome of the outbound attempt -/
theorem exactly_one_final (r : Req) (hm : r.method = .connect) (policy : Policy) (authn : Option Authn) (env : Env) :
    ((handle r policy authn env).filter isFinal).length = 1 := by
  unfold handle
  cases gate (authInfo r.authHdr) policy authn with
  | reject => simp [List.filter_cons]
  | pass fa =>
    cases promote r with
    | health => simp [List.filter_cons]
    | badMethod => simp [List.filter_cons]
    | mux icmp => cases fa <;> cases env.datagramAuthFails <;> simp [List.filter_cons]
    | tcp =>
      simp only [hm]
      split
      · simp [List.filter_cons]
      · cases env.connect with
        | ok => simp [List.filter_cons]
        | err e => simp [List.filter_cons]
        | delayedOk ms => dsimp only; split <;> simp [List.filter_cons]

/-- any other method gets at most one response from the endpoint itself (the successful case is
answered by the origin, C17) -/
theorem at_most_one_final (r : Req) (policy : Policy) (authn : Option Authn) (env : Env) :
    ((handle r policy authn env).filter isFinal).length ≤ 1 := by
  unfold handle
  cases gate (authInfo r.authHdr) policy authn with
  | reject => simp [List.filter_cons]
  | pass fa =>
    cases promote r with
    | health => simp [List.filter_cons]
    | badMethod => simp [List.filter_cons]
    | mux icmp => cases fa <;> cases env.datagramAuthFails <;> simp [List.filter_cons]
    | tcp =>
      dsimp only
      split
      · simp [List.filter_cons]
      · cases env.connect with
        | ok => dsimp only; split <;> simp [List.filter_cons]
        | err e => simp [List.filter_cons]
        | delayedOk ms => dsimp only; split <;> (try split) <;> simp [List.filter_cons]

/-- **Documented codes**: the response is 200, 407 with the Basic challenge, or 502 carrying
300 / 301 / 302, or 310 / 311 together with the offending host name (or no X-Warning for a
wrong method on a reserved authority) -/
theorem codes_documented (r : Req) (policy : Policy) (authn : Option Authn) (env : Env) (resp : Response)
    (h : Event.response resp ∈ handle r policy authn env) :
    resp = ⟨200, []⟩ ∨ resp = ⟨407, [.challenge]⟩ ∨ resp = ⟨502, []⟩ ∨ resp = ⟨502, [.warn 300]⟩ ∨
    resp = ⟨502, [.warn 301]⟩ ∨ resp = ⟨502, [.warn 302]⟩ ∨ resp = ⟨502, [.dnshost, .warn 310]⟩ ∨
    resp = ⟨502, [.dnshost, .warn 311]⟩ := by
  have hfw : ∀ e, Event.response resp = failWith e →
      resp = ⟨200, []⟩ ∨ resp = ⟨407, [.challenge]⟩ ∨ resp = ⟨502, []⟩ ∨ resp = ⟨502, [.warn 300]⟩ ∨
      resp = ⟨502, [.warn 301]⟩ ∨ resp = ⟨502, [.warn 302]⟩ ∨ resp = ⟨502, [.dnshost, .warn 310]⟩ ∨
      resp = ⟨502, [.dnshost, .warn 311]⟩ := by
    intro e he
    have := failWith_documented e
    rw [← he] at this
    simp only [Event.response.injEq] at this
    rcases this with h | h | h | h | h | h <;> simp [h]
  have hok : Event.response resp = ok200 → resp = ⟨200, []⟩ := by
    intro he; simpa [ok200] using he
  unfold handle at h
  cases hg : gate (authInfo r.authHdr) policy authn with
  | reject =>
    rw [hg] at h
    simp only [List.mem_singleton] at h
    exact hfw _ h
  | pass fa =>
    rw [hg] at h
    cases hk : promote r with
    | health =>
      rw [hk] at h
      simp only [List.mem_singleton] at h
      exact .inl (hok h)
    | badMethod =>
      rw [hk] at h
      simp [bad_status_code] at h
      simp [h]
    | mux icmp =>
      rw [hk] at h
      dsimp only at h
      split at h
      · simp only [List.mem_append, List.mem_singleton] at h
        rcases h with h | h
        · split at h <;> simp at h
        · exact hfw _ h
      · simp only [List.mem_append, List.mem_cons, List.not_mem_nil, or_false] at h
        rcases h with h | h | h
        · split at h <;> simp at h
        · exact .inl (hok h)
        · simp at h
    | tcp =>
      rw [hk] at h
      dsimp only at h
      split at h
      · simp only [List.mem_singleton] at h
        exact hfw _ h
      · cases hc : env.connect with
        | ok =>
          rw [hc] at h
          dsimp only at h
          split at h
          · simp only [List.mem_cons, List.not_mem_nil, or_false, reduceCtorEq, false_or] at h
            exact .inl (hok h)
          · simp at h
        | err e =>
          rw [hc] at h
          simp only [List.mem_cons, List.not_mem_nil, or_false, reduceCtorEq, false_or] at h
          exact hfw _ h
        | delayedOk ms =>
          rw [hc] at h
          dsimp only at h
          split at h
          · split at h
            · simp only [List.mem_cons, List.not_mem_nil, or_false, reduceCtorEq, false_or] at h
              exact .inl (hok h)
            · simp at h
          · simp only [List.mem_cons, List.not_mem_nil, or_false, reduceCtorEq, false_or] at h
            exact hfw _ h

/-- the mapping of each outcome of the outbound attempt -/
theorem outcome_codes :
    failWith .hostUnreachable = .response ⟨502, [.warn 301]⟩ ∧
    failWith .timeout = .response ⟨502, [.warn 302]⟩ ∧
    failWith .dnsNonroutable = .response ⟨502, [.dnshost, .warn 310]⟩ ∧
    failWith .dnsLoopback = .response ⟨502, [.dnshost, .warn 311]⟩ ∧
    failWith .io = .response ⟨502, [.warn 300]⟩ ∧
    failWith .other = .response ⟨502, [.warn 300]⟩ ∧
    failWith .authentication = .response ⟨407, [.challenge]⟩ := by
  simp [failWith, statusOf, warnOf]

/-- **With a SOCKS5 upstream the codes are the same**: "network unreachable" and "host unreachable" from the
upstream are both reported as 502 / 301, "TTL expired" as 502 / 302, a refused connection and every other
failure as 502 / 300 - and only the success reply gives 200 -/
theorem socks_upstream_codes (a : SocksAnswer) :
    (match socksOutcome a with
     | .ok => ok200
     | .err e => failWith e
     | .delayedOk _ => ok200) =
    (match a with
     | .reply 0 => .response ⟨200, []⟩
     | .reply 3 => .response ⟨502, [.warn 301]⟩
     | .reply 4 => .response ⟨502, [.warn 301]⟩
     | .reply 6 => .response ⟨502, [.warn 302]⟩
     | _ => .response ⟨502, [.warn 300]⟩) := by
  cases a with
  | closed => simp [socksOutcome, failWith, statusOf, warnOf]
  | malformed => simp [socksOutcome, failWith, statusOf, warnOf]
  | reply c =>
    match c with
    | 0 => simp [socksOutcome, ok200]
    | 1 | 2 | 3 | 4 | 5 | 6 => simp [socksOutcome, failWith, statusOf, warnOf]
    | n + 7 => simp [socksOutcome, failWith, statusOf, warnOf]

/-- a passed CONNECT to an ordinary destination: 200 iff the connection attempt succeeded in time -/
theorem connect_result (r : Req) (hm : r.method = .connect) (policy : Policy) (authn : Option Authn) (env : Env)
    (fa : Option Source) (hg : gate (authInfo r.authHdr) policy authn = .pass fa) (hk : promote r = .tcp)
    (hd : r.authority.isSome = true ∧ (r.isLiteral = true ∨ r.port.isSome = true)) :
    handle r policy authn env =
      [.egress .tcpConnect,
       match env.connect with
       | .ok => ok200
       | .err e => failWith e
       | .delayedOk ms => if ms ≤ env.establishTimeoutMs then ok200 else failWith .timeout] := by
  obtain ⟨hd1, hd2⟩ := hd
  have hdest : ¬ ((!(r.authority.isSome && (r.isLiteral || Method.connect != Method.connect || r.port.isSome))) = true) := by
    rcases hd2 with h | h <;> simp [hd1, h]
  unfold handle
  rw [hg, hk]
  simp only [hm]
  rw [if_neg hdest]
  cases env.connect with
  | ok => simp
  | err e => simp
  | delayedOk ms => dsimp only; split <;> simp

/-- **Reserved authorities are never resolved or connected to**; another method on them is 502 -/
theorem reserved_never_resolved (r : Req) (a : String) (ha : r.authority = some a)
    (hr : a = health_check_authority ∨ a = udp_authority ∨ a = icmp_authority)
    (policy : Policy) (authn : Option Authn) (env : Env) :
    Event.egress .tcpConnect ∉ handle r policy authn env ∧
    (r.method ≠ .connect → ∀ fa, gate (authInfo r.authHdr) policy authn = .pass fa →
      handle r policy authn env = [.response ⟨502, []⟩]) := by
  have hp := promote_reserved r a ha hr
  constructor
  · unfold handle
    cases gate (authInfo r.authHdr) policy authn with
    | reject => simp [failWith]
    | pass fa =>
      rcases hp with ⟨-, hp | ⟨i, hp⟩⟩ | ⟨-, hp⟩
      · simp [hp, ok200]
      · rw [hp]
        cases fa <;> cases env.datagramAuthFails <;> cases i <;> simp [ok200, failWith]
      · simp [hp]
  · intro hm fa hg
    rcases hp with ⟨hc, -⟩ | ⟨-, hp⟩
    · exact absurd hc hm
    · simp [handle, hg, hp, bad_status_code]

/-- names that merely look like the reserved ones (other case, suffix, port) are ordinary hosts -/
theorem lookalikes_are_hosts (r : Req) (a : String) (ha : r.authority = some a)
    (h1 : a ≠ health_check_authority) (h2 : a ≠ udp_authority) (h3 : a ≠ icmp_authority) :
    promote r = .tcp := by
  simp [promote, ha, h1, h2, h3]

example : promote ⟨.connect, some "_CHECK", false, none, none⟩ = .tcp := by decide
example : promote ⟨.connect, some "_check:443", false, some 443, none⟩ = .tcp := by decide
example : promote ⟨.connect, some "_check", false, none, none⟩ = .health := by decide

/-- **A CONNECT without a port is refused** (502 / 300) without any connection attempt -/
theorem connect_without_port_refused (r : Req) (hm : r.method = .connect) (hl : r.isLiteral = false)
    (hp : r.port = none) (hk : promote r = .tcp) (policy : Policy) (authn : Option Authn) (env : Env)
    (fa : Option Source) (hg : gate (authInfo r.authHdr) policy authn = .pass fa) :
    handle r policy authn env = [.response ⟨502, [.warn 300]⟩] := by
  unfold handle
  rw [hg, hk]
  simp [hm, hl, hp, failWith, statusOf, warnOf]

/-- health check and multiplexers are accepted with 200 -/
theorem health_and_mux_accepted (r : Req) (policy : Policy) (authn : Option Authn) (env : Env)
    (fa : Option Source) (hg : gate (authInfo r.authHdr) policy authn = .pass fa) :
    (promote r = .health → handle r policy authn env = [ok200]) ∧
    (∀ icmp, promote r = .mux icmp → (fa.isSome = true ∧ env.datagramAuthFails = true) ∨ ok200 ∈ handle r policy authn env) := by
  constructor
  · intro hk
    simp [handle, hg, hk]
  · intro icmp hk
    by_cases hc : fa.isSome = true ∧ env.datagramAuthFails = true
    · exact .inl hc
    · right
      unfold handle
      rw [hg, hk]
      have : (fa.isSome && env.datagramAuthFails) = false := by
        cases h1 : fa.isSome <;> cases h2 : env.datagramAuthFails <;> simp_all
      simp [this]

/-! ## OS errors of the outbound connect (direct forwarder) -/

/-- **no route is reported as unreachable, a timed-out connect as timed out, anything else as failed**: ENETUNREACH
(101) and EHOSTUNREACH (113) both give `502` with warning 301, ETIMEDOUT (110) warning 302, every other error
number warning 300 (the classification lists are re-read from `io_to_connection_error` on every run) -/
theorem os_error_codes :
    (∀ e ∈ [101, 113], failWith (connErrOfErrno e) = .response ⟨502, [.warn 301]⟩)
    ∧ failWith (connErrOfErrno 110) = .response ⟨502, [.warn 302]⟩
    ∧ (∀ e, e ∉ [101, 113, 110] → failWith (connErrOfErrno e) = .response ⟨502, [.warn 300]⟩) := by
  refine ⟨by decide, by decide, ?_⟩
  intro e he
  have h1 : unreachableErrnos.contains e = false := by
    simp only [unreachableErrnos, List.contains_cons, List.contains_nil, Bool.or_false, Bool.or_eq_false_iff, beq_eq_false_iff_ne]
    simp only [List.mem_cons, List.not_mem_nil, or_false, not_or] at he
    exact ⟨he.1, he.2.1⟩
  have h2 : timedOutErrnos.contains e = false := by
    simp only [timedOutErrnos, List.contains_cons, List.contains_nil, Bool.or_false, beq_eq_false_iff_ne]
    simp only [List.mem_cons, List.not_mem_nil, or_false, not_or] at he
    exact he.2.2
  have h1' : e ∉ unreachableErrnos := by simpa using h1
  have h2' : e ∉ timedOutErrnos := by simpa using h2
  simp [connErrOfErrno, h1', h2', failWith, statusOf, warnOf]

theorem failWith_ne_ok200 (e : Gen.ConnErr) : failWith e ≠ ok200 := by
  cases e <;> decide

/-- **A failed attempt is never reported as success**: for an ordinary destination, when the outbound
attempt fails (or completes only after the establishment timeout) no 200 is sent, whatever the
credentials and the form of the authority -/
theorem failed_connect_never_200 (r : Req) (hk : promote r = .tcp) (policy : Policy) (authn : Option Authn) (env : Env)
    (hf : (∃ e, env.connect = .err e) ∨ (∃ ms, env.connect = .delayedOk ms ∧ env.establishTimeoutMs < ms)) :
    ok200 ∉ handle r policy authn env := by
  have hne : ∀ e, ok200 ≠ failWith e := fun e h => failWith_ne_ok200 e h.symm
  have hne2 : ok200 ≠ Event.egress .tcpConnect := by decide
  unfold handle
  cases gate (authInfo r.authHdr) policy authn with
  | reject => simp [hne]
  | pass fa =>
    simp only [hk]
    split
    · simp [hne]
    · rcases hf with ⟨e, he⟩ | ⟨ms, hms, hlt⟩
      · rw [he]
        simp [hne, hne2]
      · rw [hms]
        have : ¬ ms ≤ env.establishTimeoutMs := by omega
        simp [this, hne, hne2]

set_option linter.unusedSimpArgs false in
/-- **At most one outbound connection attempt per request** -/
theorem at_most_one_connect_attempt (r : Req) (policy : Policy) (authn : Option Authn) (env : Env) :
    ((handle r policy authn env).filter (· == Event.egress .tcpConnect)).length ≤ 1 := by
  unfold handle
  cases gate (authInfo r.authHdr) policy authn with
  | reject => simp [failWith, List.filter_cons]
  | pass fa =>
    cases promote r with
    | health => simp [ok200, List.filter_cons]
    | badMethod => simp [List.filter_cons]
    | mux icmp =>
      simp only
      split <;> split <;> cases icmp <;> simp [failWith, ok200, List.filter_cons, List.filter_append]
    | tcp =>
      simp only
      split
      · simp [failWith, List.filter_cons]
      · split
        · split <;> simp [ok200, List.filter_cons]
        · simp [failWith, List.filter_cons]
        · split
          · split <;> simp [ok200, List.filter_cons]
          · simp [failWith, List.filter_cons]

end TT.Dispatch
