import TT.Model.Icmp
import TT.Lemmas.Icmp
/-!
# C11  ICMP echo tunnelling: faithful requests, valid checksums, matched replies

Property theorems only (helper lemmas live in `TT/Lemmas/Icmp.lean`).
-/
namespace TT.Icmp
open TT TT.Bytes

def BytesWF (b : Bytes) : Prop := ∀ x ∈ b, x < 256

/-- **Checksum correctness for every payload**: the serialised echo (type 8 or 128, any
identifier / sequence number, any data of at most 65535 bytes - the data size field is a
`u16`) verifies: its one's-complement sum, checksum included, folds to 0xFFFF.  This includes
the sums that carry twice. -/
theorem checksum_verifies (e : Echo) (typeId : Nat) (ht : typeId < 256) (hid : e.id < 65536)
    (hseq : e.seq < 65536) (hd : BytesWF e.data) (hl : e.data.length ≤ 65535) :
    verifies (e.serialize typeId) = true := by
  sorry

/-- the wrapping `u32` accumulation of the Rust loop never wraps on such packets, so the model's
unbounded sum is what the code computes -/
theorem sum32_exact (bs : Bytes) (hw : BytesWF bs) (hl : bs.length ≤ 131070) :
    sumWords32 bs 0 = sumWords bs := by
  sorry

/-- a payload whose plain sum carries twice (the pre-fix single fold failed on it) -/
example : verifies (Echo.serialize ⟨0, 0xffff, 0xffff, [0xf7, 0xff, 0x00, 0x01]⟩ 8) = true := by decide +kernel

/-! ### 7.3 request records -/

/-- spec-side encoder of one PROTOCOL.md 7.3 record -/
def encodeRequest (r : Request) : Bytes :=
  u16be r.id ++ putFixedIp r.dest ++ u16be r.seq ++ [r.ttl] ++ u16be r.dataSize

/-- addresses that 7.3 can carry unambiguously: IPv4, or IPv6 whose first 96 bits are not all
zero (`::a.b.c.d` is indistinguishable from the zero-padded IPv4 form on the wire) -/
def Request.WF (r : Request) : Prop :=
  r.id < 65536 ∧ r.seq < 65536 ∧ r.ttl < 256 ∧ r.dataSize < 65536 ∧
  (match r.dest with
   | .v4 a b c d => a < 256 ∧ b < 256 ∧ c < 256 ∧ d < 256
   | .v6 x => x.s0 < 65536 ∧ x.s1 < 65536 ∧ x.s2 < 65536 ∧ x.s3 < 65536 ∧ x.s4 < 65536 ∧ x.s5 < 65536 ∧
       x.s6 < 65536 ∧ x.s7 < 65536 ∧ ¬ (x.s0 = 0 ∧ x.s1 = 0 ∧ x.s2 = 0 ∧ x.s3 = 0 ∧ x.s4 = 0 ∧ x.s5 = 0))

/-- **Fields are faithful**: identifier, destination, sequence number, TTL and data size of a
record are exactly what the client encoded -/
theorem request_fields_faithful (r : Request) (h : r.WF) (rest : Bytes) :
    parseRequest (encodeRequest r ++ rest) = .ok r := by
  sorry

/-- the echo type follows the destination family -/
theorem request_type (r : Request) : requestType r = (match r.dest with | .v4 .. => 8 | .v6 _ => 128) := by
  cases h : r.dest <;> simp [requestType, Ip.Ip.isV6, h]

/-- **No panic, bounded buffer**: from any buffer shorter than a record, feeding any chunk
neither trips an assertion nor leaves more than 22 buffered bytes -/
theorem decoder_step_safe (buffer chunk : Bytes) (hb : buffer.length < reqSize) :
    (∃ b', onMessageChunk buffer chunk = .wantMore b' ∧ b' = buffer ++ chunk ∧ b'.length < reqSize) ∨
    (∃ raw tail, onMessageChunk buffer chunk = .complete raw tail ∧ raw.length = reqSize ∧
        buffer ++ chunk = raw ++ tail) := by
  sorry

/-- **Segmentation invariance**: for every split of the stream into chunks, the requests decoded
through the re-queueing glue are exactly the consecutive 23-byte records of the concatenation,
and the bytes left in the decoder are the incomplete trailing record. -/
theorem request_decode_segmentation (chunks : List Bytes) (fuel : Nat)
    (hf : fuel ≥ chunks.length + chunks.flatten.length + 1) :
    decodeStream fuel [] chunks [] =
      some (specDecode (chunks.flatten.length + 1) chunks.flatten,
            chunks.flatten.drop (reqSize * (chunks.flatten.length / reqSize))) := by
  sorry

/-- and the record-level spec returns the encoded requests, in order -/
theorem spec_decode_encode (rs : List Request) (h : ∀ r ∈ rs, r.WF) (fuel : Nat) (hf : fuel ≥ rs.length + 1) :
    specDecode fuel (rs.map encodeRequest).flatten = rs := by
  sorry

/-! ### parsers of network input never panic (shared with C09) -/

theorem skipIpv4_no_panic (p : Bytes) : (skipIpv4Header p).isOk = true := by
  sorry

theorem skipIpv6_no_panic (p : Bytes) : (skipIpv6Header p).isOk = true := by
  sorry

theorem deserializeV4_no_panic (p : Bytes) : deserializeV4 p ≠ .panic := by
  sorry

theorem deserializeV6_no_panic (p : Bytes) : deserializeV6 p ≠ .panic := by
  sorry

theorem respondedV4_no_panic (m : Msg) : respondedV4 m ≠ .panic := by
  sorry

theorem respondedV6_no_panic (m : Msg) : respondedV6 m ≠ .panic := by
  sorry

/-! ### replies and quoting errors designate the request -/

/-- an echo reply designates itself -/
theorem reply_designates (e : Echo) : respondedV4 (.echo 0 e) = .some e ∧ respondedV6 (.echo 129 e) = .some e := by
  simp [respondedV4, respondedV6]

/-- an ICMPv4 error quoting `IPv4 header (IHL = 5, protocol 1) ++ echo request` designates the
request's identifier and sequence number (data = the quoted part of the payload) -/
theorem v4_error_designates (t c : Nat) (hdr : Bytes) (e : Echo) (q : Bytes)
    (hh : hdr.length = 20) (h0 : hdr[0]? = some 0x45) (hp : hdr[9]? = some 1)
    (hid : e.id < 65536) (hseq : e.seq < 65536)
    (hq : q = 8 :: 0 :: 0 :: 0 :: (u16be e.id ++ u16be e.seq ++ e.data)) :
    respondedV4 (.err t c (hdr ++ q)) = .some ⟨0, e.id, e.seq, e.data⟩ := by
  sorry

/-- 7.4 format: identifier, 16-byte responder address, type, code, sequence number -/
theorem reply_format (v6 : Bool) (peer : Ip.Ip) (m : Msg) (e : Echo)
    (h : (if v6 then respondedV6 m else respondedV4 m) = .some e) :
    encodeReply v6 peer m = .some (u16be e.id ++ putFixedIp peer ++ [m.typeId, m.code] ++ u16be e.seq) := by
  simp [encodeReply, h]

/-! ### waiter table -/

/-- reachable tables: built from the empty one by sends, receives and timer sweeps -/
inductive Op where
  | send (client : Nat) (e : Echo) (now : Nat)
  | recv (req : Echo) (full : Bool)
  | tick (now : Nat)

def Table.step (timeout : Nat) (t : Table) : Op → Table
  | .send c e now => t.send c e now timeout
  | .recv req full => (t.recv req full).1
  | .tick now => t.tick now

/-- **Only the requester is told**: a delivery goes to the client recorded in a live waiter whose
key matches the extracted request; with no matching waiter nothing is reported. -/
theorem recv_reports_only_requester (t : Table) (req : Echo) (full : Bool) (c : Nat)
    (h : (t.recv req full).2 = some c) :
    ∃ w ∈ t.waiters, echoKeyEq w.key req = true ∧ w.client = c := by
  sorry

theorem recv_unmatched_silent (t : Table) (req : Echo) (full : Bool)
    (h : ∀ w ∈ t.waiters, echoKeyEq w.key req = false) : (t.recv req full).2 = none := by
  sorry

/-- **Late packets are dropped / waiters are forgotten**: after a sweep at `now`, no waiter whose
own deadline entry has passed remains, provided each waiter still has its deadline entry
(invariant `Sched`, preserved by every operation). -/
def Table.Sched (t : Table) : Prop :=
  ∀ w ∈ t.waiters, ∃ d ∈ t.deadlines, d.1 ≤ w.deadline ∧ echoKeyEq w.key d.2 = true

theorem sched_init : (({} : Table)).Sched := by
  intro w hw; cases hw

theorem sched_step (timeout : Nat) (t : Table) (op : Op) (h : t.Sched) : (t.step timeout op).Sched := by
  sorry

theorem tick_forgets (t : Table) (now : Nat) (h : t.Sched) :
    ∀ w ∈ (t.tick now).waiters, now < w.deadline := by
  sorry

/-- **Bounded table**: the table never holds more waiters than echo requests were sent, and (with
`tick_forgets`) after a sweep at `now` only requests (re)scheduled within the last `timeout`
remain. -/
def countSends : List Op → Nat
  | [] => 0
  | .send .. :: rest => 1 + countSends rest
  | _ :: rest => countSends rest

theorem waiters_le_sends (timeout : Nat) (ops : List Op) :
    (ops.foldl (Table.step timeout) {}).waiters.length ≤ countSends ops := by
  sorry

theorem tick_deadlines (t : Table) (now : Nat) : ∀ d ∈ (t.tick now).deadlines, now < d.1 := by
  sorry

end TT.Icmp
