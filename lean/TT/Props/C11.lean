import TT.Model.Icmp
import TT.Lemmas.Icmp
/-!
# C11  ICMP echo tunnelling: faithful requests, valid checksums, matched replies

Property theorems only (helper lemmas live in `TT/Lemmas/Icmp.lean`).
-/
namespace TT.Icmp
open TT TT.Bytes

def BytesWF (b : Bytes) : Prop := ∀ x ∈ b, x < 256

/-- **Checksum correctness for every payload**: the serialised echo (type 8 or 128, any
identifier / sequence number, any data of at most 65535 bytes - the data size field is a
`u16`) verifies: its one's-complement sum, checksum included, folds to 0xFFFF.  This includes
the sums that carry twice. -/
theorem checksum_verifies (e : Echo) (typeId : Nat) (ht : typeId < 256) (hid : e.id < 65536)
    (hseq : e.seq < 65536) (hd : BytesWF e.data) (hl : e.data.length ≤ 65535) :
    verifies (e.serialize typeId) = true := by
  have _ := hid; have _ := hseq  -- (`u16be` truncates, so the bounds are not needed)
  have hwf : BytesWF (e.serialize0 typeId) := by
    intro x hx
    simp only [Echo.serialize0, u16be, List.mem_cons, List.cons_append, List.nil_append] at hx
    rcases hx with h | h | h | h | h | h | h | h | h
    any_goals omega
    exact hd x h
  have hlen : (e.serialize0 typeId).length ≤ 131070 := by
    simp [Echo.serialize0, u16be]; omega
  have hS := sumWords32_exact _ hwf hlen
  simp only [verifies, Echo.serialize, checksum, hS, beq_iff_eq]
  generalize hS' : sumWords (e.serialize0 typeId) = S
  have h1 := fold16_mod S
  have h2 := fold16_lt S
  have h3 := fold16_le S
  generalize fold16 S = f at *
  rw [sumWords_hdr _ _ _ (by omega)]
  rw [Echo.serialize0, sumWords_hdr0] at hS'
  apply fold16_eq_ffff <;> omega

/-- the wrapping `u32` accumulation of the Rust loop never wraps on such packets, so the model's
unbounded sum is what the code computes -/
theorem sum32_exact (bs : Bytes) (hw : BytesWF bs) (hl : bs.length ≤ 131070) :
    sumWords32 bs 0 = sumWords bs := by
  exact sumWords32_exact bs hw hl

/-- a payload whose plain sum carries twice (the pre-fix single fold failed on it) -/
example : verifies (Echo.serialize ⟨0, 0xffff, 0xffff, [0xf7, 0xff, 0x00, 0x01]⟩ 8) = true := by decide +kernel

/-! ### 7.3 request records -/

/-- spec-side encoder of one PROTOCOL.md 7.3 record -/
def encodeRequest (r : Request) : Bytes :=
  u16be r.id ++ putFixedIp r.dest ++ u16be r.seq ++ [r.ttl] ++ u16be r.dataSize

/-- addresses that 7.3 can carry unambiguously: IPv4, or IPv6 whose first 96 bits are not all
zero (`::a.b.c.d` is indistinguishable from the zero-padded IPv4 form on the wire) -/
def Request.WF (r : Request) : Prop :=
  r.id < 65536 ∧ r.seq < 65536 ∧ r.ttl < 256 ∧ r.dataSize < 65536 ∧
  (match r.dest with
   | .v4 a b c d => a < 256 ∧ b < 256 ∧ c < 256 ∧ d < 256
   | .v6 x => x.s0 < 65536 ∧ x.s1 < 65536 ∧ x.s2 < 65536 ∧ x.s3 < 65536 ∧ x.s4 < 65536 ∧ x.s5 < 65536 ∧
       x.s6 < 65536 ∧ x.s7 < 65536 ∧ ¬ (x.s0 = 0 ∧ x.s1 = 0 ∧ x.s2 = 0 ∧ x.s3 = 0 ∧ x.s4 = 0 ∧ x.s5 = 0))

/-- **Fields are faithful**: identifier, destination, sequence number, TTL and data size of a
record are exactly what the client encoded -/
theorem request_fields_faithful (r : Request) (h : r.WF) (rest : Bytes) :
    parseRequest (encodeRequest r ++ rest) = .ok r := by
  obtain ⟨id, dest, seq, ttl, sz⟩ := r
  obtain ⟨h1, h2, h3, h4, h5⟩ := h
  simp only at h1 h2 h3 h4 h5
  cases dest with
  | v4 a b c d =>
    simp only [encodeRequest, putFixedIp, u16be, parseRequest, getU16, getFixedIp, splitTo, getU8,
      List.cons_append, List.nil_append, List.length_cons, List.take, List.drop, fixedIpOf]
    simp
    omega
  | v6 x =>
    obtain ⟨s0, s1, s2, s3, s4, s5, s6, s7⟩ := x
    simp only at h5
    simp only [encodeRequest, putFixedIp, u16be, parseRequest, getU16, getFixedIp, splitTo, getU8,
      List.cons_append, List.nil_append, List.length_cons, List.take, List.drop, fixedIpOf]
    simp
    obtain ⟨g0, g1, g2, g3, g4, g5, g6, g7, g8⟩ := h5
    refine ⟨by omega, ?_, by omega, by omega⟩
    rw [if_neg (by omega)]
    simp only [u16be_sum _ g0, u16be_sum _ g1, u16be_sum _ g2, u16be_sum _ g3, u16be_sum _ g4,
      u16be_sum _ g5, u16be_sum _ g6, u16be_sum _ g7]

/-- the echo type follows the destination family -/
theorem request_type (r : Request) : requestType r = (match r.dest with | .v4 .. => 8 | .v6 _ => 128) := by
  cases h : r.dest <;> simp [requestType, Ip.Ip.isV6, h]

/-- **Requested TTL / hop limit on the wire**: the echo request that leaves the endpoint for a record
goes to the record's destination, with the record's TTL / hop limit, identifier, sequence number and data
size, whatever follows the record in the stream -/
theorem request_leaves_as_requested (r : Request) (h : r.WF) (rest : Bytes) :
    ∃ q, parseRequest (encodeRequest r ++ rest) = .ok q ∧
      outgoing q = ⟨r.dest, r.ttl, (match r.dest with | .v4 .. => 8 | .v6 _ => 128), r.id, r.seq, r.dataSize⟩ := by
  refine ⟨r, request_fields_faithful r h rest, ?_⟩
  simp only [outgoing, request_type]

example : (⟨7, .v4 127 0 0 1, 3, 5, 24⟩ : Request).WF ∧
    (outgoing ⟨7, .v4 127 0 0 1, 3, 5, 24⟩).hopLimit = 5 := by
  refine ⟨?_, rfl⟩
  simp [Request.WF]

/-- **No panic, bounded buffer**: from any buffer shorter than a record, feeding any chunk
neither trips an assertion nor leaves more than 22 buffered bytes -/
theorem decoder_step_safe (buffer chunk : Bytes) (hb : buffer.length < reqSize) :
    (∃ b', onMessageChunk buffer chunk = .wantMore b' ∧ b' = buffer ++ chunk ∧ b'.length < reqSize) ∨
    (∃ raw tail, onMessageChunk buffer chunk = .complete raw tail ∧ raw.length = reqSize ∧
        buffer ++ chunk = raw ++ tail) := by
  exact decoder_step_safe_lem buffer chunk hb

/-- **Segmentation invariance**: for every split of the stream into chunks, the requests decoded
through the re-queueing glue are exactly the consecutive 23-byte records of the concatenation,
and the bytes left in the decoder are the incomplete trailing record. -/
theorem request_decode_segmentation (chunks : List Bytes) (fuel : Nat)
    (hf : fuel ≥ chunks.length + chunks.flatten.length + 1) :
    decodeStream fuel [] chunks [] =
      some (specDecode (chunks.flatten.length + 1) chunks.flatten,
            chunks.flatten.drop (reqSize * (chunks.flatten.length / reqSize))) := by
  have := decodeStream_gen fuel [] chunks [] (chunks.flatten.length + 1) (by simp) (by omega)
    (by simp only [List.nil_append]; omega)
  simp only [List.nil_append, List.reverse_nil] at this
  exact this

/-- and the record-level spec returns the encoded requests, in order -/
theorem spec_decode_encode (rs : List Request) (h : ∀ r ∈ rs, r.WF) (fuel : Nat) (hf : fuel ≥ rs.length + 1) :
    specDecode fuel (rs.map encodeRequest).flatten = rs := by
  induction rs generalizing fuel with
  | nil => simpa using specDecode_short fuel [] (by simp)
  | cons r rs ih =>
    obtain ⟨F, rfl⟩ : ∃ F, fuel = F + 1 := ⟨fuel - 1, by simp at hf; omega⟩
    have hlen : (encodeRequest r).length = 23 := by
      cases hd : r.dest <;> simp [encodeRequest, putFixedIp, u16be, hd]
    have hp : parseRequest (encodeRequest r) = .ok r := by
      simpa using request_fields_faithful r (h r (by simp)) []
    rw [List.map_cons, List.flatten_cons, specDecode_long _ _ _ _ hlen hp,
      ih (fun x hx => h x (by simp [hx])) F (by simp at hf; omega)]

/-! ### parsers of network input never panic (shared with C09) -/

theorem skipIpv4_no_panic (p : Bytes) : (skipIpv4Header p).isOk = true := by
  unfold skipIpv4Header
  by_cases h : p.length < 20
  · simp [h, Res.isOk]
  · rw [if_neg h]
    obtain ⟨x, hx⟩ := getU8_ok p (by omega)
    rw [hx]; dsimp only
    split
    · rfl
    · next hc =>
      simp only [Bool.or_eq_true, decide_eq_true_eq, not_or, Nat.not_lt, List.length_drop] at hc
      rw [advance_ok 8 _ (by rw [List.length_drop]; omega)]; dsimp only
      obtain ⟨y, hy⟩ := getU8_ok ((p.drop 1).drop 8) (by simp only [List.length_drop]; omega)
      rw [hy]; dsimp only
      rw [advance_ok _ _ (by simp only [List.length_drop]; omega)]
      rfl

theorem skipIpv6_no_panic (p : Bytes) : (skipIpv6Header p).isOk = true := by
  unfold skipIpv6Header
  split
  · rfl
  · next h =>
    rw [advance_ok _ _ (by omega)]; dsimp only
    obtain ⟨a, ha⟩ := getU8_ok (p.drop 6) (by simp only [List.length_drop]; omega)
    rw [ha]; dsimp only
    rw [advance_ok _ _ (by simp only [List.length_drop]; omega)]
    exact skipIpv6Ext_no_panic _ _ _

theorem deserializeV4_no_panic (p : Bytes) : deserializeV4 p ≠ .panic := by
  unfold deserializeV4
  cases p with
  | nil => simp
  | cons t p =>
    dsimp only
    repeat' refine ite_ne_panic (fun _ => ?_) (fun _ => ?_)
    all_goals first
      | (intro h; cases h; done)
      | exact afterType_ne_panic p _ 4 (by omega) (fun c q hq => parseEcho_ne_panic _ _ _ hq)
      | exact afterType_ne_panic p _ 4 (by omega) (fun c q hq => parseErr_ne_panic _ _ _ _ hq)
      | exact afterType_ne_panic p _ 16 (by simp at *; omega) (fun c q hq => parseTimestamp_ne_panic _ _ _ hq)
      | exact afterType_ne_panic p _ 4 (by simp at *; omega) (fun c q hq => parseInformation_ne_panic _ _ _ hq)

theorem deserializeV6_no_panic (p : Bytes) : deserializeV6 p ≠ .panic := by
  unfold deserializeV6
  cases p with
  | nil => simp
  | cons t p =>
    dsimp only
    repeat' refine ite_ne_panic (fun _ => ?_) (fun _ => ?_)
    all_goals first
      | (intro h; cases h; done)
      | exact afterType_ne_panic p _ 4 (by omega) (fun c q hq => parseEcho_ne_panic _ _ _ hq)
      | exact afterType_ne_panic p _ 4 (by omega) (fun c q hq => parseErr_ne_panic _ _ _ _ hq)

theorem respondedV4_no_panic (m : Msg) : respondedV4 m ≠ .panic := by
  unfold respondedV4
  split
  · simp
  · simp
  · exact quotedEcho_ne_panic _ (skipIpv4_no_panic _) _ _
  · simp

theorem respondedV6_no_panic (m : Msg) : respondedV6 m ≠ .panic := by
  unfold respondedV6
  split
  · simp
  · simp
  · exact quotedEcho_ne_panic _ (skipIpv6_no_panic _) _ _
  · simp

/-! ### replies and quoting errors designate the request -/

/-- an echo reply designates itself -/
theorem reply_designates (e : Echo) : respondedV4 (.echo 0 e) = .some e ∧ respondedV6 (.echo 129 e) = .some e := by
  simp [respondedV4, respondedV6]

/-- an ICMPv4 error quoting `IPv4 header (IHL = 5, protocol 1) ++ echo request` designates the
request's identifier and sequence number (data = the quoted part of the payload) -/
theorem v4_error_designates (t c : Nat) (hdr : Bytes) (e : Echo) (q : Bytes)
    (hh : hdr.length = 20) (h0 : hdr[0]? = some 0x45) (hp : hdr[9]? = some 1)
    (hid : e.id < 65536) (hseq : e.seq < 65536)
    (hq : q = 8 :: 0 :: 0 :: 0 :: (u16be e.id ++ u16be e.seq ++ e.data)) :
    respondedV4 (.err t c (hdr ++ q)) = .some ⟨0, e.id, e.seq, e.data⟩ := by
  match hdr, hh, h0, hp with
  | [a0, a1, a2, a3, a4, a5, a6, a7, a8, a9, a10, a11, a12, a13, a14, a15, a16, a17, a18, a19], _, h0, hp =>
    simp at h0 hp
    subst h0 hp hq
    simp only [respondedV4, skipIpv4_plain, quotedEcho]
    simp [afterType, getU8, splitOff, parseEcho, getU16, u16be]
    rw [if_neg (by omega), u16be_sum _ hid, u16be_sum _ hseq]

/-- 7.4 format: identifier, 16-byte responder address, type, code, sequence number -/
theorem reply_format (v6 : Bool) (peer : Ip.Ip) (m : Msg) (e : Echo)
    (h : (if v6 then respondedV6 m else respondedV4 m) = .some e) :
    encodeReply v6 peer m = .some (u16be e.id ++ putFixedIp peer ++ [m.typeId, m.code] ++ u16be e.seq) := by
  simp [encodeReply, h]

/-! ### waiter table -/

/-- reachable tables: built from the empty one by sends, receives and timer sweeps -/
inductive Op where
  | send (client : Nat) (e : Echo) (now : Nat)
  | recv (req : Echo) (full : Bool)
  | tick (now : Nat)

def Table.step (timeout : Nat) (t : Table) : Op → Table
  | .send c e now => t.send c e now timeout
  | .recv req full => (t.recv req full).1
  | .tick now => t.tick now

/-- **Only the requester is told**: a delivery goes to the client recorded in a live waiter whose
key matches the extracted request; with no matching waiter nothing is reported. -/
theorem recv_reports_only_requester (t : Table) (req : Echo) (full : Bool) (c : Nat)
    (h : (t.recv req full).2 = some c) :
    ∃ w ∈ t.waiters, echoKeyEq w.key req = true ∧ w.client = c := by
  unfold Table.recv at h
  split at h
  · simp at h
  · next w hw =>
    split at h
    · simp at h
    · simp only [Option.some.injEq] at h
      exact ⟨w, List.mem_of_find?_eq_some hw, List.find?_some (p := fun w : Waiter => echoKeyEq w.key req) hw, h⟩

theorem recv_unmatched_silent (t : Table) (req : Echo) (full : Bool)
    (h : ∀ w ∈ t.waiters, echoKeyEq w.key req = false) : (t.recv req full).2 = none := by
  unfold Table.recv
  split
  · rfl
  · next w hw =>
    have := h w (List.mem_of_find?_eq_some hw)
    have h2 : echoKeyEq w.key req = true := List.find?_some (p := fun w : Waiter => echoKeyEq w.key req) hw
    simp [this] at h2

/-- **Late packets are dropped / waiters are forgotten**: after a sweep at `now`, no waiter whose
own deadline entry has passed remains, provided each waiter still has its deadline entry
(invariant `Sched`, preserved by every operation). -/
def Table.Sched (t : Table) : Prop :=
  ∀ w ∈ t.waiters, ∃ d ∈ t.deadlines, d.1 ≤ w.deadline ∧ echoKeyEq w.key d.2 = true

theorem sched_init : (({} : Table)).Sched := by
  intro w hw; cases hw

theorem sched_step (timeout : Nat) (t : Table) (op : Op) (h : t.Sched) : (t.step timeout op).Sched := by
  cases op with
  | send c e now =>
    intro w hw
    simp only [Table.step, Table.send] at hw ⊢
    split at hw
    · rw [List.mem_map] at hw
      obtain ⟨w0, hw0, rfl⟩ := hw
      split
      · next hk => exact ⟨(now + timeout, e), by simp, Nat.le_refl _, hk⟩
      · obtain ⟨d, hd, h1, h2⟩ := h w0 hw0
        exact ⟨d, by simp [hd], h1, h2⟩
    · rw [List.mem_append] at hw
      rcases hw with hw | hw
      · obtain ⟨d, hd, h1, h2⟩ := h w hw
        exact ⟨d, by simp [hd], h1, h2⟩
      · simp only [List.mem_singleton] at hw
        subst hw
        exact ⟨(now + timeout, e), by simp, Nat.le_refl _, echoKeyEq_refl e⟩
  | recv req full =>
    intro w hw
    obtain ⟨h1, h2⟩ := recv_fst t req full
    simp only [Table.step] at hw ⊢
    rw [h1]
    exact h w (h2 w hw)
  | tick now =>
    intro w hw
    simp only [Table.step, Table.tick] at hw ⊢
    rw [List.mem_filter] at hw
    obtain ⟨hw1, hw2⟩ := hw
    obtain ⟨d, hd, h1, h2⟩ := h w hw1
    refine ⟨d, ?_, h1, h2⟩
    rw [List.mem_filter]
    refine ⟨hd, ?_⟩
    by_cases hdn : d.1 ≤ now
    · exfalso
      have : (t.deadlines.filter (fun d => d.1 ≤ now)).any (fun d => echoKeyEq w.key d.2) = true := by
        rw [List.any_eq_true]
        exact ⟨d, List.mem_filter.mpr ⟨hd, by simpa using hdn⟩, h2⟩
      simp [this] at hw2
    · simpa using hdn

theorem tick_forgets (t : Table) (now : Nat) (h : t.Sched) :
    ∀ w ∈ (t.tick now).waiters, now < w.deadline := by
  intro w hw
  simp only [Table.tick] at hw
  rw [List.mem_filter] at hw
  obtain ⟨hw1, hw2⟩ := hw
  obtain ⟨d, hd, h1, h2⟩ := h w hw1
  by_cases hdn : d.1 ≤ now
  · exfalso
    have : (t.deadlines.filter (fun d => d.1 ≤ now)).any (fun d => echoKeyEq w.key d.2) = true := by
      rw [List.any_eq_true]
      exact ⟨d, List.mem_filter.mpr ⟨hd, by simpa using hdn⟩, h2⟩
    simp [this] at hw2
  · omega

/-- **Bounded table**: the table never holds more waiters than echo requests were sent, and (with
`tick_forgets`) after a sweep at `now` only requests (re)scheduled within the last `timeout`
remain. -/
def countSends : List Op → Nat
  | [] => 0
  | .send .. :: rest => 1 + countSends rest
  | _ :: rest => countSends rest

theorem waiters_le_sends (timeout : Nat) (ops : List Op) :
    (ops.foldl (Table.step timeout) {}).waiters.length ≤ countSends ops := by
  have gen : ∀ (ops : List Op) (t : Table),
      (ops.foldl (Table.step timeout) t).waiters.length ≤ t.waiters.length + countSends ops := by
    intro ops
    induction ops with
    | nil => intro t; simp [countSends]
    | cons op ops ih =>
      intro t
      rw [List.foldl_cons]
      have h1 := ih (t.step timeout op)
      cases op with
      | send c e now =>
        have h2 := send_waiters_le t c e now timeout
        simp only [Table.step, countSends] at h1 ⊢; omega
      | recv req full =>
        have h2 := recv_waiters_le t req full
        simp only [Table.step, countSends] at h1 ⊢; omega
      | tick now =>
        have h2 := tick_waiters_le t now
        simp only [Table.step, countSends] at h1 ⊢; omega
  simpa using gen ops {}

theorem tick_deadlines (t : Table) (now : Nat) : ∀ d ∈ (t.tick now).deadlines, now < d.1 := by
  intro d hd
  simp only [Table.tick] at hd
  rw [List.mem_filter] at hd
  have := hd.2
  simp at this
  omega

end TT.Icmp
