import TT.Model.ClientHello
import TT.Lemmas.ClientHello
/-!
# C12  ClientHello random is extracted exactly and transparently
-/
namespace TT.CH
open TT TT.Bytes

structure HelloWF (recVersion version random sid suites comps exts : Bytes) : Prop where
  rv : recVersion.length = 2
  v : version.length = 2
  r : random.length = 32
  s : sid.length ≤ 32
  c : suites.length % 2 = 0 ∧ suites.length < 65536
  m : comps.length < 256
  e : exts.length < 65536
  fits : 4 + (chBody version random sid suites comps exts).length ≤ maxRecordLen

/-- **Exact extraction, whatever follows and whatever the extensions** (any size that fits a
record: padding, large key shares): the value is the 32-byte random field -/
theorem extract_exact (recVersion version random sid suites comps exts suffix : Bytes)
    (h : HelloWF recVersion version random sid suites comps exts) :
    extract (chRecord recVersion version random sid suites comps exts ++ suffix) = .found random := by
  obtain ⟨a, b, rfl⟩ := len2 h.rv
  rw [chRecord_shape]
  exact extract_shape a b _ suffix random
    (parse_chBody version random sid suites comps exts h.v h.r h.s h.c.1 h.c.2) h.fits

/-- every strict prefix of the record asks for more data (never a wrong or early answer) -/
theorem prefix_needs_more (recVersion version random sid suites comps exts : Bytes)
    (h : HelloWF recVersion version random sid suites comps exts) (n : Nat)
    (hn : n < (chRecord recVersion version random sid suites comps exts).length) :
    extract ((chRecord recVersion version random sid suites comps exts).take n) = .needMore := by
  obtain ⟨a, b, rfl⟩ := len2 h.rv
  rw [chRecord_shape] at hn ⊢
  have hfits := h.fits
  unfold maxRecordLen at hfits
  apply extract_prefix_shape
  · simp only [List.length_cons]; omega
  · unfold maxRecordLen; simp only [List.length_cons]; omega
  · simp only [List.length_cons] at hn ⊢; omega

/-- **Never some other value**: whatever the input, a reported random is bytes 11..43 of a
handshake record that starts the stream and carries a ClientHello -/
theorem found_is_the_field (data r : Bytes) (h : extract data = .found r) :
    r = (data.drop 11).take 32 ∧ data.head? = some 22 ∧ data[5]? = some 1 ∧ 43 ≤ data.length := by
  exact found_is_the_field' data r h

/-- the read loop never loses, duplicates or reorders bytes: prebuffer ++ unread = the stream -/
theorem loop_conserves (avail : List Nat) (pre stream : Bytes) :
    let res := readLoop avail pre stream
    res.2.1 ++ res.2.2 = pre ++ stream := by
  exact loop_conserves' avail pre stream

/-- **Segmentation invariance of the loop**: for every arrival schedule (every segmentation and
timing of the first flight) long enough to deliver the record, the loop reports exactly the
random, provided the record plus one read chunk fits the 16 KiB prebuffer (the loop re-examines
the prebuffer only while it is shorter than the cap) -/
theorem loop_segmentation_invariant (recVersion version random sid suites comps exts suffix : Bytes)
    (h : HelloWF recVersion version random sid suites comps exts)
    (hfit : (chRecord recVersion version random sid suites comps exts).length + readChunk ≤ maxPrebuffer)
    (avail : List Nat)
    (hlen : avail.length > (chRecord recVersion version random sid suites comps exts).length) :
    (readLoop avail [] (chRecord recVersion version random sid suites comps exts ++ suffix)).1 = some random := by
  refine loop_seg' _ random ?_ ?_ hfit suffix avail [] _ (by simp) (by unfold maxPrebuffer; simp) (by simpa using hlen)
  · intro n hn
    exact prefix_needs_more recVersion version random sid suites comps exts h n hn
  · intro sfx
    exact extract_exact recVersion version random sid suites comps exts sfx h

/-- whatever the stream, the loop's answer is absent or the field of the stream's first record -/
theorem loop_absent_never_wrong (avail : List Nat) (stream r : Bytes)
    (h : (readLoop avail [] stream).1 = some r) :
    r = (stream.drop 11).take 32 := by
  simpa using loop_absent' avail [] stream r h

/-- **Transparent replay**: whatever buffer sizes the TLS stack reads with, it receives the
prebuffer followed by the rest of the socket: the concatenation of what the reads returned is a
prefix of `pre ++ rest`, and nothing else -/
theorem replay_transparent (caps : List Nat) (pre rest : Bytes) (pos : Nat) (hp : pos ≤ pre.length) :
    ∃ k, (replayReads caps pre pos rest).flatten = ((pre.drop pos) ++ rest).take k := by
  exact replay_transparent' caps pre rest pos hp

/-- and with positive buffers and enough reads everything is delivered -/
theorem replay_complete (caps : List Nat) (pre rest : Bytes) (hc : ∀ c ∈ caps, 0 < c)
    (hl : caps.length ≥ pre.length + rest.length) :
    (replayReads caps pre 0 rest).flatten = pre ++ rest := by
  simpa using replay_complete' caps pre rest 0 hc (Nat.zero_le _) (by simpa using hl)

/-- **An answer does not depend on what arrives later**: once the bytes received so far yield an
answer (a client random, or "not a ClientHello"), any further bytes leave it unchanged - so the
answer cannot depend on how much of the client's later flight happened to be in the buffer -/
theorem answer_stable (data sfx : Bytes) (h : extract data ≠ .needMore) :
    extract (data ++ sfx) = extract data := by
  match data, h with
  | [], h => exact absurd rfl h
  | [_], h => exact absurd rfl h
  | [_, _], h => exact absurd rfl h
  | [_, _, _], h => exact absurd rfl h
  | [_, _, _, _], h => exact absurd rfl h
  | t :: v0 :: v1 :: l0 :: l1 :: rest, h =>
    simp only [List.cons_append]
    unfold extract at h ⊢
    simp only at h ⊢
    by_cases hlen : l0 * 256 + l1 > maxRecordLen
    · simp [hlen]
    · simp only [hlen, if_false] at h ⊢
      by_cases hshort : rest.length < l0 * 256 + l1
      · simp [hshort] at h
      · have hshort' : ¬ (rest ++ sfx).length < l0 * 256 + l1 := by
          rw [List.length_append]; omega
        have htake : (rest ++ sfx).take (l0 * 256 + l1) = rest.take (l0 * 256 + l1) :=
          List.take_append_of_le_length (by omega)
        simp only [hshort, hshort', if_false, htake]

/-- **The prebuffer never exceeds 16 KiB**, whatever the client sends and however it arrives -/
theorem loop_prebuffer_bounded (avail : List Nat) (pre stream : Bytes) (hp : pre.length ≤ maxPrebuffer) :
    (readLoop avail pre stream).2.1.length ≤ maxPrebuffer := by
  induction avail generalizing pre stream with
  | nil => simpa [readLoop] using hp
  | cons a avail ih =>
    unfold readLoop
    split
    · exact hp
    · split
      · exact hp
      · exact hp
      · simp only
        split
        · exact hp
        · apply ih
          rw [List.length_append, List.length_take]
          omega

/-- a complete first record that is not a handshake record is answered at once (no client random,
no waiting for more) -/
theorem non_handshake_record_not_found (t v0 v1 l0 l1 : Nat) (rest : Bytes) (ht : t ≠ 22)
    (hfull : l0 * 256 + l1 ≤ rest.length) :
    extract (t :: v0 :: v1 :: l0 :: l1 :: rest) = .notFound := by
  unfold extract
  simp only
  split
  · rfl
  · split
    · omega
    · simp [ht]

example : extract [23, 3, 3, 0, 2, 1, 2] = .notFound ∧ extract ([23, 3, 3, 0, 2, 1, 2] ++ [5, 5]) = .notFound ∧
    extract [23, 3, 3, 0, 2, 1] = .needMore := by decide

example : extract (chRecord [3, 1] [3, 3] (List.replicate 32 7) [] [0x13, 0x01] [0] [] ++ [9, 9]) =
    .found (List.replicate 32 7) := by decide +kernel

end TT.CH
