import TT.Model.Creds
import TT.Lemmas.Creds
import TT.Model.SettingsKeys
/-!
# C13  Configured credentials and settings mean exactly what the files say
-/
namespace TT.Creds
open TT

/-- **Round trip of any string through a basic-string lexeme**: whatever the user name or
password (quotes, backslashes, control characters, Unicode, leading/trailing spaces), writing it
as an escaped basic string and reading it back as the endpoint does yields the same string -/
theorem decode_encode_basic (s : List Char) : decodeLexeme (encodeBasic s) = .str s := by
  cases s with
  | nil => decide
  | cons c s =>
    have hlen := length_le_flatMap_escape (c :: s)
    have hdec := decodeBasic_escape (c :: s) [] (((c :: s).flatMap escapeChar ++ ['"']).length + 1)
      (by simp only [List.length_append, List.length_cons, List.length_nil] at hlen ⊢; omega)
    obtain ⟨d, r, hd, hne⟩ := escapeChar_head c
    simp only [encodeBasic]
    simp only [List.flatMap_cons, hd, List.cons_append] at hdec ⊢
    rw [decodeLexeme_basic d _ hne, hdec]

/-- **Literal strings are taken verbatim** (quotes of the other kind, backslashes and surrounding
whitespace preserved, no escape processing) -/
theorem literal_verbatim (s : List Char) (h : ∀ c ∈ s, c ≠ '\'' ∧ isCtl c = false) :
    decodeLexeme ('\'' :: (s ++ ['\''])) = .str s := by
  have hdec := decodeLiteral_plain s h []
  cases s with
  | nil => decide
  | cons c s =>
    simp only [List.cons_append] at hdec ⊢
    rw [decodeLexeme_literal c _ (h c (by simp)).1, hdec]

/-- plain basic strings (no quote, backslash or control character) are taken verbatim too -/
theorem basic_plain_verbatim (s : List Char) (h : ∀ c ∈ s, c ≠ '"' ∧ c ≠ '\\' ∧ isCtl c = false) :
    decodeLexeme ('"' :: (s ++ ['"'])) = .str s := by
  have hdec := decodeBasic_plain s h [] ((s ++ ['"']).length + 1) (by simp; omega)
  cases s with
  | nil => decide
  | cons c s =>
    simp only [List.cons_append] at hdec ⊢
    rw [decodeLexeme_basic c _ (h c (by simp)).1, hdec]

example : decodeLexeme "' sp '".toList = .str " sp ".toList := by decide
example : decodeLexeme "\"a\\\"b\"".toList = .str "a\"b".toList := by decide
example : decodeLexeme "\"\\u00e9\"".toList = .str "é".toList := by decide +kernel
example : decodeLexeme "'lit'".toList = .str "lit".toList := by decide

/-- **Empty values are refused**, as are files whose value is not valid TOML or not a string -/
theorem empty_rejected (p : Lex) : loadClient (.str []) p = none ∧ loadClient p (.str []) = none := by
  cases p <;> simp [loadClient]

theorem load_ok_iff (ul pl : Lex) (c : Client) :
    loadClient ul pl = some c ↔ ul = .str c.user ∧ pl = .str c.pass ∧ c.user ≠ [] ∧ c.pass ≠ [] := by
  obtain ⟨u, p⟩ := c
  cases ul <;> cases pl <;> simp [loadClient]
  rename_i a b
  constructor
  · rintro ⟨⟨h1, h2⟩, rfl, rfl⟩; exact ⟨rfl, rfl, h1, h2⟩
  · rintro ⟨rfl, rfl, h1, h2⟩; exact ⟨⟨h1, h2⟩, rfl, rfl⟩

/-- base64 is injective on byte strings, so a token identifies its credentials -/
theorem base64_injective (a b : Bytes) (ha : ∀ x ∈ a, x < 256) (hb : ∀ x ∈ b, x < 256)
    (h : base64 a = base64 b) : a = b := by
  induction a using base64.induct generalizing b with
  | case1 =>
    match b with
    | [] => rfl
    | [_] | [_, _] | _ :: _ :: _ :: _ => simp [base64] at h
  | case2 x =>
    have hx := ha x (by simp)
    match b, hb with
    | [], _ => simp [base64] at h
    | [x'], hb =>
      have hx' := hb x' (by simp)
      simp only [base64, List.cons.injEq, and_true] at h
      have e1 := b64Char_inj (by omega) (by omega) h.1
      have e2 := b64Char_inj (by omega) (by omega) h.2
      have : x = x' := by omega
      rw [this]
    | [x', y'], hb =>
      have hy' := hb y' (by simp)
      simp only [base64, List.cons.injEq, and_true] at h
      exact absurd h.2.2.symm (b64Char_ne_pad _ (by omega))
    | x' :: y' :: z' :: r, hb =>
      have hy' := hb y' (by simp)
      have hz' := hb z' (by simp)
      simp only [base64, List.cons.injEq] at h
      exact absurd h.2.2.1.symm (b64Char_ne_pad _ (by omega))
  | case3 x y =>
    have hx := ha x (by simp)
    have hy := ha y (by simp)
    match b, hb with
    | [], _ => simp [base64] at h
    | [x'], hb =>
      simp only [base64, List.cons.injEq, and_true] at h
      exact absurd h.2.2 (b64Char_ne_pad _ (by omega))
    | [x', y'], hb =>
      have hx' := hb x' (by simp)
      have hy' := hb y' (by simp)
      simp only [base64, List.cons.injEq, and_true] at h
      have e1 := b64Char_inj (by omega) (by omega) h.1
      have e2 := b64Char_inj (by omega) (by omega) h.2.1
      have e3 := b64Char_inj (by omega) (by omega) h.2.2
      have : x = x' := by omega
      have : y = y' := by omega
      subst_vars; rfl
    | x' :: y' :: z' :: r, hb =>
      have hz' := hb z' (by simp)
      simp only [base64, List.cons.injEq] at h
      exact absurd h.2.2.2.1.symm (b64Char_ne_pad _ (by omega))
  | case4 x y z rest ih =>
    have hx := ha x (by simp)
    have hy := ha y (by simp)
    have hz := ha z (by simp)
    match b, hb with
    | [], _ => simp [base64] at h
    | [x'], hb =>
      simp only [base64, List.cons.injEq] at h
      exact absurd h.2.2.1 (b64Char_ne_pad _ (by omega))
    | [x', y'], hb =>
      simp only [base64, List.cons.injEq] at h
      exact absurd h.2.2.2.1 (b64Char_ne_pad _ (by omega))
    | x' :: y' :: z' :: r, hb =>
      have hx' := hb x' (by simp)
      have hy' := hb y' (by simp)
      have hz' := hb z' (by simp)
      simp only [base64, List.cons.injEq] at h
      have e1 := b64Char_inj (by omega) (by omega) h.1
      have e2 := b64Char_inj (by omega) (by omega) h.2.1
      have e3 := b64Char_inj (by omega) (by omega) h.2.2.1
      have e4 := b64Char_inj (by omega) (by omega) h.2.2.2.1
      have : x = x' := by omega
      have : y = y' := by omega
      have : z = z' := by omega
      have := ih r (fun w hw => ha w (by simp [hw])) (fun w hw => hb w (by simp [hw])) h.2.2.2.2
      subst_vars; rfl

/-- **Accepted iff listed**: the registry accepts a token iff it is `base64(user:password)` of a
configured pair; nothing else is accepted -/
theorem accepted_iff_listed (clients : List Client) (token : List Char) :
    registryAccepts clients token = true ↔ ∃ c ∈ clients, token = credToken c.user c.pass := by
  simp only [registryAccepts, List.any_eq_true, beq_iff_eq]
  constructor
  · rintro ⟨c, hc, h⟩; exact ⟨c, hc, h.symm⟩
  · rintro ⟨c, hc, h⟩; exact ⟨c, hc, h.symm⟩

/-- ... and the credentials bytes behind an accepted token are exactly a configured
`user:password` (no other byte string produces an accepted token) -/
theorem accepted_token_identifies_pair (clients : List Client) (raw : Bytes) (hr : ∀ x ∈ raw, x < 256)
    (h : registryAccepts clients (base64 raw) = true) :
    ∃ c ∈ clients, raw = utf8 (c.user ++ [':'] ++ c.pass) := by
  obtain ⟨c, hc, h⟩ := (accepted_iff_listed _ _).1 h
  exact ⟨c, hc, base64_injective _ _ hr (utf8_lt _) h⟩

/-- **The endpoint refuses to start** exactly in the documented situations (as far as `Settings`
goes: unset listen address, invalid reverse-proxy section, no listen protocol, no credentials on
a non-loopback address) -/
theorem refuses_to_start_iff (c : ListenCfg) :
    (validate c).isSome = true ↔
      ((c.addrUnspecified = true ∧ c.port = 0) ∨
       (∃ p m, c.reverseProxy = some (p, m) ∧ (p = 0 ∨ m = [] ∨ m.head? ≠ some '/')) ∨
       (c.http1 = false ∧ c.http2 = false ∧ c.quic = false) ∨
       (c.nClients = 0 ∧ c.addrLoopback = false)) := by
  obtain ⟨au, port, lo, h1, h2, q, n, rp⟩ := c
  cases rp with
  | none =>
    simp only [validate]
    split
    · rename_i h; simp at h; simp [h]
    · rename_i h; simp at h
      split
      · rename_i h'; simp at h'; simp [h']
      · rename_i h'
        split
        · rename_i h''; simp at h''; simp [h'']
        · rename_i h''; simp at h' h'' ⊢; grind
  | some pm =>
    obtain ⟨p, m⟩ := pm
    have key : (∃ p' m', some (p, m) = some (p', m') ∧ (p' = 0 ∨ m' = [] ∨ m'.head? ≠ some '/')) ↔
        (p = 0 ∨ m = [] ∨ m.head? ≠ some '/') :=
      ⟨by rintro ⟨_, _, h, hq⟩; cases h; exact hq, fun h => ⟨p, m, rfl, h⟩⟩
    simp only [validate, reverseProxyValid]
    rw [key]
    split
    · rename_i h; simp at h; simp [h]
    · rename_i h; simp at h
      split
      · rename_i h'; simp at h'; grind
      · rename_i h0
        split
        · rename_i h'; simp at h'; simp [h']
        · rename_i h'
          split
          · rename_i h''; simp at h''; simp [h'']
          · rename_i h''; simp at h0 h' h'' ⊢; grind

theorem no_credentials_public_refused (c : ListenCfg) (h0 : c.nClients = 0) (hl : c.addrLoopback = false) :
    (validate c).isSome = true :=
  (refuses_to_start_iff c).2 (Or.inr (Or.inr (Or.inr ⟨h0, hl⟩)))

theorem no_protocol_refused (c : ListenCfg) (h : c.http1 = false ∧ c.http2 = false ∧ c.quic = false) :
    (validate c).isSome = true :=
  (refuses_to_start_iff c).2 (Or.inr (Or.inr (Or.inl h)))

/-- **From the file to the authenticator**: a user name and a password written as TOML basic strings
(any characters: quotes, backslashes, control characters, non-ASCII) are loaded as exactly that pair, and
the registry then accepts exactly the token a client builds from the same two strings -/
theorem file_to_registry (u p : List Char) (hu : u ≠ []) (hp : p ≠ []) :
    loadClient (decodeLexeme (encodeBasic u)) (decodeLexeme (encodeBasic p)) = some ⟨u, p⟩ ∧
    registryAccepts [⟨u, p⟩] (credToken u p) = true := by
  refine ⟨?_, ?_⟩
  · rw [decode_encode_basic, decode_encode_basic]
    exact (load_ok_iff _ _ ⟨u, p⟩).2 ⟨rfl, rfl, hu, hp⟩
  · exact (accepted_iff_listed _ _).2 ⟨⟨u, p⟩, by simp, rfl⟩

/-- a configuration with a set address, a protocol, credentials (or a loopback address) and a sound
reverse-proxy section (or none) starts -/
theorem sound_configuration_starts (c : ListenCfg) (ha : c.addrUnspecified = false ∨ c.port ≠ 0)
    (hp : c.http1 = true ∨ c.http2 = true ∨ c.quic = true) (hc : c.nClients ≠ 0 ∨ c.addrLoopback = true)
    (hr : ∀ p m, c.reverseProxy = some (p, m) → reverseProxyValid p m = true) : validate c = none := by
  cases hv : validate c with
  | none => rfl
  | some e =>
    exfalso
    have := (refuses_to_start_iff c).1 (by rw [hv]; rfl)
    rcases this with ⟨h1, h2⟩ | ⟨p, m, hpm, hbad⟩ | ⟨h1, h2, h3⟩ | ⟨h1, h2⟩
    · rcases ha with ha | ha
      · rw [ha] at h1; cases h1
      · exact ha h2
    · have := hr p m hpm
      simp only [reverseProxyValid, Bool.and_eq_true, bne_iff_ne, ne_eq, Bool.not_eq_true', List.isEmpty_eq_false_iff,
        beq_iff_eq] at this
      rcases hbad with hb | hb | hb
      · exact this.1.1 hb
      · exact this.1.2 hb
      · exact hb this.2
    · rcases hp with hp | hp | hp
      · rw [hp] at h1; cases h1
      · rw [hp] at h2; cases h2
      · rw [hp] at h3; cases h3
    · rcases hc with hc | hc
      · exact hc h1
      · rw [hc] at h2; cases h2

end TT.Creds

/-!
## Keys of the settings files

The table is regenerated from `settings.rs` on every run; the correspondence suite sets every integer and boolean key of
every section (under each of its accepted spellings) in a file and looks which fields of the read-back settings moved.
-/
namespace TT.SettingsKeys

/-- **a key means one field**: within a section no key - name, rename or alias - is accepted for two fields, so what a
file says about a key cannot land anywhere but in the field the key is attached to -/
theorem keys_unambiguous : Unambiguous TT.Gen.settingsKeys = true := by decide

/-- **a key means the field it names**: every accepted spelling is the field's own name, a tail of it (the legacy
names without their `initial_` prefix) or the name with its unit (`_secs`); in particular two fields never swap their legacy names -/
theorem keys_name_their_fields : NamesItsField TT.Gen.settingsKeys = true := by decide

/-- the swap of two legacy names is ruled out by `keys_name_their_fields`, not by `keys_unambiguous` (non-vacuity of the second) -/
example :
    let swapped : Table := [("Q", "initial_bidi_local", ["initial_bidi_local", "bidi_remote"]),
                            ("Q", "initial_bidi_remote", ["initial_bidi_remote", "bidi_local"])]
    Unambiguous swapped = true ∧ NamesItsField swapped = false
    ∧ fieldsOf TT.Gen.settingsKeys "QuicSettings" "max_stream_data_bidi_local" = ["initial_max_stream_data_bidi_local"] := by
  decide

end TT.SettingsKeys
