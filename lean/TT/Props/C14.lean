import TT.Model.Pipe
import TT.Lemmas.Pipe
/-!
# C14  Idle and establishment timeouts fire when, and only when, they should
(idle timer of the TCP tunnel; the establishment / handshake timeouts are `tokio::time::timeout`
wrappers whose behaviour is exercised by the correspondence suite)
-/
namespace TT.Pipe
open TT

/-- every event of the list is admissible at the point where it occurs -/
def Adm : Timer → List TEv → Prop
  | _, [] => True
  | tm, e :: es => admissible tm e = true ∧ Adm (tstep tm e) es

/-- well-formed timer state: a direction's iteration starts no earlier than its last activity -/
def Timer.WF (tm : Timer) : Prop := tm.laL ≤ tm.sL ∧ tm.laR ≤ tm.sR ∧ 0 < tm.T

theorem wf_step (tm : Timer) (e : TEv) (h : tm.WF) (ha : admissible tm e = true) : (tstep tm e).WF := by
  exact wft_step h ha


/-! A first formulation of "never early" quantified over every transfer of an admissible trace and
was refuted by the proof attempt: events listed *after* the closing time are admissible but never
recorded (`tm = ⟨10, 0, 0, 5, 5, none⟩`, `[.fire .left, .progress .left 15]` closes at 15).  The
statements below restrict the transfers to those recorded while the tunnel was still open. -/

theorem adm_iff_admAll (tm : Timer) (es : List TEv) : Adm tm es ↔ AdmAll tm es := by
  induction es generalizing tm with
  | nil => simp [Adm, AdmAll]
  | cons e es ih => simp [Adm, AdmAll, ih]

/-- the part of `idle_not_early` about the initial marks holds as stated -/
theorem idle_not_early_marks (tm : Timer) (es : List TEv) (h0 : tm.expired = none) (hw : tm.WF) (ha : Adm tm es)
    (c : Nat) (hc : (trun tm es).expired = some c) :
    tm.laL + tm.T < c ∧ tm.laR + tm.T < c :=
  expiry_after_marks es h0 hw ((adm_iff_admAll tm es).1 ha) c hc

/-- **Never early**: if the tunnel is still open after `es` and is closed by the idle timer at `c`
after `es ++ es'`, then neither direction transferred anything during `[c - T, c]`: every transfer
`t` in `es` satisfies `t + T < c`.  Hence a tunnel that transfers data at least once every `T` (in
either direction) is never closed by the idle timer. -/
theorem idle_not_early (tm : Timer) (es es' : List TEv) (h0 : tm.expired = none) (hw : tm.WF)
    (ha : Adm tm (es ++ es')) (hopen : (trun tm es).expired = none)
    (c : Nat) (hc : (trun tm (es ++ es')).expired = some c) :
    (∀ d t, TEv.progress d t ∈ es → t + tm.T < c) ∧ tm.laL + tm.T < c ∧ tm.laR + tm.T < c :=
  ⟨progress_before_expiry es es' h0 hw ((adm_iff_admAll tm _).1 ha) hopen c hc,
   expiry_after_marks _ h0 hw ((adm_iff_admAll tm _).1 ha) c hc⟩

/-- **Never early** (corrected, minimal change): the closing event is the last one of the trace -/
theorem idle_not_early_at_close (tm : Timer) (es : List TEv) (e : TEv) (hw : tm.WF)
    (ha : Adm tm (es ++ [e])) (hopen : (trun tm es).expired = none)
    (c : Nat) (hc : (trun tm (es ++ [e])).expired = some c) :
    (∀ d t, TEv.progress d t ∈ es ++ [e] → t + tm.T < c) ∧ tm.laL + tm.T < c ∧ tm.laR + tm.T < c := by
  have h0 : tm.expired = none := by
    cases hx : tm.expired with
    | none => rfl
    | some x => rw [trun_expired es (by simp [hx]), hx] at hopen; cases hopen
  have hmain := idle_not_early tm es [e] h0 hw ha hopen c hc
  refine ⟨fun d t hm => ?_, hmain.2⟩
  rcases List.mem_append.1 hm with hm | hm
  · exact hmain.1 d t hm
  · -- the last event closes the tunnel, so it is a `fire`, not a `progress`
    simp only [List.mem_singleton] at hm
    subst hm
    rw [trun_append, trun_cons, trun_nil] at hc
    cases d <;> simp [tstep, hopen] at hc

/-- **Closed no later than 2T after the last activity**: from the state right after the last
transfer (at time `a`, on either direction), if nothing is transferred any more the timers fire
and the tunnel is closed at some `c` with `a + T < c ≤ a + 2T`, after at most three expirations -/
theorem idle_bound_2T (tm : Timer) (a : Nat) (h0 : tm.expired = none) (hw : tm.WF)
    (ha : a = max tm.laL tm.laR)
    (hs : tm.sL ≤ a ∧ tm.sR ≤ a ∧ a ≤ tm.sL + tm.T ∧ a ≤ tm.sR + tm.T) :
    ∃ n c, n ≤ 3 ∧ (idleRun n tm).expired = some c ∧ a + tm.T < c ∧ c ≤ a + 2 * tm.T := by
  exact idle_bound tm a h0 hw ha hs

/-- traffic exactly at the deadline keeps the tunnel open: a transfer at `s + T` is admissible
progress and resets the direction's timer -/
theorem progress_at_deadline_keeps_open (tm : Timer) (h0 : tm.expired = none) :
    (tstep tm (.progress .left (tm.sL + tm.T))).expired = none ∧
    (tstep tm (.progress .left (tm.sL + tm.T))).laL = tm.sL + tm.T := by
  simp [tstep, h0]

example : (idleRun 2 ⟨10, 0, 0, 0, 0, none⟩).expired = some 20 := by decide
example : (trun ⟨10, 0, 0, 0, 0, none⟩ [.progress .right 5, .fire .left, .fire .left]).expired = some 20 := by decide
example : (trun ⟨10, 0, 0, 0, 0, none⟩ [.progress .right 10, .fire .left, .fire .left]).expired = none := by decide

end TT.Pipe
