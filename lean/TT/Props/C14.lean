import TT.Model.Pipe
import TT.Lemmas.Pipe
import TT.Props.C10
import TT.Model.QuicTimers
import TT.Lemmas.QuicTimers
/-!
# C14  Idle and establishment timeouts fire when, and only when, they should
(idle timer of the TCP tunnel; the establishment / handshake timeouts are `tokio::time::timeout`
wrappers whose behaviour is exercised by the correspondence suite)
-/
namespace TT.Pipe
open TT

/-- every event of the list is admissible at the point where it occurs -/
def Adm : Timer → List TEv → Prop
  | _, [] => True
  | tm, e :: es => admissible tm e = true ∧ Adm (tstep tm e) es

/-- well-formed timer state: a direction's iteration starts no earlier than its last activity -/
def Timer.WF (tm : Timer) : Prop := tm.laL ≤ tm.sL ∧ tm.laR ≤ tm.sR ∧ 0 < tm.T

theorem wf_step (tm : Timer) (e : TEv) (h : tm.WF) (ha : admissible tm e = true) : (tstep tm e).WF := by
  exact wft_step h ha


/-! A first formulation of "never early" quantified over every transfer of an admissible trace and
was refuted by the proof attempt: events listed *after* the closing time are admissible but never
recorded (`tm = ⟨10, 0, 0, 5, 5, none⟩`, `[.fire .left, .progress .left 15]` closes at 15).  The
statements below restrict the transfers to those recorded while the tunnel was still open. -/

theorem adm_iff_admAll (tm : Timer) (es : List TEv) : Adm tm es ↔ AdmAll tm es := by
  induction es generalizing tm with
  | nil => simp [Adm, AdmAll]
  | cons e es ih => simp [Adm, AdmAll, ih]

/-- the part of `idle_not_early` about the initial marks holds as stated -/
theorem idle_not_early_marks (tm : Timer) (es : List TEv) (h0 : tm.expired = none) (hw : tm.WF) (ha : Adm tm es)
    (c : Nat) (hc : (trun tm es).expired = some c) :
    tm.laL + tm.T < c ∧ tm.laR + tm.T < c :=
  expiry_after_marks es h0 hw ((adm_iff_admAll tm es).1 ha) c hc

/-- **Never early**: if the tunnel is still open after `es` and is closed by the idle timer at `c`
after `es ++ es'`, then neither direction transferred anything during `[c - T, c]`: every transfer
`t` in `es` satisfies `t + T < c`.  Hence a tunnel that transfers data at least once every `T` (in
either direction) is never closed by the idle timer. -/
theorem idle_not_early (tm : Timer) (es es' : List TEv) (h0 : tm.expired = none) (hw : tm.WF)
    (ha : Adm tm (es ++ es')) (hopen : (trun tm es).expired = none)
    (c : Nat) (hc : (trun tm (es ++ es')).expired = some c) :
    (∀ d t, TEv.progress d t ∈ es → t + tm.T < c) ∧ tm.laL + tm.T < c ∧ tm.laR + tm.T < c :=
  ⟨progress_before_expiry es es' h0 hw ((adm_iff_admAll tm _).1 ha) hopen c hc,
   expiry_after_marks _ h0 hw ((adm_iff_admAll tm _).1 ha) c hc⟩

/-- **A half-closed tunnel is not cut short**: in every state an admissible trace reaches, the time at which the
surviving direction of a half-closed tunnel would be ended by the timer is at least `T` after that direction's
last transfer, and every further transfer moves it to `T` after that transfer -/
theorem half_closed_not_early (tm : Timer) (es : List TEv) (hw : tm.WF) (ha : Adm tm es) (d : Dir) :
    lastActivity (trun tm es) d + tm.T ≤ survivorDeadline (trun tm es) d := by
  have key : ∀ (es : List TEv) (tm : Timer), WFt tm → AdmAll tm es → WFt (trun tm es) ∧ (trun tm es).T = tm.T := by
    intro es
    induction es with
    | nil => intro tm h _; exact ⟨h, rfl⟩
    | cons e es ih =>
      intro tm h ha
      obtain ⟨h1, h2⟩ := ha
      have := ih (tstep tm e) (wft_step h h1) h2
      rw [trun_cons]
      exact ⟨this.1, this.2.trans (tstep_T tm e)⟩
  obtain ⟨⟨w1, w2, _⟩, hT⟩ := key es tm hw ((adm_iff_admAll tm es).1 ha)
  cases d <;> simp only [lastActivity, survivorDeadline, hT] <;> omega

theorem half_closed_transfer_restarts (tm : Timer) (d : Dir) (t : Nat) (h0 : tm.expired = none) :
    survivorDeadline (tstep tm (.progress d t)) d = t + tm.T := by
  cases d <;> simp [tstep, h0, survivorDeadline]

/-- **Never early** (corrected, minimal change): the closing event is the last one of the trace -/
theorem idle_not_early_at_close (tm : Timer) (es : List TEv) (e : TEv) (hw : tm.WF)
    (ha : Adm tm (es ++ [e])) (hopen : (trun tm es).expired = none)
    (c : Nat) (hc : (trun tm (es ++ [e])).expired = some c) :
    (∀ d t, TEv.progress d t ∈ es ++ [e] → t + tm.T < c) ∧ tm.laL + tm.T < c ∧ tm.laR + tm.T < c := by
  have h0 : tm.expired = none := by
    cases hx : tm.expired with
    | none => rfl
    | some x => rw [trun_expired es (by simp [hx]), hx] at hopen; cases hopen
  have hmain := idle_not_early tm es [e] h0 hw ha hopen c hc
  refine ⟨fun d t hm => ?_, hmain.2⟩
  rcases List.mem_append.1 hm with hm | hm
  · exact hmain.1 d t hm
  · -- the last event closes the tunnel, so it is a `fire`, not a `progress`
    simp only [List.mem_singleton] at hm
    subst hm
    rw [trun_append, trun_cons, trun_nil] at hc
    cases d <;> simp [tstep, hopen] at hc

/-- **Closed no later than 2T after the last activity**: from the state right after the last
transfer (at time `a`, on either direction), if nothing is transferred any more the timers fire
and the tunnel is closed at some `c` with `a + T < c ≤ a + 2T`, after at most three expirations -/
theorem idle_bound_2T (tm : Timer) (a : Nat) (h0 : tm.expired = none) (hw : tm.WF)
    (ha : a = max tm.laL tm.laR)
    (hs : tm.sL ≤ a ∧ tm.sR ≤ a ∧ a ≤ tm.sL + tm.T ∧ a ≤ tm.sR + tm.T) :
    ∃ n c, n ≤ 3 ∧ (idleRun n tm).expired = some c ∧ a + tm.T < c ∧ c ≤ a + 2 * tm.T := by
  exact idle_bound tm a h0 hw ha hs

/-- traffic exactly at the deadline keeps the tunnel open: a transfer at `s + T` is admissible
progress and resets the direction's timer -/
theorem progress_at_deadline_keeps_open (tm : Timer) (h0 : tm.expired = none) :
    (tstep tm (.progress .left (tm.sL + tm.T))).expired = none ∧
    (tstep tm (.progress .left (tm.sL + tm.T))).laL = tm.sL + tm.T := by
  simp [tstep, h0]

example : (idleRun 2 ⟨10, 0, 0, 0, 0, none⟩).expired = some 20 := by decide
example : (trun ⟨10, 0, 0, 0, 0, none⟩ [.progress .right 5, .fire .left, .fire .left]).expired = some 20 := by decide
example : (trun ⟨10, 0, 0, 0, 0, none⟩ [.progress .right 10, .fire .left, .fire .left]).expired = none := by decide

end TT.Pipe

/-! ### establishment timeout (`Tunnel::on_tcp_connect_request`, model `TT.Dispatch.handle`) -/
namespace TT.Dispatch
open TT TT.Gen

/-- **An attempt that does not complete within the establishment timeout is reported as 502 with
warning 302** - for every passed CONNECT to an ordinary destination, literal address or host name
alike, whatever the credentials - and nothing else is answered -/
theorem establishment_timeout_reported (r : Req) (hm : r.method = .connect) (policy : Policy) (authn : Option Authn)
    (env : Env) (fa : Option Source) (hg : gate (authInfo r.authHdr) policy authn = .pass fa) (hk : promote r = .tcp)
    (hd : r.authority.isSome = true ∧ (r.isLiteral = true ∨ r.port.isSome = true))
    (ms : Nat) (hc : env.connect = .delayedOk ms) (hlate : env.establishTimeoutMs < ms) :
    handle r policy authn env = [.egress .tcpConnect, .response ⟨502, [.warn 302]⟩] := by
  rw [connect_result r hm policy authn env fa hg hk hd, hc]
  have : ¬ ms ≤ env.establishTimeoutMs := by omega
  simp [this, failWith, statusOf, warnOf]

/-- an attempt that completes in time is never cut short by the establishment timer -/
theorem establishment_in_time_connected (r : Req) (hm : r.method = .connect) (policy : Policy) (authn : Option Authn)
    (env : Env) (fa : Option Source) (hg : gate (authInfo r.authHdr) policy authn = .pass fa) (hk : promote r = .tcp)
    (hd : r.authority.isSome = true ∧ (r.isLiteral = true ∨ r.port.isSome = true))
    (ms : Nat) (hc : env.connect = .delayedOk ms) (hin : ms ≤ env.establishTimeoutMs) :
    handle r policy authn env = [.egress .tcpConnect, ok200] := by
  rw [connect_result r hm policy authn env fa hg hk hd, hc]
  simp [hin]

/-- the outcome depends on the destination only through "is an ordinary destination": a host name
and a literal address time out alike -/
theorem establishment_timeout_destination_independent (r r' : Req) (hm : r.method = .connect) (hm' : r'.method = .connect)
    (policy : Policy) (authn : Option Authn) (env : Env) (fa fa' : Option Source)
    (hg : gate (authInfo r.authHdr) policy authn = .pass fa) (hg' : gate (authInfo r'.authHdr) policy authn = .pass fa')
    (hk : promote r = .tcp) (hk' : promote r' = .tcp)
    (hd : r.authority.isSome = true ∧ (r.isLiteral = true ∨ r.port.isSome = true))
    (hd' : r'.authority.isSome = true ∧ (r'.isLiteral = true ∨ r'.port.isSome = true)) :
    handle r policy authn env = handle r' policy authn env := by
  rw [connect_result r hm policy authn env fa hg hk hd, connect_result r' hm' policy authn env fa' hg' hk' hd']

example : handle ⟨.connect, some "example.org:443", false, some 443, none⟩ .default_ none
    ⟨.delayedOk 30001, 30000, false, some true, false⟩ = [.egress .tcpConnect, .response ⟨502, [.warn 302]⟩] := by decide
example : handle ⟨.connect, some "example.org:443", false, some 443, none⟩ .default_ none
    ⟨.delayedOk 30000, 30000, false, some true, false⟩ = [.egress .tcpConnect, ok200] := by decide

end TT.Dispatch

/-! ### the QUIC multiplexer's timer bookkeeping (`quic_multiplexer.rs`, model `TT.QuicTimers`)

QUIC's loss-detection, idle and draining timers only do anything when the multiplexer calls
`on_timeout`; it does so from the one place that sleeps until `closest_deadline`. -/
namespace TT.QuicTimers

/-- **No armed deadline is missed**: after every history of datagrams processed (`arm`), connections
removed and loop iterations (`tick`), the instant the loop sleeps until is not later than any
armed deadline - in particular the timer branch is enabled whenever a deadline is armed -/
theorem closest_not_after_any_deadline (ops : List Op) :
    let s := run {} ops
    ∀ e ∈ s.deadlines, ∃ c, s.closest = some c ∧ c ≤ e.2 ∧ s.timerEnabled = true := by
  intro s e he
  obtain ⟨c, hc, hle⟩ := inv_run {} ops inv_init e he
  exact ⟨c, hc, hle, by show (run {} ops).closest.isSome = true; rw [hc]; rfl⟩

/-- after a loop iteration the sleep target is exactly the earliest armed deadline (it is re-computed,
not only ever moved earlier) ... -/
theorem tick_recomputes (s : St) (now : Nat) (rearm : List (Conn × Nat)) :
    (step s (.tick now rearm)).closest = minDeadline (step s (.tick now rearm)).deadlines := rfl

/-- ... every deadline that had passed was handled (removed, and re-armed only with the connection's
next timer, which lies in the future) ... -/
theorem tick_handles_expired (s : St) (now : Nat) (rearm : List (Conn × Nat)) (hr : ∀ r ∈ rearm, now < r.2) :
    ∀ e ∈ (step s (.tick now rearm)).deadlines, now < e.2 := by
  intro e he
  simp only [step] at he
  rcases mem_foldl_put rearm _ e he with h | h
  · have := (List.mem_filter.1 h).2
    simp only [Bool.not_eq_eq_eq_not, Bool.not_true, decide_eq_false_iff_not, Nat.not_le] at this
    exact this
  · exact hr e h

/-- ... so a wake-up always makes progress: afterwards either nothing is armed (the timer branch is
off until the next datagram) or the new sleep target lies in the future - the loop neither spins on a
passed deadline nor stops serving timers after the first one (the defect fixed by 17fbb9c) -/
theorem wake_up_makes_progress (s : St) (now : Nat) (rearm : List (Conn × Nat)) (hr : ∀ r ∈ rearm, now < r.2) :
    let s' := step s (.tick now rearm)
    (s'.deadlines = [] ∧ s'.timerEnabled = false) ∨ (∃ c, s'.closest = some c ∧ now < c) := by
  intro s'
  cases hm : minDeadline s'.deadlines with
  | none =>
    left
    have hnil : s'.deadlines = [] := by
      cases hd : s'.deadlines with
      | nil => rfl
      | cons x xs =>
        have := minDeadline_isSome_of_mem s'.deadlines x (by rw [hd]; simp)
        rw [hm] at this; cases this
    refine ⟨hnil, ?_⟩
    have : s'.closest = none := by rw [show s'.closest = minDeadline s'.deadlines from rfl, hm]
    simp [St.timerEnabled, this]
  | some m =>
    right
    obtain ⟨e, he, hem⟩ := minDeadline_mem s'.deadlines m hm
    refine ⟨m, by rw [show s'.closest = minDeadline s'.deadlines from rfl, hm], ?_⟩
    have := tick_handles_expired s now rearm hr e he
    omega

/-- **One deadline per connection** (the model's list stands for the `HashMap<ConnectionId, Instant>`):
after every history no connection id is armed twice, so a re-armed or removed connection leaves no
stale second deadline behind that could wake the loop for a connection that is gone -/
theorem one_deadline_per_connection (ops : List Op) : Keyed (run {} ops).deadlines :=
  keyed_run {} ops (by simp [Keyed])

/-- processing a datagram of a connection replaces its deadline: afterwards the connection's only
deadline is the new one ... -/
theorem arm_replaces (s : St) (c : Conn) (t : Nat) :
    (c, t) ∈ (step s (.arm c t)).deadlines ∧ ∀ u, (c, u) ∈ (step s (.arm c t)).deadlines → u = t :=
  ⟨mem_put_self _ _ _, fun _ h => put_key_unique _ _ _ _ h⟩

/-- ... and a removed connection (handshake completed, connection closed) has none: the loop is not
woken for it again unless a later datagram re-arms it -/
theorem removed_has_no_deadline (s : St) (c : Conn) (u : Nat) : (c, u) ∉ (step s (.remove c)).deadlines := by
  intro h
  simp only [step] at h
  have := (List.mem_filter.1 h).2
  simp at this

/-- a connection's passed deadline handled by a loop iteration does not survive it unless the
connection's next timer was armed: with nothing to re-arm, no connection whose deadline had passed is
still armed -/
theorem tick_without_rearm_drops_expired (s : St) (now : Nat) (c : Conn) (u : Nat) (hu : u ≤ now) :
    (c, u) ∉ (step s (.tick now [])).deadlines := by
  intro h
  simp only [step, List.foldl_nil] at h
  have := (List.mem_filter.1 h).2
  simp only [Bool.not_eq_eq_eq_not, Bool.not_true, decide_eq_false_iff_not, Nat.not_le] at this
  omega

example :
    let ops := [Op.arm "a" 100, .arm "b" 50, .tick 60 [("b", 90)], .remove "b", .arm "a" 300, .tick 100 [], .tick 400 []]
    (run {} (ops.take 2)).closest = some 50
    ∧ (run {} (ops.take 3)) = ⟨[("a", 100), ("b", 90)], some 90⟩
    ∧ (run {} (ops.take 4)) = ⟨[("a", 100)], some 90⟩          -- stale-early after a removal: harmless
    ∧ (run {} (ops.take 6)) = ⟨[("a", 300)], some 300⟩
    ∧ (run {} ops) = ⟨[], none⟩ := by decide

end TT.QuicTimers
