import TT.Model.Pipe
import TT.Lemmas.Pipe
/-!
# C14  Idle and establishment timeouts fire when, and only when, they should
(idle timer of the TCP tunnel; the establishment / handshake timeouts are `tokio::time::timeout`
wrappers whose behaviour is exercised by the correspondence suite)
-/
namespace TT.Pipe
open TT

/-- every event of the list is admissible at the point where it occurs -/
def Adm : Timer → List TEv → Prop
  | _, [] => True
  | tm, e :: es => admissible tm e = true ∧ Adm (tstep tm e) es

/-- well-formed timer state: a direction's iteration starts no earlier than its last activity -/
def Timer.WF (tm : Timer) : Prop := tm.laL ≤ tm.sL ∧ tm.laR ≤ tm.sR ∧ 0 < tm.T

theorem wf_step (tm : Timer) (e : TEv) (h : tm.WF) (ha : admissible tm e = true) : (tstep tm e).WF := by
  sorry

/-- **Never early**: if the tunnel is closed by the idle timer at time `c`, then neither
direction has transferred anything during `[c - T, c]` - equivalently, every recorded transfer
`t` satisfies `t + T < c`.  Hence a tunnel that transfers data at least once every `T` (in either
direction) is never closed by the idle timer. -/
theorem idle_not_early (tm : Timer) (es : List TEv) (h0 : tm.expired = none) (hw : tm.WF) (ha : Adm tm es)
    (c : Nat) (hc : (trun tm es).expired = some c) :
    (∀ d t, TEv.progress d t ∈ es → t + tm.T < c) ∧ tm.laL + tm.T < c ∧ tm.laR + tm.T < c := by
  sorry

/-- **Closed no later than 2T after the last activity**: from the state right after the last
transfer (at time `a`, on either direction), if nothing is transferred any more the timers fire
and the tunnel is closed at some `c` with `a + T < c ≤ a + 2T`, after at most three expirations -/
theorem idle_bound_2T (tm : Timer) (a : Nat) (h0 : tm.expired = none) (hw : tm.WF)
    (ha : a = max tm.laL tm.laR)
    (hs : tm.sL ≤ a ∧ tm.sR ≤ a ∧ a ≤ tm.sL + tm.T ∧ a ≤ tm.sR + tm.T) :
    ∃ n c, n ≤ 3 ∧ (idleRun n tm).expired = some c ∧ a + tm.T < c ∧ c ≤ a + 2 * tm.T := by
  sorry

/-- traffic exactly at the deadline keeps the tunnel open: a transfer at `s + T` is admissible
progress and resets the direction's timer -/
theorem progress_at_deadline_keeps_open (tm : Timer) (h0 : tm.expired = none) :
    (tstep tm (.progress .left (tm.sL + tm.T))).expired = none ∧
    (tstep tm (.progress .left (tm.sL + tm.T))).laL = tm.sL + tm.T := by
  sorry

example : (idleRun 2 ⟨10, 0, 0, 0, 0, none⟩).expired = some 20 := by decide
example : (trun ⟨10, 0, 0, 0, 0, none⟩ [.progress .right 5, .fire .left, .fire .left]).expired = some 20 := by decide
example : (trun ⟨10, 0, 0, 0, 0, none⟩ [.progress .right 10, .fire .left, .fire .left]).expired = none := by decide

end TT.Pipe
