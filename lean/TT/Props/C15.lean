import TT.Model.Socks5
import TT.Lemmas.Socks5
/-!
# C15  SOCKS5 upstream dialogue is well-formed and faithful
-/
namespace TT.Socks
open TT TT.Bytes

def BytesWF (b : Bytes) : Prop := ∀ x ∈ b, x < 256

def IpWF : Ip.Ip → Prop
  | .v4 a b c d => a < 256 ∧ b < 256 ∧ c < 256 ∧ d < 256
  | .v6 x => x.s0 < 65536 ∧ x.s1 < 65536 ∧ x.s2 < 65536 ∧ x.s3 < 65536 ∧ x.s4 < 65536 ∧ x.s5 < 65536 ∧ x.s6 < 65536 ∧ x.s7 < 65536

/-- **Offered methods reflect whether credentials are available** and the message is RFC 1928 -/
theorem selection_wellformed (auth : Option Auth) :
    rfcParseSelection (encodeSelection auth) = some ([methodOf auth, 0], []) ∧
    (methodOf auth = 0 ↔ auth = none) ∧
    (methodOf auth = 2 ↔ ∃ u p, auth = some (.userPass u p)) ∧
    (methodOf auth = 0x80 ↔ ∃ v, auth = some (.extended v)) := by
  refine ⟨by simp [rfcParseSelection, encodeSelection], ?_⟩
  rcases auth with _ | (_ | _) <;> simp [methodOf]

/-- **RFC 1929 message or failure**: user name and password are transmitted verbatim with
single-octet lengths, or nothing is sent at all when either exceeds 255 bytes -/
theorem userpass_wellformed_or_fails (u p : Bytes) :
    (u.length ≤ 255 ∧ p.length ≤ 255 →
      ∃ msg, encodeAuth (.userPass u p) = some msg ∧ rfcParseUserPass msg = some (u, p, [])) ∧
    (255 < u.length ∨ 255 < p.length → encodeAuth (.userPass u p) = none) := by
  constructor
  · rintro ⟨hu, hp⟩
    refine ⟨[1, u.length] ++ u ++ [p.length] ++ p, ?_, ?_⟩
    · simp [encodeAuth]; omega
    · simp [rfcParseUserPass]
      have : ¬ (255 < u.length) := by omega
      have : ¬ (255 < p.length) := by omega
      simp [*]
  · intro h
    simp [encodeAuth]; omega

def AddrWF : Addr → Prop
  | .ip ip => IpWF ip
  | .domain s => True ∧ BytesWF s

/-- **Requests keep address type and port**, or fail without output for names over 255 bytes -/
theorem request_wellformed_or_fails (cmd : Nat) (a : Addr) (port : Nat) (hp : port < 65536) (ha : AddrWF a) :
    (match a with | .domain s => s.length ≤ 255 | _ => True) →
      ∃ msg, encodeRequest cmd a port = some msg ∧ rfcParseRequest msg = some (cmd, a, port, []) := by
  intro hd
  have hport := u16_rt port hp
  match a, ha, hd with
  | .ip (.v4 a b c d), _, _ =>
    refine ⟨_, rfl, ?_⟩
    simp [addrType, ipBytes, u16be, rfcParseRequest, hport]
  | .ip (.v6 x), ha, _ =>
    refine ⟨_, rfl, ?_⟩
    obtain ⟨h0, h1, h2, h3, h4, h5, h6, h7⟩ := ha
    simp [addrType, ipBytes, u16be, rfcParseRequest, hport, u16_rt _ h0, u16_rt _ h1, u16_rt _ h2, u16_rt _ h3,
      u16_rt _ h4, u16_rt _ h5, u16_rt _ h6, u16_rt _ h7]
  | .domain s, _, hd =>
    simp at hd
    refine ⟨[5, cmd, 0, 3, s.length] ++ s ++ u16be port, by simp [encodeRequest, hd], ?_⟩
    have : ¬ (255 < s.length) := by omega
    simp [rfcParseRequest, u16be, this, hport]

theorem request_long_domain_fails (cmd : Nat) (s : Bytes) (port : Nat) (h : 255 < s.length) :
    encodeRequest cmd (.domain s) port = none := by
  simp [encodeRequest]; omega

def extTlv : ExtVal → Nat × Bytes
  | .domain s => (1, s)
  | .clientAddr ip => (2, ipBytes ip)
  | .userAgent s => (3, s)
  | .basicProxyAuth s => (4, s)
  | .sniAuth => (5, [])

/-- **Extended authentication format**: version, TLVs in order, TERM; or nothing sent -/
theorem extended_wellformed (vals : List ExtVal) (msg : Bytes) (h : encodeAuth (.extended vals) = some msg) :
    rfcParseExtended msg = some (vals.map extTlv, []) := by
  have hx : extTlv = tlvOf := by funext v; cases v <;> rfl
  rw [hx]
  simp only [encodeAuth] at h
  split at h
  · rename_i b hb
    simp at h
    subst h
    have hl := encodeExtVals_length vals b hb
    have := parse_ext_vals vals b [] (b.length + 3 + 1) hb (by omega)
    simpa [rfcParseExtended] using this
  · simp at h

/-- **Split at the first colon** -/
theorem split_first_colon (u p : Bytes) (h : 0x3a ∉ u) :
    splitFirstColon (u ++ [0x3a] ++ p) = some (u, p) := by
  exact splitFirstColon_append u p h

theorem make_auth_halves (u p token : Bytes) (h : 0x3a ∉ u) (hv : validUtf8 (u ++ [0x3a] ++ p) = true) :
    makeAuth (.proxyBasic (some (u ++ [0x3a] ++ p)) token) = some (.userPass u p) := by
  have hs := splitFirstColon_append u p h
  simp only [makeAuth, hv, hs]
  simp

theorem make_auth_rejects (token : Bytes) (d : Bytes) (h : 0x3a ∉ d ∨ validUtf8 d = false) :
    makeAuth (.proxyBasic none token) = none ∧ makeAuth (.proxyBasic (some d) token) = none := by
  refine ⟨by simp [makeAuth], ?_⟩
  rcases h with h | h
  · simp [makeAuth, split_none d h]
  · simp [makeAuth, h]

/-- **Only well-formed messages are ever written**: what the client sends is the selection
message, optionally followed by one encoded authentication message, optionally followed by one
encoded request - each produced by an encoder above -/
theorem sent_is_encoded_messages (auth : Option Auth) (req : Request) (server : Bytes) :
    let sent := (connect auth req server).1
    sent = encodeSelection auth ∨
    (∃ r, (match req with
            | .connect a p => encodeRequest 1 a p
            | .udpAssociate l => encodeRequest 3 (.ip l.ip) l.port) = some r ∧
          sent = encodeSelection auth ++ r) ∨
    (∃ a m, auth = some a ∧ encodeAuth a = some m ∧
      (sent = encodeSelection auth ++ m ∨
       ∃ r, (match req with
            | .connect a p => encodeRequest 1 a p
            | .udpAssociate l => encodeRequest 3 (.ip l.ip) l.port) = some r ∧
          sent = encodeSelection auth ++ m ++ r)) := by
  cases req with
  | connect a p => exact sent_aux auth (.connect a p) server
  | udpAssociate l => exact sent_aux auth (.udpAssociate l) server

/-- **Proceeds only when the server selects an offered method and reports success** -/
theorem proceeds_only_if_offered_and_success (auth : Option Auth) (req : Request) (server : Bytes)
    (h : (connect auth req server).2 = .tcp ∨ ∃ b, (connect auth req server).2 = .udp b) :
    ∃ m rest, server = 5 :: m :: rest ∧
      ((m = 0 ∧ ∃ r rest', readReply rest = .ok r rest' ∧ r.code = 0) ∨
       (m ≠ 0 ∧ m = methodOf auth ∧ ∃ rest2, rest = 1 :: 0 :: rest2 ∧ ∃ r rest', readReply rest2 = .ok r rest' ∧ r.code = 0)) := by
  unfold connect at h
  cases hs : readSelection server with
  | err e => simp [hs] at h
  | ok m rest =>
    obtain ⟨rfl, hm⟩ := readSelection_ok _ _ _ hs
    refine ⟨m, rest, rfl, ?_⟩
    simp only [hs] at h
    split at h
    · rename_i h0
      left
      exact ⟨by simpa using h0, connectRequest_success _ _ _ h⟩
    · rename_i h0
      split at h
      · rename_i h1
        right
        have hm0 : m ≠ 0 := by simpa using h0
        have hmeth : m = methodOf auth := by
          simp at h1
          rcases h1 with ⟨a, b⟩ | ⟨a, b⟩ <;> omega
        refine ⟨hm0, hmeth, ?_⟩
        cases auth with
        | none => simp at h
        | some a =>
          simp only at h
          cases ha : encodeAuth a with
          | none => simp [ha] at h
          | some msg =>
            simp only [ha] at h
            cases hr : readAuthResponse rest with
            | err e => simp [hr] at h
            | ok u rest2 =>
              simp only [hr] at h
              exact ⟨rest2, readAuthResponse_ok _ _ hr, connectRequest_success _ _ _ h⟩
      · simp at h

/-- **Every failure reply fails the request**, unreachable and TTL-expired replies become the
unreachable and timed-out errors, and nothing but a success is reported as connected -/
theorem failure_reply_fails_request (o : Outcome) :
    (mapOutcome o = .connected ↔ o = .tcp) ∧
    mapOutcome (.failure 3) = .hostUnreachable ∧ mapOutcome (.failure 4) = .hostUnreachable ∧
    mapOutcome (.failure 6) = .timeout ∧ mapOutcome (.failure 5) = .refused ∧
    (∀ e, mapOutcome (.error e) ≠ .connected) := by
  refine ⟨?_, rfl, rfl, rfl, rfl, ?_⟩
  · cases o with
    | tcp => simp [mapOutcome]
    | udp b => simp [mapOutcome]
    | failure c =>
      simp only [reduceCtorEq, iff_false]
      unfold mapOutcome
      split <;> simp_all
    | error e => cases e <;> simp [mapOutcome]
  · intro e; cases e <;> simp [mapOutcome]

theorem nonzero_reply_is_failure (sent : Bytes) (req : Request) (server : Bytes) (r : Reply) (rest : Bytes)
    (hr : readReply server = .ok r rest) (hc : r.code ≠ 0)
    (he : (match req with
            | .connect a p => encodeRequest 1 a p
            | .udpAssociate l => encodeRequest 3 (.ip l.ip) l.port).isSome) :
    (connectRequest sent req server).2 = .failure r.code := by
  change (reqMsg req).isSome at he
  cases hm : reqMsg req with
  | none => simp [hm] at he
  | some msg => exact connectRequest_nonzero _ _ _ _ hm r rest hr hc

/-- **Truncation at every byte is an I/O error**, never a success and never a panic: if a reply
parses, every strict prefix of the bytes it consumed fails with the EOF error -/
theorem reply_truncation_is_error (b : Bytes) (r : Reply) (rest : Bytes) (h : readReply b = .ok r rest)
    (n : Nat) (hn : n < b.length - rest.length) :
    ∃ e, readReply (b.take n) = .err e ∧ e = .io := by
  refine ⟨.io, ?_, rfl⟩
  match b, h with
  | [], h | [_], h | [_, _], h | [_, _, _], h => exact absurd h (readReply_short _ (by simp) _ _)
  | v :: code :: rsv :: atyp :: body, h =>
    obtain ⟨rfl, hc, rfl⟩ := readReply_hdr _ _ _ _ _ _ _ h
    have hc' : ¬ (8 < code) := by omega
    match n, hn with
    | 0, _ => simp [readReply, readU8]
    | 1, _ => simp [readReply, readU8]
    | 2, _ => simp [readReply, readU8, hc']
    | 3, _ => simp [readReply, readU8, hc']
    | k + 4, hk =>
      simp only [List.take_succ_cons]
      simp only [List.length_cons] at hk
      by_cases h1 : atyp = 1
      · subst h1
        have := readReply_v4_ok _ _ _ _ h
        exact readReply_v4_io _ _ hc (by simp; omega)
      by_cases h4 : atyp = 4
      · subst h4
        have := readReply_v6_ok _ _ _ _ h
        exact readReply_v6_io _ _ hc (by simp; omega)
      by_cases h3 : atyp = 3
      · subst h3
        obtain ⟨ln, tl, rfl, hlen, hv⟩ := readReply_dom_ok _ _ _ _ h
        simp only [List.length_cons] at hk
        match k, hk with
        | 0, _ => exact readReply_dom_nil _ hc
        | j + 1, hk =>
          simp only [List.take_succ_cons]
          apply readReply_dom_io _ _ _ hc (by simp; omega)
          intro hle
          have hle' : ln ≤ j := by simp only [List.length_take] at hle; omega
          rw [List.take_take, Nat.min_eq_left hle']
          exact hv
      exact absurd h (readReply_other _ _ _ _ _ h1 h4 h3)

theorem selection_truncation_is_error (b : Bytes) (m : Nat) (rest : Bytes) (h : readSelection b = .ok m rest)
    (n : Nat) (hn : n < 2) : ∃ e, readSelection (b.take n) = .err e ∧ e = .io := by
  match b, h with
  | [], h => simp [readSelection, readU8] at h
  | [a], h => 
    simp [readSelection, readU8] at h
    split at h <;> simp at h
  | a :: c :: r, h =>
    have : n = 0 ∨ n = 1 := by omega
    rcases this with rfl | rfl
    · simp [readSelection, readU8]
    · simp [readSelection, readU8] at h ⊢
      split at h
      · simp [*]
      · simp at h

def SockWF (s : Ip.Sock) : Prop := IpWF s.ip ∧ s.port < 65536

/-- **UDP relay header (RFC 1928 section 7)** round-trips, and unwrapping never panics -/
theorem udp_unwrap_wrap (dst : Ip.Sock) (data : Bytes) (h : SockWF dst) :
    udpUnwrap (udpWrap dst data) = .ok dst data := by
  obtain ⟨ip, port⟩ := dst
  obtain ⟨hi, hp⟩ := h
  simp only at hi hp
  have hport := u16_rt port hp
  match ip, hi with
  | .v4 a b c d, _ =>
    simp [udpWrap, udpUnwrap, ipBytes, u16be, hport]
  | .v6 x, ha =>
    obtain ⟨h0, h1, h2, h3, h4, h5, h6, h7⟩ := ha
    simp [udpWrap, udpUnwrap, ipBytes, u16be, hport, u16_rt _ h0, u16_rt _ h1, u16_rt _ h2, u16_rt _ h3,
      u16_rt _ h4, u16_rt _ h5, u16_rt _ h6, u16_rt _ h7]
    rw [if_neg (by omega), if_neg (by omega)]

theorem udp_unwrap_no_panic (pkt : Bytes) : udpUnwrap pkt ≠ .panic := by
  by_cases hl : pkt.length < 10
  · simp [udpUnwrap, hl]
  · obtain ⟨r0, r1, frag, atyp, a, b, c, d, p0, p1, data, rfl⟩ := length_ge_10 pkt hl
    simp only [udpUnwrap, hl]
    simp only [if_false]
    repeat' split
    all_goals simp

example : (connect (some (.userPass [0x75] [0x70])) (.connect (.domain [0x61]) 80)
    [5, 2, 1, 0, 5, 0, 0, 1, 0, 0, 0, 0, 0, 0]).2 = .tcp := by decide
example : (connect none (.connect (.domain [0x61]) 80) [5, 2]).2 = .error .auth := by decide

/-! ## The reply ends where the destination's data begins

What the tunnel over an established connection hands to its client first is whatever follows the proxy's reply
(`afterDialogue`): the reply reader takes exactly the reply - four bytes, the bound address in the length its type says,
the port - and nothing of what is behind it. -/

theorem readExact_append (n : Nat) (a rest : Bytes) (h : a.length = n) :
    readExact n (a ++ rest) = .ok a rest := by
  unfold readExact
  simp [← h]

/-- a success reply with an IPv6 bound address is 4 + 16 + 2 bytes: everything behind it is left for the tunnel -/
theorem reply_v6_consumes_exactly (code : Nat) (a p data : Bytes) (hc : code ≤ 8) (ha : a.length = 16) (hp : p.length = 2) :
    ∃ r, readReply (5 :: code :: 0 :: 4 :: (a ++ (p ++ data))) = .ok r data := by
  have hcode : ¬ code > 8 := by omega
  simp only [readReply, readU8, bne_self_eq_false, Bool.false_eq_true, if_false, hcode]
  simp [readExact_append 16 a (p ++ data) ha, readExact_append 2 p data hp]

theorem reply_v4_consumes_exactly (code : Nat) (a p data : Bytes) (hc : code ≤ 8) (ha : a.length = 4) (hp : p.length = 2) :
    ∃ r, readReply (5 :: code :: 0 :: 1 :: (a ++ (p ++ data))) = .ok r data := by
  have hcode : ¬ code > 8 := by omega
  simp only [readReply, readU8, bne_self_eq_false, Bool.false_eq_true, if_false, hcode]
  simp [readExact_append 4 a (p ++ data) ha, readExact_append 2 p data hp]
end TT.Socks
