import TT.Model.Metrics
import TT.Lemmas.Metrics
import TT.Gen.MetricsDoc
/-!
# C16  Metrics equal the live objects and relayed bytes, and are exported

The model keeps the live objects and the metric cells separately; the cells change only where the
code creates or drops a guard or calls `update_metrics`. The theorems quantify over every history
of session opens/closes, tunnel opens (connected, refused, hanging, UDP multiplexer), tunnel
closes (client end, client reset, origin close), data transfers, UDP datagrams/replies and clock
advances (connect timeouts, idle expiry, UDP flow expiry).
-/
namespace TT.Metrics

def after (c : Cfg) (ops : List Op) : St := run c {} ops

/-! ## Conservation: every increment meets exactly one decrement on every path -/

/-- **at every moment the gauges equal the number of live objects**: sessions holding a session
guard per protocol, tunnels holding a TCP socket guard (connecting or relaying), UDP sockets of
all multiplexers -/
theorem cells_equal_objects (c : Cfg) (ops : List Op) :
    let s := after c ops
    s.cells.s1 = (liveSessions s .h1 : Int) ∧ s.cells.s2 = (liveSessions s .h2 : Int) ∧
    s.cells.s3 = (liveSessions s .h3 : Int) ∧
    s.cells.tcp = (liveTcp s : Int) ∧ s.cells.udp = (liveUdp s : Int) := by
  exact (run_eq4 c ops).live

/-- no gauge is ever negative -/
theorem gauges_nonneg (c : Cfg) (ops : List Op) :
    let s := after c ops
    0 ≤ s.cells.s1 ∧ 0 ≤ s.cells.s2 ∧ 0 ≤ s.cells.s3 ∧ 0 ≤ s.cells.tcp ∧ 0 ≤ s.cells.udp := by
  intro s
  obtain ⟨h1, h2, h3, h4, h5⟩ := (run_eq4 c ops).live
  refine ⟨?_, ?_, ?_, ?_, ?_⟩
  · show 0 ≤ (run c {} ops).cells.s1; omega
  · show 0 ≤ (run c {} ops).cells.s2; omega
  · show 0 ≤ (run c {} ops).cells.s3; omega
  · show 0 ≤ (run c {} ops).cells.tcp; omega
  · show 0 ≤ (run c {} ops).cells.udp; omega

/-- **when all clients are gone** the session gauges and the UDP socket gauge are zero at once
(a multiplexer ends with its client) ... -/
theorem all_clients_gone_sessions_udp_zero (c : Cfg) (ops : List Op)
    (h : ∀ x ∈ (after c ops).sess, x.alive = false) :
    let s := after c ops
    s.cells.s1 = 0 ∧ s.cells.s2 = 0 ∧ s.cells.s3 = 0 ∧ s.cells.udp = 0 := by
  exact gone_sessions_udp_zero (run_eq4 c ops) (run_inv2 c ops) h

/-- ... and the TCP socket gauge is zero once the connect timeout and the idle timeout have run
out (an origin connection whose client vanished lingers until the endpoint writes to the client
or the tunnel idles out - that is what the code does, see DESIGN.md) -/
theorem all_clients_gone_everything_zero (c : Cfg) (ops : List Op) (ms : Nat)
    (h : ∀ x ∈ (after c ops).sess, x.alive = false)
    (hi : 2 * c.tcpIdle ≤ ms) (he : c.establish ≤ ms) :
    let s := after c (ops ++ [.adv ms])
    s.cells.s1 = 0 ∧ s.cells.s2 = 0 ∧ s.cells.s3 = 0 ∧ s.cells.tcp = 0 ∧ s.cells.udp = 0 := by
  unfold after at h ⊢
  rw [run_snoc]
  exact gone_everything_zero c ms _ (run_eq4 c ops) (run_inv2 c ops) h hi he

/-- a refused connect leaves the TCP gauge where it was (guard created and dropped) -/
theorem refused_connect_balanced (c : Cfg) (ops : List Op) (i : Nat) :
    (after c (ops ++ [.tunOpen i .dead])).cells.tcp = (after c ops).cells.tcp := by
  unfold after
  rw [run_snoc]
  exact step_dead_tcp c _ i

/-- a connect that never completes holds its guard exactly until the establishment timeout
(`hn`: the session can still take a tunnel - an HTTP/1.1 connection carries only one) -/
theorem hanging_connect_released_by_timeout (c : Cfg) (ops : List Op) (i ms : Nat)
    (ha : aliveS (after c ops) i = true)
    (hn : ¬ (protoOf (after c ops) i = .h1 ∧ (after c ops).tuns.any (·.sess = i) = true))
    (he : c.establish ≤ ms) :
    (after c (ops ++ [.tunOpen i .hang])).cells.tcp = (after c ops).cells.tcp + 1 ∧
    (after c (ops ++ [.tunOpen i .hang, .adv ms])).cells.tcp ≤ (after c ops).cells.tcp := by
  unfold after at ha hn ⊢
  have := hang_released c (run c {} ops) i ms ha hn he
  rw [run_snoc, show ops ++ [Op.tunOpen i .hang, .adv ms] = (ops ++ [.tunOpen i .hang]) ++ [.adv ms] by simp,
    run_snoc, run_snoc]
  exact this

/-! ## Relayed bytes -/

/-- the counters only grow -/
theorem counters_monotone (c : Cfg) (ops : List Op) (op : Op) :
    let a := (after c ops).cells
    let b := (after c (ops ++ [op])).cells
    a.up1 ≤ b.up1 ∧ a.up2 ≤ b.up2 ∧ a.up3 ≤ b.up3 ∧ a.dn1 ≤ b.dn1 ∧ a.dn2 ≤ b.dn2 ∧ a.dn3 ≤ b.dn3 := by
  unfold after
  rw [run_snoc]
  have ok := step_ok c (run c {} ops) op
  exact ⟨ok.up1, ok.up2, ok.up3, ok.dn1, ok.dn2, ok.dn3⟩

/-- **A scrape never shows a byte counter lower than an earlier scrape did**, whatever happened in
between (sessions and tunnels opening and closing, clients vanishing, timeouts): the one-step statement
lifted to every continuation of every history -/
theorem counters_never_decrease (c : Cfg) (ops more : List Op) :
    let a := (after c ops).cells
    let b := (after c (ops ++ more)).cells
    a.up1 ≤ b.up1 ∧ a.up2 ≤ b.up2 ∧ a.up3 ≤ b.up3 ∧ a.dn1 ≤ b.dn1 ∧ a.dn2 ≤ b.dn2 ∧ a.dn3 ≤ b.dn3 := by
  induction more generalizing ops with
  | nil => simp
  | cons op rest ih =>
    have h1 := counters_monotone c ops op
    have h2 := ih (ops ++ [op])
    simp only [List.append_assoc, List.singleton_append] at h2
    simp only at h1 h2 ⊢
    omega

/-- **bytes relayed client -> origin on a relaying tunnel are added, exactly, to the counter of
that session's protocol** and to nothing else -/
theorem up_adds_exactly (c : Cfg) (ops : List Op) (t n : Nat) (oe : Bool)
    (h : ((after c ops).tuns.getD t default).st = .open false false oe) :
    let s := after c ops
    (after c (ops ++ [.up t n])).cells = s.cells.addUp (protoOf s (s.tuns.getD t default).sess) n := by
  show (after c (ops ++ [.up t n])).cells = _
  unfold after at h ⊢
  rw [run_snoc]
  simp only [step]
  rw [h]

/-- the same for origin -> client, as long as the client is there (also after it half-closed) and
the origin has not ended its stream -/
theorem down_adds_exactly (c : Cfg) (ops : List Op) (t n : Nat) (ce : Bool)
    (h : ((after c ops).tuns.getD t default).st = .open ce false false) :
    let s := after c ops
    (after c (ops ++ [.down t n])).cells = s.cells.addDn (protoOf s (s.tuns.getD t default).sess) n := by
  show (after c (ops ++ [.down t n])).cells = _
  unfold after at h ⊢
  rw [run_snoc]
  simp only [step]
  rw [h]

/-- data offered on a tunnel that is not relaying in that direction (closed, still connecting,
client already ended, client vanished) counts nothing -/
theorem no_relay_no_bytes (c : Cfg) (ops : List Op) (t n : Nat)
    (h : ∀ oe, ((after c ops).tuns.getD t default).st ≠ .open false false oe) :
    let a := (after c ops).cells
    let b := (after c (ops ++ [.up t n])).cells
    b.up1 = a.up1 ∧ b.up2 = a.up2 ∧ b.up3 = a.up3 ∧ b.dn1 = a.dn1 ∧ b.dn2 = a.dn2 ∧ b.dn3 = a.dn3 := by
  unfold after at h ⊢
  rw [run_snoc]
  simp only [step]
  exact ⟨trivial, trivial, trivial, trivial, trivial, trivial⟩

/-- **an HTTP/2 or HTTP/3 tunnel survives the origin's half-close and is over once both directions
have ended**: the socket guard is held until then and released exactly once -/
theorem half_closed_tunnel_released_when_both_ended (c : Cfg) (ops : List Op) (t : Nat)
    (h : ((after c ops).tuns.getD t default).st = .open false false false)
    (hp : protoOf (after c ops) ((after c ops).tuns.getD t default).sess ≠ .h1)
    (ha : aliveS (after c ops) ((after c ops).tuns.getD t default).sess = true)
    (ht : t < (after c ops).tuns.length) :
    (after c (ops ++ [.tunClose t 's'])).cells.tcp = (after c ops).cells.tcp ∧
    (after c (ops ++ [.tunClose t 's', .tunClose t 'g'])).cells.tcp = (after c ops).cells.tcp - 1 ∧
    (after c (ops ++ [.tunClose t 'g', .tunClose t 's'])).cells.tcp = (after c ops).cells.tcp - 1 := by
  unfold after at h hp ha ht ⊢
  have := half_close_both c (run c {} ops) t h hp ha ht
  rw [run_snoc, show ops ++ [Op.tunClose t 's', .tunClose t 'g'] = (ops ++ [.tunClose t 's']) ++ [.tunClose t 'g'] by simp,
    show ops ++ [Op.tunClose t 'g', .tunClose t 's'] = (ops ++ [.tunClose t 'g']) ++ [.tunClose t 's'] by simp,
    run_snoc, run_snoc, run_snoc, run_snoc]
  exact this

/-- **an ICMP datagram counts only when it was relayed**: an answered echo adds its on-the-wire
length to both directions of the session's protocol, a dropped one changes no cell at all -/
theorem icmp_counts_only_relayed (c : Cfg) (ops : List Op) (t n : Nat)
    (h : ((after c ops).tuns.getD t default).st = .imux) :
    let s := after c ops
    let p := protoOf s (s.tuns.getD t default).sess
    (after c (ops ++ [.icmpEcho t true n])).cells = (s.cells.addUp p (8 + n)).addDn p (8 + n) ∧
    (after c (ops ++ [.icmpEcho t false n])).cells = s.cells := by
  show (after c (ops ++ [.icmpEcho t true n])).cells = _ ∧
    (after c (ops ++ [.icmpEcho t false n])).cells = (after c ops).cells
  unfold after at h ⊢
  rw [run_snoc, run_snoc]
  simp only [step]
  rw [h]
  exact ⟨rfl, rfl⟩

/-- UDP: a multiplexer step adds to the session's protocol exactly the payload bytes the
multiplexer model (`TT.UdpFlows`, C07) reports as sent / delivered -/
theorem udp_bytes_follow_multiplexer (c : Cfg) (ops : List Op) (t : Nat) (u : UdpFlows.St) (m : UdpFlows.Meta) (n : Nat)
    (h : ((after c ops).tuns.getD t default).st = .mux u) :
    let s := after c ops
    let p := protoOf s (s.tuns.getD t default).sess
    let u' := (UdpFlows.step c.udp u (.dg m n)).1
    (after c (ops ++ [.udpUp t m n])).cells =
      ((s.cells.udpDelta u u').addUp p (u'.up - u.up)).addDn p (u'.down - u.down) := by
  show (after c (ops ++ [.udpUp t m n])).cells = _
  unfold after at h ⊢
  rw [run_snoc]
  simp only [step]
  rw [h]
  rfl

/-! ## Export: the documented series -/

/-- METRICS.md (re-read on every run) documents exactly the five series the cells stand for,
with these types and label names -/
theorem documented_series :
    TT.Gen.docFamilies.map (fun f => (f.1, f.2.1, f.2.2.map (·.1))) =
      [("client_sessions", "gauge", ["protocol_type"]),
       ("inbound_traffic_bytes", "counter", ["protocol_type"]),
       ("outbound_traffic_bytes", "counter", ["protocol_type"]),
       ("outbound_tcp_sockets", "gauge", []),
       ("outbound_udp_sockets", "gauge", [])] := by
  decide

theorem documented_paths : TT.Gen.docPaths = ["/metrics", "/health-check"] := by
  decide

/-! ## Non-vacuity -/

def exCfg : Cfg := { establish := 5000, tcpIdle := 60000,
                     udp := { timeout := 8000, kinds := [.live, .live, .dns, .dead, .unconn] } }

example :
    let ops := [Op.sessOpen .h2, .sessOpen .h1, .tunOpen 0 .origin, .tunOpen 0 .hang, .tunOpen 0 .udp,
                .tunOpen 1 .origin, .up 0 100, .down 0 7, .up 3 9, .udpUp 2 ⟨0, 0⟩ 10, .udpDown 2 ⟨0, 0⟩ 20,
                .tunOpen 0 .dead, .adv 5000, .tunClose 3 'g', .sessClose 0]
    (after exCfg (ops.take 12)).cells = { s1 := 1, s2 := 1, tcp := 3, udp := 1, up1 := 9, up2 := 110, dn1 := 0, dn2 := 27 }
    ∧ (after exCfg (ops.take 13)).cells.tcp = 2
    ∧ (after exCfg ops).cells = { s1 := 0, s2 := 0, tcp := 2, udp := 0, up1 := 9, up2 := 110, dn1 := 0, dn2 := 27 }
    ∧ (after exCfg (ops ++ [.adv 120000])).cells.tcp = 0
    ∧ (after exCfg [.sessOpen .h2, .tunOpen 0 .origin, .tunClose 0 's', .up 0 5]).cells
        = { s1 := 0, s2 := 1, tcp := 1, udp := 0, up1 := 0, up2 := 5, dn1 := 0, dn2 := 0 }
    ∧ (after exCfg [.sessOpen .h2, .tunOpen 0 .origin, .tunClose 0 's', .up 0 5, .tunClose 0 'g']).cells.tcp = 0
    -- HTTP/3 sessions: multiplexed like HTTP/2, counted in their own cells
    ∧ (after exCfg [.sessOpen .h3, .sessOpen .h3, .tunOpen 0 .origin, .tunOpen 0 .origin, .tunOpen 1 .origin, .up 0 40, .down 2 7,
                    .tunClose 0 'g', .down 0 5, .tunClose 0 's', .sessClose 1]).cells
        = { s1 := 0, s2 := 0, s3 := 1, tcp := 1, udp := 0, up3 := 40, dn3 := 12 } := by
  decide

end TT.Metrics
