import TT.Model.Fwd
import TT.Lemmas.Fwd
/-!
# C17  Plain-HTTP forwarding preserves requests and response bodies byte for byte

`Sink.write` / `offer` model `ForwardedStreamSink` under `SimplexPipe::exchange`; the client-side
sink accepts a scripted number of bytes per call. The first theorem is the quantifier of the
property (every segmentation of the origin's byte stream x every acceptance pattern of the client
sink); the round-trip theorems say what the single-segment, unthrottled run - hence every run -
delivers for each kind of response.
-/
namespace TT.Fwd

/-- what the client observes: interim responses, response head, body bytes, where the first end of
stream fell, whether it got a 502 instead -/
structure ClientView where
  interims : List Nat
  head : Option (Nat × Bool × List (Bytes × Bytes))
  body : Bytes
  firstEof : Option Nat
  bad : Bool
  deriving DecidableEq, Repr

def Sink.clientView (s : Sink) : ClientView :=
  { interims := s.client.interims, head := s.client.head, body := s.client.body,
    firstEof := s.client.eofs.head?, bad := s.client.bad }

def runSink (ver : Ver) (method : Bytes) (quotas : List Nat) (segs : List Bytes) : Sink :=
  feed (Sink.init ver method quotas) segs

/-! ## every segmentation, every back-pressure pattern -/

/-- **the client observes the same thing however the origin's byte stream is cut into segments and
however little the client-side sink accepts per write**: the run over `segs` with acceptance
script `quotas` shows the client exactly what the run over the whole stream in one segment with an
unthrottled sink shows -/
theorem segmentation_and_backpressure_independent (ver : Ver) (method : Bytes) (quotas : List Nat)
    (segs : List Bytes) :
    (runSink ver method quotas segs).clientView = (runSink ver method [] [segs.flatten]).clientView := by
  have h1 := (runSink_core ver method quotas segs).1
  have h2 := (runSink_core ver method [] [segs.flatten]).1
  simp only [List.flatten_cons, List.flatten_nil, List.append_nil] at h2
  have hc : (runSink ver method quotas segs).client = (runSink ver method [] [segs.flatten]).client :=
    congrArg Core.client (h1.trans h2.symm)
  simp only [Sink.clientView, hc]

/-- ... also when the origin then closes -/
theorem independent_after_origin_close (ver : Ver) (method : Bytes) (quotas : List Nat) (segs : List Bytes) :
    (runSink ver method quotas segs).eof.clientView = (runSink ver method [] [segs.flatten]).eof.clientView := by
  have h1 := runSink_core ver method quotas segs
  have h2 := runSink_core ver method [] [segs.flatten]
  simp only [List.flatten_cons, List.flatten_nil, List.append_nil] at h2
  have hc : (runSink ver method quotas segs).eof.client = (runSink ver method [] [segs.flatten]).eof.client := by
    unfold runSink
    rw [eof_client _ h1.2, eof_client _ h2.2, h1.1, h2.1]
  simp only [Sink.clientView, hc]

/-- bytes are delivered in stream order and never invented: what the client has after more
segments extends what it had -/
theorem delivery_monotone (ver : Ver) (method : Bytes) (quotas : List Nat) (segs more : List Bytes) :
    (runSink ver method quotas segs).client.body <+: (runSink ver method quotas (segs ++ more)).client.body := by
  have h1 := (runSink_core ver method quotas segs).2
  have := feed_body _ h1 more
  simpa only [runSink, feed, List.foldl_append] using this

/-! ## what is delivered, per kind of response (single segment, unthrottled: by the theorem above, every run) -/

/-- a well-formed final response head: exactly one head, not 1xx, which `convert_response` accepts -/
structure FinalHead (ver : Ver) (method : Bytes) (hb : Bytes) (status : Nat) (kept : List (Bytes × Bytes))
    (bl : Option BodyLen) : Prop where
  ends : headEnd hb = some hb.length
  parsed : ∃ h, parseHeadBytes hb = some h ∧ h.status = status ∧ convertResponse ver method h = some (kept, bl)
  final : ¬ (100 ≤ status ∧ status < 200)

/-- **chunked framing is removed exactly** (HTTP/2 and HTTP/3 clients): for any chunks with any
sizes and any extensions, the client receives the payloads concatenated, then end of stream -/
theorem chunked_body_delivered_exactly (ver : Ver) (method hb : Bytes) (status : Nat) (kept : List (Bytes × Bytes))
    (chunks : List (Bytes × Bytes))
    (hh : FinalHead ver method hb status kept (some .chunked))
    (hne : ∀ c ∈ chunks, c.2 ≠ [] ∧ c.2.length < 16 ^ 16 ∧ 13 ∉ c.1) :
    (runSink ver method [] [hb ++ encodeChunked chunks]).clientView =
      { interims := [], head := some (status, false, kept), body := (chunks.map (·.2)).flatten,
        firstEof := some ((chunks.map (·.2)).flatten.length), bad := false } := by
  obtain ⟨he, ⟨h, hp, hs, hc⟩, hf⟩ := hh
  subst hs
  have h1 := (runSink_core ver method [] [hb ++ encodeChunked chunks]).1
  simp only [List.flatten_cons, List.flatten_nil, List.append_nil] at h1
  rw [Core.init, D_head ver method _ hb _ h kept _ he hp hc hf, phaseOf, D_chunked _ _ _ _ hne] at h1
  have hcl : (runSink ver method [] [hb ++ encodeChunked chunks]).client = _ := congrArg Core.client h1
  simp [Sink.clientView, hcl, cEof]

/-- **a Content-Length body is delivered exactly and ended when complete** -/
theorem content_length_body_delivered_exactly (ver : Ver) (method hb : Bytes) (status n : Nat)
    (kept : List (Bytes × Bytes)) (body : Bytes)
    (hh : FinalHead ver method hb status kept (some (.determined n))) (hn : 0 < n) (hb' : body.length ≤ n) :
    (runSink ver method [] [hb ++ body]).clientView =
      { interims := [], head := some (status, false, kept), body := body,
        firstEof := if body.length = n then some n else none, bad := false } := by
  obtain ⟨he, ⟨h, hp, hs, hc⟩, hf⟩ := hh
  subst hs
  have h1 := (runSink_core ver method [] [hb ++ body]).1
  simp only [List.flatten_cons, List.flatten_nil, List.append_nil] at h1
  rw [Core.init, D_head ver method _ hb _ h kept _ he hp hc hf, phaseOf, D_nonEncodedSome _ _ _ _ _ hn hb'] at h1
  have hcl : (runSink ver method [] [hb ++ body]).client = _ := congrArg Core.client h1
  have hn0 : n ≠ 0 := by omega
  by_cases hbn : body.length = n
  · simp [Sink.clientView, hcl, cEof, hbn, hn0]
  · simp [Sink.clientView, hcl, hbn, hn0]

/-- a close-delimited body is passed through as it comes and ended when the origin closes (this is
also what an HTTP/1.x client gets for a chunked response: the framing is its own to remove) -/
theorem close_delimited_body_delivered_exactly (ver : Ver) (method hb : Bytes) (status : Nat)
    (kept : List (Bytes × Bytes)) (body : Bytes)
    (hh : FinalHead ver method hb status kept none) :
    (runSink ver method [] [hb ++ body]).clientView =
      { interims := [], head := some (status, false, kept), body := body, firstEof := none, bad := false } ∧
    (runSink ver method [] [hb ++ body]).eof.clientView =
      { interims := [], head := some (status, false, kept), body := body, firstEof := some body.length, bad := false } := by
  obtain ⟨he, ⟨h, hp, hs, hc⟩, hf⟩ := hh
  subst hs
  have h0 := runSink_core ver method [] [hb ++ body]
  have h1 := h0.1
  simp only [List.flatten_cons, List.flatten_nil, List.append_nil] at h1
  rw [Core.init, D_head ver method _ hb _ h kept _ he hp hc hf, phaseOf, D_nonEncodedNone] at h1
  have hcl : (runSink ver method [] [hb ++ body]).client = _ := congrArg Core.client h1
  have hcl' : (runSink ver method [] [hb ++ body]).eof.client = _ := (eof_client _ h0.2).trans (by rw [h1])
  constructor
  · simp [Sink.clientView, hcl]
  · simp [Sink.clientView, hcl', eofC, cEof]

/-- bodiless responses (HEAD, 204, 304, Content-Length: 0) end with the head -/
theorem bodiless_response_ends_with_head (ver : Ver) (method hb : Bytes) (status : Nat) (kept : List (Bytes × Bytes))
    (hh : FinalHead ver method hb status kept (some (.determined 0))) :
    (runSink ver method [] [hb]).clientView =
      { interims := [], head := some (status, true, kept), body := [], firstEof := none, bad := false } := by
  obtain ⟨he, ⟨h, hp, hs, hc⟩, hf⟩ := hh
  subst hs
  have h1 := (runSink_core ver method [] [hb]).1
  simp only [List.flatten_cons, List.flatten_nil] at h1
  rw [Core.init, D_head ver method _ hb _ h kept _ he hp hc hf, phaseOf, D_nil] at h1
  have hcl : (runSink ver method [] [hb]).client = _ := congrArg Core.client h1
  simp [Sink.clientView, hcl]

/-- HEAD requests and 204 / 304 responses are bodiless whatever framing headers they carry -/
theorem head_204_304_are_bodiless (ver : Ver) (method : Bytes) (h : Head) (kept : List (Bytes × Bytes)) (bl : Option BodyLen)
    (hc : convertResponse ver method h = some (kept, bl))
    (hb : method = str "HEAD" ∨ h.status = 204 ∨ h.status = 304) :
    bl = some (.determined 0) := by
  unfold convertResponse at hc
  simp only at hc
  split at hc
  · simp at hc
  · simp only [Option.some.injEq, Prod.mk.injEq] at hc
    rw [← hc.2]
    rcases hb with rfl | h204 | h304
    · simp [isHead]
    · simp [h204]
    · simp [h304]

/-- **interim 1xx responses never end or corrupt the exchange**: a 1xx head in front of the rest of
the stream changes nothing of what follows; an HTTP/1.x client is sent it, an HTTP/2 or HTTP/3
client is not -/
theorem interim_response_is_transparent (ver : Ver) (method ib rest : Bytes) (h : Head) (quotas : List Nat)
    (hi : headEnd ib = some ib.length) (hp : parseHeadBytes ib = some h)
    (hs : 100 ≤ h.status ∧ h.status < 200)
    (hc : (convertResponse ver method h).isSome) :
    let a := (runSink ver method quotas [ib ++ rest]).clientView
    let b := (runSink ver method quotas [rest]).clientView
    a = { b with interims := (if ver.isH1 then [h.status] else []) ++ b.interims } := by
  intro a b
  have h1 := (runSink_core ver method quotas [ib ++ rest]).1
  have h2 := (runSink_core ver method quotas [rest]).1
  simp only [List.flatten_cons, List.flatten_nil, List.append_nil] at h1 h2
  rw [Core.init, D_interim ver method _ ib rest h hi hp hc hs] at h1
  have hx : (⟨.waitingResponse [], if ver.isH1 then { ({} : Client) with interims := ({} : Client).interims ++ [h.status] } else {}⟩ : Core) =
      addI (if ver.isH1 then [h.status] else []) Core.init := by
    cases ver.isH1 <;> simp [addI, Core.init]
  rw [hx, D_addI _ _ _ _ _ _ (Nat.le_refl _) (by simp [Core.init, CI, headEnd]), ← h2] at h1
  have hcl : (runSink ver method quotas [ib ++ rest]).client = _ := congrArg Core.client h1
  simp only [a, b, Sink.clientView, hcl, addI, Sink.core]
  rfl

/-! ## headers -/

def hopByHop : List Bytes := [str "connection", str "proxy-connection", str "keep-alive", str "upgrade"]

/-- **hop-by-hop headers are never forwarded** (and Transfer-Encoding not to HTTP/2 / HTTP/3 clients) -/
theorem hop_by_hop_headers_removed (ver : Ver) (method : Bytes) (h : Head) (kept : List (Bytes × Bytes)) (bl : Option BodyLen)
    (hc : convertResponse ver method h = some (kept, bl)) :
    ∀ x ∈ kept, x.1 ∉ hopByHop ∧ (ver.isH1 = false → x.1 ≠ str "transfer-encoding") := by
  have hk := convertResponse_kept ver method h kept bl hc
  have hok := convFold_keptOk ver h.headers (connInit h.headers)
    ⟨by simp [connInit], by intro x hx; simp [connInit] at hx⟩
  intro x hx
  rw [hk] at hx
  obtain ⟨a1, a2, a3, a4, a5⟩ := hok.2 x hx
  exact ⟨by simp [hopByHop, a1, a2, a3, a4], a5⟩

/-- **fields nominated by a `Connection` header are hop-by-hop wherever they stand in the head**: no forwarded header
has a name that a Connection header of the response lists (before it or after it) -/
theorem connection_nominated_headers_removed (ver : Ver) (method : Bytes) (h : Head) (kept : List (Bytes × Bytes))
    (bl : Option BodyLen) (hc : convertResponse ver method h = some (kept, bl)) :
    ∀ x ∈ kept, ∀ c ∈ h.headers, c.1 = str "connection" → x.1 ∉ connectionTokens c.2 := by
  have hk := convertResponse_kept ver method h kept bl hc
  intro x hx c hcm hcn ht
  rw [hk] at hx
  exact convFold_dropped ver (connectionTokens c.2) h.headers (connInit h.headers)
    (fun n hn => mem_connInit_drop h.headers c hcm hcn n hn) (by intro y hy; simp [connInit] at hy) x hx ht

/-- (a head whose Connection header follows the field it nominates, in another spelling) -/
example : convertResponse .h11 (str "GET") ⟨200, [(str "x-thing", str "v"), (str "connection", str "X-Thing"), (str "server", str "o")]⟩
    = some ([(str "server", str "o")], none) := by decide

/-- nothing is invented or reordered: the forwarded headers are a sublist of the origin's -/
theorem forwarded_headers_are_origin_headers (ver : Ver) (method : Bytes) (h : Head) (kept : List (Bytes × Bytes))
    (bl : Option BodyLen) (hc : convertResponse ver method h = some (kept, bl)) :
    kept.Sublist h.headers := by
  have hk := convertResponse_kept ver method h kept bl hc
  obtain ⟨k, hk1, hk2⟩ := convFold_kept_sublist ver h.headers (connInit h.headers)
  rw [hk, hk1]
  simpa [connInit] using hk2

/-- **every end-to-end header is forwarded**: a header that is not hop-by-hop, not a framing header
and not named by a Connection header of the response reaches the client -/
theorem end_to_end_headers_kept (ver : Ver) (method : Bytes) (h : Head) (kept : List (Bytes × Bytes)) (bl : Option BodyLen)
    (hc : convertResponse ver method h = some (kept, bl)) (x : Bytes × Bytes) (hx : x ∈ h.headers)
    (h1 : x.1 ∉ hopByHop) (h2 : x.1 ≠ str "transfer-encoding") (h3 : x.1 ≠ str "content-length")
    (h4 : ∀ c ∈ h.headers, c.1 = str "connection" → x.1 ∉ connectionTokens c.2) :
    x ∈ kept := by
  have hk := convertResponse_kept ver method h kept bl hc
  simp only [hopByHop, List.mem_cons, List.not_mem_nil, or_false, not_or] at h1
  rw [hk]
  refine convFold_keeps ver x h1.1 h2 h3 h.headers (connInit h.headers) ?_ h4 (Or.inr hx)
  simp only [connInit, List.mem_append, List.mem_flatten, List.mem_map, List.mem_filter, not_or]
  refine ⟨by simp [h1.2.1, h1.2.2.1, h1.2.2.2], ?_⟩
  rintro ⟨l, ⟨c, ⟨hcm, hcn⟩, rfl⟩, hl⟩
  exact h4 c hcm (by simpa using hcn) hl

/-! ## the request -/

/-- **The header array stops growing**: for the constants of the code the doubling ends at a size that admits the
documented maximum, and a head that parses has no more header lines than that -/
theorem response_header_capacity :
    responseHeaderCapacity = 128 ∧ TT.Gen.max_response_headers_num ≤ responseHeaderCapacity := by
  decide

theorem parsed_head_within_capacity (b : Bytes) (h : Head) (hp : parseHeadBytes b = some h) :
    h.headers.length ≤ responseHeaderCapacity := by
  unfold parseHeadBytes at hp
  split at hp
  · simp at hp
  · simp only [Option.bind_eq_bind, Option.bind_eq_some_iff] at hp
    obtain ⟨st, _, hs, _, hp⟩ := hp
    split at hp
    · simp at hp
    · simp only [Option.some.injEq] at hp
      subst hp
      simp only
      omega

/-- **the request line keeps method and path, the version is HTTP/1.x** -/
theorem request_line_preserved (r : Request) (bytes : Bytes) (bl : BodyLen)
    (h : serializeRequest r = .ok bytes bl) :
    (r.method ++ [32] ++ (if r.method = str "OPTIONS" then str "*" else r.target) ++ str " HTTP/" ++
      versionDigits r.ver ++ [13, 10]) <+: bytes ∧
    [13, 10, 13, 10] <:+ bytes := by
  constructor
  · obtain ⟨_, hb, _⟩ := serializeRequest_bytes r bytes bl h
    rw [hb]
    simp only [List.append_assoc]
    repeat apply List.prefix_append_right_inj _ |>.mpr
    exact List.prefix_append _ _
  · obtain ⟨p, hp⟩ := serializeRequest_crlf r bytes bl h
    exact ⟨p, hp.symm⟩

/-- the header block: proxy hop-by-hop headers are gone, the Host header is the URI's authority
(exactly one), every other header is there in order, unchanged -/
def expectedHeaderLines (r : Request) : List Bytes :=
  let others := r.headers.filter fun h => h.1 != str "proxy-authorization" && h.1 != str "proxy-connection"
  let lines := others.map fun h =>
    if h.1 == str "host" then str "host: " ++ r.authority ++ [13, 10] else h.1 ++ str ": " ++ h.2 ++ [13, 10]
  if others.any (·.1 == str "host") then lines else lines ++ [str "host: " ++ r.authority ++ [13, 10]]

theorem request_headers_preserved (r : Request) (bytes : Bytes) (bl : BodyLen)
    (h : serializeRequest r = .ok bytes bl) :
    bytes = r.method ++ [32] ++ (if r.method = str "OPTIONS" then str "*" else r.target) ++ str " HTTP/" ++
      versionDigits r.ver ++ [13, 10] ++ (expectedHeaderLines r).flatten ++ [13, 10] := by
  obtain ⟨hr, hb, _⟩ := serializeRequest_bytes r bytes bl h
  obtain ⟨o1, o2⟩ := serFold_out r.authority r.headers {} hr
  have e1 : keepReq = fun h => h.1 != str "proxy-authorization" && h.1 != str "proxy-connection" := rfl
  have e2 : reqLine r.authority = fun h =>
      if h.1 == str "host" then str "host: " ++ r.authority ++ [13, 10] else h.1 ++ str ": " ++ h.2 ++ [13, 10] := rfl
  rw [hb, o1, o2, e1, e2]
  simp only [expectedHeaderLines]
  by_cases hany : ((r.headers.filter fun h => h.1 != str "proxy-authorization" && h.1 != str "proxy-connection").any
      (·.1 == str "host")) = true
  · simp [hany]
  · simp [hany]

/-- **a body announced by Content-Length is forwarded exactly up to that length** (whatever the
chunking of the client's body stream) -/
theorem request_body_content_length (n : Nat) (chunks : List Bytes) :
    forwardBody (.determined n) 0 chunks = chunks.flatten.take n := by
  rw [forwardBody_determined]; rfl

/-- a valid Content-Length (and no chunked Transfer-Encoding) fixes the forwarded body length -/
theorem request_content_length_respected (r : Request) (bytes : Bytes) (bl : BodyLen) (v : Bytes) (k : Nat)
    (h : serializeRequest r = .ok bytes bl) (hm : r.method ≠ str "HEAD")
    (hcl : (str "content-length", v) ∈ r.headers) (hk : parseDec v = some k)
    (hte : ∀ x ∈ r.headers, x.1 = str "transfer-encoding" → x.2 ≠ str "chunked") :
    bl = .determined k := by
  obtain ⟨hr, _, hbl⟩ := serializeRequest_bytes r bytes bl h
  have hb := (serFold_bodyLen r.authority r.headers {} hr hte (by simp)).2 rfl v k hcl hk
  have hm' : isHead r.method = false := by simpa [isHead] using hm
  rw [hbl, hm', hb]
  rfl

/-- KNOWN FINDING (recorded in known_findings.json, replayed on the implementation by the suite):
an HTTP/2 or HTTP/3 request without Content-Length is forwarded with its body raw and *no*
framing header, so the origin cannot delimit it. The witness below is that request. -/
example :
    let r : Request := { ver := .h2, method := str "POST", target := str "/u", authority := str "o.test",
                         headers := [(str "accept", str "*/*")] }
    forwardRequest r [str "abc", str "de"] =
      some (str "POST /u HTTP/1.1\r\naccept: */*\r\nhost: o.test\r\n\r\nabcde") := by
  decide

/-! ## Non-vacuity -/

example :
    let hb := str "HTTP/1.1 200 OK\r\nServer: o\r\nConnection: close\r\nTransfer-Encoding: chunked\r\n\r\n"
    FinalHead .h2 (str "GET") hb 200 [(str "server", str "o")] (some .chunked) := by
  intro hb
  exact ⟨by decide,
    ⟨{ status := 200, headers := [(str "server", str "o"), (str "connection", str "close"),
                                  (str "transfer-encoding", str "chunked")] }, by decide, by decide, by decide⟩,
    by decide⟩

example :
    (runSink .h2 (str "GET") [3, 0, 1]
      [str "HTTP/1.1 100 Continue\r\n\r\nHTTP/1.1 200 OK\r\nTransfer-Enc", str "oding: chunked\r\n\r\n4;x=1\r\nab",
       str "cd\r", str "\n1\r\ne\r\n0\r\n\r\n"]).clientView =
      { interims := [], head := some (200, false, []), body := str "abcde", firstEof := some 5, bad := false } := by
  decide

/-! ## Flow-control credit of the request body -/

/-- **the client is credited exactly the body bytes the origin accepted, under every acceptance
schedule**: after any sequence of acknowledgements the credit handed to the request-body source is
what was acknowledged beyond the `head` bytes of the serialised request head - never more (no credit
for bytes the endpoint made up, none ahead of the body), never less (the client's window is not
starved). Every prefix of a schedule is a schedule, so this holds at every moment of the exchange. -/
theorem request_credit_exact (head : Nat) (acks : List Nat) :
    (creditAfter head acks).released = acks.sum - head
    ∧ (creditAfter head acks).skip = head - acks.sum := by
  have := credit_fold ⟨head, 0⟩ acks
  simpa [creditAfter] using this

/-- in particular the head taken in pieces is not charged: as long as no more than the head was
acknowledged, nothing was credited -/
theorem head_in_pieces_not_credited (head : Nat) (acks : List Nat) (h : acks.sum ≤ head) :
    (creditAfter head acks).released = 0 := by
  rw [(request_credit_exact head acks).1]; omega

/-- the credit depends only on how much was acknowledged, not on how the acknowledgements were cut:
two schedules with the same total leave the same credit, and the credit never shrinks as more is
acknowledged -/
theorem request_credit_schedule_independent (head : Nat) (acks acks' more : List Nat) (h : acks.sum = acks'.sum) :
    (creditAfter head acks).released = (creditAfter head acks').released ∧
    (creditAfter head acks).released ≤ (creditAfter head (acks ++ more)).released := by
  rw [(request_credit_exact head acks).1, (request_credit_exact head acks').1,
    (request_credit_exact head (acks ++ more)).1, List.sum_append, h]
  exact ⟨rfl, by omega⟩

example : (creditAfter 116 [10, 106, 32]).released = 32 ∧ (creditAfter 116 [0, 200]).released = 84 := by decide
end TT.Fwd
