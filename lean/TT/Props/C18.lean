import TT.Model.Services
import TT.Lemmas.Services
/-!
# C18  Ping, speedtest and reverse-proxy channels do exactly what is documented
-/
namespace TT.Services

/-- **Precedence** ping > speedtest > reverse proxy > tunnel -/
theorem demux_precedence (cfg : Cfg) (proto : Proto) (r : ReqView) :
    (r.pingMarker = true → select cfg proto r = .ping) ∧
    (r.pingMarker = false → checkSpeedtest cfg r = true → select cfg proto r = .speedtest) ∧
    (r.pingMarker = false → checkSpeedtest cfg r = false → checkReverseProxy cfg proto r = true →
      select cfg proto r = .reverseProxy) ∧
    (r.pingMarker = false → checkSpeedtest cfg r = false → checkReverseProxy cfg proto r = false →
      select cfg proto r = .tunnel) := by
  refine ⟨?_, ?_, ?_, ?_⟩ <;> intros <;> simp_all [select]

/-- decimal rendering of a natural number (spec side: how a client writes `N`: no sign, no
leading zeros) -/
def decimal (n : Nat) : List Char :=
  if h : n < 10 then [Char.ofNat (48 + n)] else decimal (n / 10) ++ [Char.ofNat (48 + n % 10)]
termination_by n
decreasing_by omega

theorem digitsVal_decimal (n : Nat) : digitsVal (decimal n) = some n := by
  induction n using Nat.strongRecOn with
  | _ n ih =>
    rw [decimal]
    split
    · rename_i h
      obtain ⟨h1, h2, h3⟩ := digit_char n h
      simp [digitsVal, h2, h3, h1]
    · rename_i h
      obtain ⟨h1, h2, h3⟩ := digit_char (n % 10) (Nat.mod_lt _ (by omega))
      rw [digitsVal_snoc, ih (n / 10) (by omega)]
      simp only [Option.bind_some, h2, h3, and_self, if_true, h1]
      congr 1
      omega

theorem decimal_head (n : Nat) : ∃ c rest, decimal n = c :: rest ∧ '0' ≤ c ∧ c ≤ '9' := by
  induction n using Nat.strongRecOn with
  | _ n ih =>
    rw [decimal]
    split
    · rename_i h
      exact ⟨_, [], rfl, (digit_char n h).2⟩
    · obtain ⟨c, rest, hr, hc⟩ := ih (n / 10) (by omega)
      exact ⟨c, rest ++ _, by rw [hr]; rfl, hc⟩

theorem parseU32_decimal (n : Nat) :
    parseU32 (decimal n) = if n < 4294967296 then some n else none := by
  obtain ⟨c, rest, hr, hc⟩ := decimal_head n
  have := digitsVal_decimal n
  rw [hr] at this ⊢
  exact parseU32_digits c rest n hc this


example : decimal 0 = ['0'] ∧ decimal 7 = ['7'] ∧ decimal 100 = "100".toList ∧ decimal 4294967295 = "4294967295".toList := by
  refine ⟨?_, ?_, ?_, ?_⟩ <;> decide +kernel

/-- **Download: accepted iff 1 ≤ N ≤ 100**, and then the announced body is exactly N × 2^20 bytes.
Stated for the paths a client writes, `/<N>mb.bin` with `N` in plain decimal. -/
theorem download_accept_iff (n : Nat) (hn : n < 4294967296) (r : ReqView) (hm : r.method = "GET")
    (hp : r.path = '/' :: (decimal n ++ "mb.bin".toList)) :
    prepareSpeedtest r = (if 1 ≤ n ∧ n ≤ 100 then .download (n * mib) else .bad) := by
  obtain ⟨c, rest, hr, hc⟩ := decimal_head n
  have hsp : stripPrefix speedSegment (decimal n ++ "mb.bin".toList) = none := by
    rw [hr]; exact stripPrefix_speed_digit c _ hc
  have hne : (r.method == "GET") = true := by rw [hm]; decide
  have hiff : (0 < n ∧ n ≤ maxDownloadMb) ↔ (1 ≤ n ∧ n ≤ 100) := by
    have : maxDownloadMb = 100 := rfl
    omega
  unfold prepareSpeedtest
  simp only [hp, stripPrefix_slash, hsp, hne, if_true, stripSuffix_append, parseU32_decimal, hn,
    Bool.and_eq_true, decide_eq_true_eq, hiff]

/-- **Exactly N × 2^20 body bytes for every back-pressure pattern**: whatever the client's
acceptance script, the bytes handed over plus the bytes still owed equal the announced total, and
the loop ends only when nothing is owed (a script that keeps accepting something drains it) -/
theorem download_exact (n : Nat) (quotas : List Nat) :
    (downloadLoop n quotas).1 + (downloadLoop n quotas).2 = n := by
  exact downloadLoop_sum n quotas

theorem download_completes (n : Nat) (quotas : List Nat) (hq : ∀ k ∈ quotas, 0 < k) (hl : n ≤ quotas.length) :
    downloadLoop n quotas = (n, 0) := by
  exact downloadLoop_complete n quotas hq hl

/-- **Upload: accepted iff 1 ≤ L ≤ 120 × 2^20** on `POST /upload.html`, anything else is 400 -/
theorem upload_accept_iff (l : Nat) (hl : l < 4294967296) (r : ReqView) (hm : r.method = "POST")
    (hp : r.path = "/upload.html".toList) (hc : r.contentLength = some (decimal l)) :
    prepareSpeedtest r = (if 1 ≤ l ∧ l ≤ 120 * mib then .upload l else .bad) := by
  have h1 : (r.method == "GET") = false := by rw [hm]; decide
  have h2 : (r.method == "POST") = true := by rw [hm]; decide
  have hiff : (0 < l ∧ l ≤ maxUploadMb * mib) ↔ (1 ≤ l ∧ l ≤ 120 * mib) := by
    have : maxUploadMb = 120 := rfl
    rw [this]
    omega
  unfold prepareSpeedtest
  simp only [hp, upload_slash, upload_speed, upload_bne, h1, h2, hc, parseU32_decimal, hl, if_true,
    Bool.false_eq_true, if_false, Bool.and_eq_true, decide_eq_true_eq, hiff]

theorem else_400 (r : ReqView) (hm : r.method ≠ "GET" ∧ r.method ≠ "POST") : prepareSpeedtest r = .bad := by
  unfold prepareSpeedtest
  simp [hm.1, hm.2]

theorem post_other_path_400 (r : ReqView) (hm : r.method = "POST") (hp : r.path ≠ "/upload.html".toList)
    (hs : stripPrefix ['/'] r.path = none ∨ ∀ x, stripPrefix ['/'] r.path = some x → stripPrefix speedSegment x = none) :
    prepareSpeedtest r = .bad := by
  have h1 : (r.method == "GET") = false := by rw [hm]; decide
  have h2 : (r.method == "POST") = true := by rw [hm]; decide
  have h3 : (r.path != "/upload.html".toList) = true := by simpa using hp
  unfold prepareSpeedtest
  rcases hs with hs | hs
  · simp only [hs, h1, h2, h3, if_true, Bool.false_eq_true, if_false]
  · cases hx : stripPrefix ['/'] r.path with
    | none => simp only [h1, h2, h3, if_true, Bool.false_eq_true, if_false]
    | some x => simp only [hs x hx, h1, h2, h3, if_true, Bool.false_eq_true, if_false]

/-- the upload is answered once `L` bytes were counted or the client ended the stream -/
theorem upload_done (n : Nat) (chunks : List Nat) : (uploadLoop n chunks).2 = true := by
  exact uploadLoop_done n chunks

theorem upload_counts (n : Nat) (chunks : List Nat) (h : n ≤ chunks.sum) : (uploadLoop n chunks).1 = 0 := by
  exact uploadLoop_counts n chunks h

/-- **Reverse proxy**: the translated request carries `X-Original-Protocol` with the client's
protocol, keeps method (except the documented HTTP/3 compatibility rewrite), path and the other
headers -/
theorem x_original_protocol_present (proto : Proto) (c : Bool) (m : String) (p : List Char) (hs : List (String × String)) :
    ("x-original-protocol", protoStr proto) ∈ (translate proto c m p hs).headers ∧
    (translate proto c m p hs).path = p ∧
    (∀ h ∈ hs, h.1 ≠ "x-original-protocol" → h ∈ (translate proto c m p hs).headers) ∧
    (proto ≠ .h3 ∨ c = false → (translate proto c m p hs).method = m) := by
  refine ⟨mem_insertHeader _ _ _, rfl, ?_, ?_⟩
  · intro h hh hne
    exact mem_insertHeader_of_ne _ _ _ h hh hne
  · intro h
    unfold translate
    rcases h with h | h
    · have : (proto == Proto.h3) = false := by cases proto <;> simp_all
      simp [this]
    · simp [h]

example : prepareSpeedtest ⟨"GET", "/100mb.bin".toList, false, false, none⟩ = .download (100 * mib) := by decide +kernel
example : prepareSpeedtest ⟨"GET", "/101mb.bin".toList, false, false, none⟩ = .bad := by decide +kernel
example : prepareSpeedtest ⟨"GET", "/0mb.bin".toList, false, false, none⟩ = .bad := by decide +kernel
example : prepareSpeedtest ⟨"GET", "/speed/7mb.bin".toList, false, false, none⟩ = .download (7 * mib) := by decide +kernel

/-- **The origin can trust X-Original-Protocol**: whatever the client put under that name, every header
of that name in the request sent to the origin carries the protocol the client really used -/
theorem original_protocol_not_forgeable (proto : Proto) (c : Bool) (m : String) (p : List Char)
    (hs : List (String × String)) (v : String)
    (h : ("x-original-protocol", v) ∈ (translate proto c m p hs).headers) : v = protoStr proto := by
  simp only [translate, insertHeader] at h
  split at h
  · obtain ⟨x, _, hx⟩ := List.mem_map.1 h
    split at hx
    · exact (Prod.mk.inj hx).2.symm
    · rename_i hne
      rw [hx] at hne
      simp at hne
  · rename_i hany
    rcases List.mem_append.1 h with h | h
    · exact absurd (List.any_eq_true.2 ⟨_, h, by simp⟩) hany
    · simp at h
      exact h

/-- a disabled speed test is never selected, and HTTP/2 requests never reach the reverse proxy -/
theorem disabled_channels_never_selected (cfg : Cfg) (proto : Proto) (r : ReqView) :
    (cfg.speedtestEnable = false → select cfg proto r ≠ .speedtest) ∧
    (cfg.pathMask = none → select cfg proto r ≠ .reverseProxy) ∧
    (select cfg .h2 r ≠ .reverseProxy) := by
  refine ⟨fun h => ?_, fun h => ?_, ?_⟩
  · have hs : checkSpeedtest cfg r = false := by simp [checkSpeedtest, h]
    unfold select
    rw [hs]
    by_cases h1 : r.pingMarker = true <;> by_cases h2 : checkReverseProxy cfg proto r = true <;> simp [h1, h2]
  · have hs : checkReverseProxy cfg proto r = false := by simp [checkReverseProxy, h]
    unfold select
    rw [hs]
    by_cases h1 : r.pingMarker = true <;> by_cases h2 : checkSpeedtest cfg r = true <;> simp [h1, h2]
  · have hs : checkReverseProxy cfg .h2 r = false := by simp [checkReverseProxy]
    unfold select
    rw [hs]
    by_cases h1 : r.pingMarker = true <;> by_cases h2 : checkSpeedtest cfg r = true <;> simp [h1, h2]

/-- the download never hands out more than was asked for, however the client takes it -/
theorem download_never_exceeds (n : Nat) (quotas : List Nat) : (downloadLoop n quotas).1 ≤ n := by
  have := download_exact n quotas
  omega

example : (translate .h3 false "GET" ['/'] [("x-original-protocol", "HTTP1"), ("a", "b")]).headers =
    [("x-original-protocol", "HTTP3"), ("a", "b")] := by decide

end TT.Services
