import TT.Model.Shutdown
import TT.Lemmas.Shutdown
/-!
# C19  Graceful shutdown reaches every participant and completes when all finish
-/
namespace TT.Shutdown

def stateAfter (ops : List Op) : St := (run {} ops).1

/-- **Every participant registered before the submission observes it**: whatever happens in
between (other registrations, other participants finishing, repeated submits causing lag, polls
of anybody else's handler, completion polls), the participant's next poll of `wait()` is `Ok` -/
theorem registered_before_submit_observes (pre mid : List Op) (i : Nat)
    (hi : i = (stateAfter pre).parts.length)
    (hmid : ∀ op ∈ mid, op ≠ .waitPoll i ∧ op ≠ .finish i) :
    let s := stateAfter (pre ++ [.register] ++ [.submit] ++ mid)
    (step s (.waitPoll i)).2 = .ready := by
  intro s
  rw [step_waitPoll_out]
  show AliveUnseen i s
  simp only [s, stateAfter, run_append_fst, run_singleton_fst]
  apply run_invariant_of (AliveUnseen i) (fun op => op ≠ .waitPoll i ∧ op ≠ .finish i)
    (aliveUnseen_step i) mid _ hmid
  apply aliveAt_submit
  rw [hi]
  exact aliveAt_register _

/-- ... also when the participant was already waiting (polled `pending`) before the submission -/
theorem waiting_participant_is_woken (pre mid1 mid2 : List Op) (i : Nat)
    (hi : i = (stateAfter pre).parts.length)
    (h1 : ∀ op ∈ mid1, op ≠ .finish i ∧ op ≠ .submit) (h2 : ∀ op ∈ mid2, op ≠ .waitPoll i ∧ op ≠ .finish i) :
    let s := stateAfter (pre ++ [.register] ++ mid1 ++ [.waitPoll i] ++ [.submit] ++ mid2)
    (step s (.waitPoll i)).2 = .ready := by
  intro s
  rw [step_waitPoll_out]
  show AliveUnseen i s
  simp only [s, stateAfter, run_append_fst, run_singleton_fst]
  apply run_invariant_of (AliveUnseen i) (fun op => op ≠ .waitPoll i ∧ op ≠ .finish i)
    (aliveUnseen_step i) mid2 _ h2
  apply aliveAt_submit
  apply aliveAt_step i _ _ (by simp)
  apply run_invariant_of (AliveAt i) (fun op => op ≠ .finish i)
    (aliveAt_step i) mid1 _ (fun op hop => (h1 op hop).1)
  rw [hi]
  exact aliveAt_register _

/-- without a submission nobody is told to shut down -/
theorem no_submit_no_notification (ops : List Op) (h : Op.submit ∉ ops) (i : Nat) :
    (step (stateAfter ops) (.waitPoll i)).2 ≠ .ready := by
  rw [Ne, step_waitPoll_out]
  rintro ⟨p, hp, _, hu⟩
  have hinv : NoUnseen (stateAfter ops) :=
    run_invariant_of NoUnseen (fun op => op ≠ .submit) noUnseen_step ops {}
      (fun op hop e => h (e ▸ hop)) (fun p hp => by cases hp)
  have := hinv p (List.mem_iff_getElem?.mpr ⟨i, hp⟩)
  rw [this] at hu
  cases hu

/-- **Completion returns exactly when the last registered participant has finished**: a
completion poll answers `done` iff no guard is outstanding - never earlier, and from then on
always (no hang) -/
theorem completion_iff_all_finished (ops : List Op) :
    (step (stateAfter ops) .completionPoll).2 = .done ↔ ∀ p ∈ (stateAfter ops).parts, p.guard = false := by
  exact step_completionPoll_out _

/-- guards are held exactly by the participants that registered before completion started and have
not finished -/
theorem guard_iff_registered_early_and_alive (ops : List Op) (p : Part) (hp : p ∈ (stateAfter ops).parts)
    (hg : p.guard = true) : p.alive = true := by
  have hinv : GuardAlive (stateAfter ops) :=
    run_invariant GuardAlive guardAlive_step ops {} (fun p hp => by cases hp)
  exact hinv p hp hg

/-- once all have finished, completion stays enabled whatever else happens except new
registrations (which get no guard after completion started) -/
theorem completion_stable (ops more : List Op) (h : (step (stateAfter ops) .completionPoll).2 = .done) :
    (step (stateAfter (ops ++ [.completionPoll] ++ more)) .completionPoll).2 = .done := by
  rw [step_completionPoll_out] at h ⊢
  have hinv : Done (stateAfter (ops ++ [.completionPoll] ++ more)) := by
    simp only [stateAfter, run_append_fst, run_singleton_fst]
    apply run_invariant Done done_step
    exact ⟨step_completionPoll_completing _, by rw [step_completionPoll_parts]; exact h⟩
  exact hinv.2

/-- a registration after completion started gets no guard (and cannot delay completion) -/
theorem late_registration_gets_no_guard (ops : List Op) (h : Op.completionPoll ∈ ops) :
    ∃ idx, (step (stateAfter ops) .register).2 = .registered idx false := by
  refine ⟨(stateAfter ops).parts.length, ?_⟩
  have hc : (stateAfter ops).completing = true := completing_of_mem_run ops h {}
  simp [step, hc]

/-- **Completion waits for everybody who registered in time**: a participant registered before
`completion()` was first polled holds a guard, and until it finishes, every poll of `completion()` -
whatever else happens (submits, other participants finishing, late registrations) - is pending -/
theorem completion_waits_for_unfinished (pre mid : List Op) (i : Nat)
    (hi : i = (stateAfter pre).parts.length) (hpre : Op.completionPoll ∉ pre)
    (hmid : ∀ op ∈ mid, op ≠ .finish i) :
    (step (stateAfter (pre ++ [.register] ++ mid)) .completionPoll).2 = .pending := by
  have hg : GuardAt i (stateAfter (pre ++ [.register] ++ mid)) := by
    simp only [stateAfter, run_append_fst, run_singleton_fst]
    apply run_invariant_of (GuardAt i) (fun op => op ≠ .finish i) (guardAt_step i) mid _ hmid
    have hc : (run {} pre).1.completing = false := completing_false_of_not_mem_run pre hpre {} rfl
    refine ⟨{ alive := true, unseen := false, guard := !(run {} pre).1.completing }, ?_, by simp [hc]⟩
    rw [step_register_parts, hi]
    simp [stateAfter]
  obtain ⟨p, hp, hgp⟩ := hg
  have hnd : (step (stateAfter (pre ++ [.register] ++ mid)) .completionPoll).2 ≠ .done := by
    rw [Ne, step_completionPoll_out]
    intro hall
    have := hall p (List.mem_iff_getElem?.mpr ⟨i, hp⟩)
    rw [hgp] at this; cases this
  revert hnd
  simp only [step]
  split <;> simp

example : (run {} [.register, .register, .finish 0, .submit, .completionPoll, .register, .completionPoll, .finish 1,
    .completionPoll]).2 = [.registered 0 true, .registered 1 true, .none_, .none_, .pending, .registered 2 false, .pending,
    .none_, .done] := by decide

example : (run {} [.register, .register, .submit, .waitPoll 0, .finish 0, .completionPoll, .waitPoll 1, .finish 1,
    .completionPoll]).2 = [.registered 0 true, .registered 1 true, .none_, .ready, .none_, .pending, .ready, .none_, .done] := by
  decide


end TT.Shutdown
