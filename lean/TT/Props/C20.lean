import TT.Model.Scrub
import TT.Gen.LogSites
import TT.Lemmas.Scrub
/-!
# C20  Secrets never reach the log, at any level

Three parts: (1) the scrubbers hide what they are meant to hide, stated as *non-interference*
(the printed form does not depend on the secret); (2) every logging call and every
error-string-building `format!` of `lib/src`, re-extracted from the source on every run together
with the taint verdict of `tools/extract.py`, is clean; (3) (not a theorem) the dynamic canary
search of the `c20` suite.
-/
namespace TT.Scrub

/-- two header lists that differ only in the values of Authorization / Proxy-Authorization /
Cookie headers -/
def SameUpToSecrets : Headers → Headers → Prop
  | [], [] => True
  | (n1, v1) :: r1, (n2, v2) :: r2 => n1 = n2 ∧ (n1 ∈ sensitive ∨ v1 = v2) ∧ SameUpToSecrets r1 r2
  | _, _ => False

/-- **The scrubbed request does not depend on the secret values** -/
theorem scrub_request_hides (h1 h2 : Headers) (h : SameUpToSecrets h1 h2) : scrubHeaders h1 = scrubHeaders h2 := by
  have hrel : ∀ a b, SameUpToSecrets a b → Rel sensitive a b := by
    intro a
    induction a with
    | nil => intro b hb; cases b <;> simp_all [SameUpToSecrets, Rel]
    | cons x xs ih =>
      intro b hb
      cases b with
      | nil => simp [SameUpToSecrets] at hb
      | cons y ys =>
        obtain ⟨n1, v1⟩ := x
        obtain ⟨n2, v2⟩ := y
        simp only [SameUpToSecrets] at hb
        exact ⟨hb.1, hb.2.1, ih ys hb.2.2⟩
  rw [scrubHeaders_eq, scrubHeaders_eq]
  exact Rel_nil_eq _ _ (Rel_step _ _ _ _ (Rel_step _ _ _ _ (Rel_step _ _ _ _ (hrel h1 h2 h))))

/-- every sensitive header that is present shows the placeholder, exactly once -/
theorem scrubbed_values_are_placeholders (hs : Headers) (n v : String) (hm : (n, v) ∈ scrubHeaders hs)
    (hn : n ∈ sensitive) : v = placeholder := by
  rw [scrubHeaders_eq] at hm
  simp only [sensitive, List.mem_cons, List.not_mem_nil, or_false] at hn
  rcases hn with rfl | rfl | rfl
  · exact AllPh_step_other _ _ (by decide) _
      (AllPh_step_other _ _ (by decide) _ (AllPh_step_self _ _)) v hm
  · exact AllPh_step_other _ _ (by decide) _ (AllPh_step_self _ _) v hm
  · exact AllPh_step_self _ _ v hm

/-- the other headers are left as they are, in order -/
theorem scrub_keeps_other_headers (hs : Headers) :
    (scrubHeaders hs).filter (fun h => !sensitive.contains h.1) = hs.filter (fun h => !sensitive.contains h.1) := by
  rw [scrubHeaders_eq, filter_step _ _ sensitive_filtered_cookie,
    filter_step _ _ sensitive_filtered_proxy, filter_step _ _ sensitive_filtered_authorization]

/-- nothing is added: a request without a sensitive header is printed as is -/
theorem scrub_adds_nothing (hs : Headers) (h : ∀ x ∈ hs, x.1 ∉ sensitive) : scrubHeaders hs = hs := by
  have h' : ∀ name ∈ sensitive, ∀ x ∈ hs, x.1 ≠ name := fun name hn x hx e => h x hx (e ▸ hn)
  rw [scrubHeaders_eq, step_eq_self _ hs (h' _ (by decide)), step_eq_self _ hs (h' _ (by decide)),
    step_eq_self _ hs (h' _ (by decide))]

/-- **The scrubbed SNI does not depend on the credentials label** of `<credentials>.<host>` -/
theorem scrub_sni_hides_label (c1 c2 host : List Char) (h1 : '.' ∉ c1) (h2 : '.' ∉ c2) :
    scrubSni (c1 ++ '.' :: host) = scrubSni (c2 ++ '.' :: host) ∧
    scrubSni (c1 ++ '.' :: host) = placeholder.toList ++ '.' :: host := by
  rw [scrubSni_label c1 host h1, scrubSni_label c2 host h2]
  exact ⟨rfl, rfl⟩

/-- **The debug form of the connection meta does not depend on the credentials** -/
theorem meta_debug_hides_creds (c1 c2 host : List Char) (h1 : '.' ∉ c1) (h2 : '.' ∉ c2) (p ch : String) :
    metaDebug (c1 ++ '.' :: host) (some c1) p ch = metaDebug (c2 ++ '.' :: host) (some c2) p ch := by
  rw [metaDebug_some, metaDebug_some, scrubSni_label c1 host h1, scrubSni_label c2 host h2]

/-- **A secret carried only by sensitive headers does not occur in the scrubbed request at all**:
stated on the output rather than by comparison - no header of the scrubbed list has the secret as its
value, however many times and under whichever of the three names it was sent -/
theorem secret_value_absent (hs : Headers) (secret : String) (hne : secret ≠ placeholder)
    (hocc : ∀ x ∈ hs, x.2 = secret → x.1 ∈ sensitive) : ∀ x ∈ scrubHeaders hs, x.2 ≠ secret := by
  intro x hx heq
  by_cases hn : x.1 ∈ sensitive
  · have := scrubbed_values_are_placeholders hs x.1 x.2 hx hn
    exact hne (heq ▸ this)
  · have hf : x ∈ (scrubHeaders hs).filter (fun h => !sensitive.contains h.1) := by
      rw [List.mem_filter]
      exact ⟨hx, by simpa using hn⟩
    rw [scrub_keeps_other_headers] at hf
    exact hn (hocc x (List.mem_filter.1 hf).1 heq)

/-- a server name without a dot carries no credentials label and is printed as it is -/
theorem scrub_sni_single_label (sni : List Char) (h : '.' ∉ sni) : scrubSni sni = sni := by
  unfold scrubSni
  have : sni.span (· != '.') = (sni, []) := by
    simp [List.span, span_loop_nodot sni [] h]
  rw [this]

example : scrubSni "localhost".toList = "localhost".toList ∧
    scrubSni "user-pass.vpn.example.org".toList = "scrubbed.vpn.example.org".toList := by decide

/-- **Every log site is clean**: none of the (currently several hundred) logging calls and
request-derived error strings of the library prints a secret-bearing expression that is not
wrapped by a scrubber.  The list and the taint verdicts are regenerated from `/repo` on every
run; a new unscrubbed site makes this `decide` fail and names the site. -/
theorem all_log_sites_clean : ∀ s ∈ TT.Gen.logSites, s.tainted = false := by
  decide +kernel

/-- the table is not vacuous -/
theorem log_sites_nonempty : 100 ≤ TT.Gen.logSites.length := by
  decide +kernel

/-! ## Records of the TLS library -/

/-- **the TLS library's handshake dumps never reach the log, at any level**: a trace record whose target
is the TLS library's is dropped whatever the configured maximum -/
theorem tls_library_traces_never_logged (maxLevel : Nat) (target : List Char)
    (h : tlsLibrary.isPrefixOf target = true) : loggable maxLevel traceLevel target = false := by
  simp [loggable, h]

/-- nothing else is filtered: every other record is written exactly when its level is within the maximum -/
theorem other_records_follow_the_level (maxLevel level : Nat) (target : List Char)
    (h : level ≠ traceLevel ∨ tlsLibrary.isPrefixOf target = false) :
    loggable maxLevel level target = decide (level ≤ maxLevel) := by
  cases h with
  | inl h => simp [loggable, h]
  | inr h => simp [loggable, h]

example : loggable 5 5 "rustls::server::hs".toList = false ∧ loggable 5 4 "rustls::server::hs".toList = true
    ∧ loggable 5 5 "trusttunnel::core".toList = true ∧ loggable 3 4 "trusttunnel::core".toList = false := by
  decide

end TT.Scrub
